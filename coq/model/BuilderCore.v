(* The dependency bookkeeping of CodeBuilder._add_statement
   (dagrt/language.py: _writer_map, _reader_map, depends_on), over abstract
   extended read/write sets.  Definitions only. *)
From Coq Require Import List Arith.
Import ListNotations.

Section Core.
  Variable V : Type.
  Variable V_eq_dec : forall a b : V, {a = b} + {a <> b}.

  (* a statement seen by the bookkeeping: its extended read and write sets *)
  Record rw := { R : list V; W : list V }.
  (* builder state: last writer per variable, readers since the last write, and the
     depends_on list of every statement added so far (statement ids are positions) *)
  Record bs := { writer : V -> option nat; readers : V -> list nat; out : list (list nat) }.

  Definition memb (v : V) (l : list V) : bool := if in_dec V_eq_dec v l then true else false.

  Definition wdeps (b : bs) (vs : list V) : list nat :=
    flat_map (fun v => match writer b v with Some w => [w] | None => [] end) vs.

  Definition add (b : bs) (s : rw) : bs :=
    let n := length (out b) in
    {| writer := fun v => if memb v (W s) then Some n else writer b v;
       readers := fun v => if memb v (W s) then [] else if memb v (R s) then n :: readers b v else readers b v;
       out := out b ++ [wdeps b (R s ++ W s) ++ flat_map (readers b) (W s)] |}.

  Definition init : bs := {| writer := fun _ => None; readers := fun _ => []; out := [] |}.
  Definition build (p : list rw) : bs := fold_left add p init.
End Core.
Arguments R {V}. Arguments W {V}. Arguments writer {V}. Arguments readers {V}. Arguments out {V}.
Arguments Build_rw {V}. Arguments init {V}.
