(* How dagrt/codegen/expressions.py FortranExpressionMapper prints the logical operators, and how
   Fortran reads what was printed.  Definitions only.

   Printer (map_logical_not / map_logical_and / map_logical_or + pymbolic's parenthesize_if_needed
   and join_rec): every operator has a precedence of its own and a precedence handed to its
   operands; an operand is put in parentheses iff the precedence it is handed is GREATER than its
   own (`if enclosing_prec > my_prec`).  The six numbers are read from the source (GenC03.v).
   Atoms stand for everything that binds tighter than the logical operators as far as this model is
   concerned (variables, comparisons, parenthesised arithmetic).

   Reader: Fortran's grammar of logical expressions (F2008 R714-R717):
       or-operand  ::= and-operand { .and. and-operand }        (level: .and.)
       expr        ::= or-operand  { .or.  or-operand }         (level: .or.)
       and-operand ::= [ .not. ] primary                        (`.not. .not. x` is not Fortran)
       primary     ::= atom | ( expr )
   evaluated directly for a valuation of the atoms (the meaning of the token string). *)
From Coq Require Import List Arith Bool.
Import ListNotations.

Inductive bexp :=
| BAtom (n : nat)
| BNot (a : bexp)
| BAnd (l : list bexp)
| BOr (l : list bexp).

Inductive tok := TAtom (n : nat) | TNot | TAnd | TOr | TLP | TRP.

Section Eval.
  Variable v : nat -> bool.
  Fixpoint beval (e : bexp) : bool :=
    match e with
    | BAtom n => v n
    | BNot a => negb (beval a)
    | BAnd l => forallb beval l          (* all(...) *)
    | BOr l => existsb beval l           (* any(...) *)
    end.
End Eval.

(* sep.join(...) *)
Fixpoint join (sep : tok) (l : list (list tok)) : list tok :=
  match l with
  | [] => []
  | [x] => x
  | x :: r => x ++ sep :: join sep r
  end.

Section Printer.
  Variables or_child or_own and_child and_own not_child not_own : nat.

  (* parenthesize_if_needed(s, enclosing_prec, my_prec) *)
  Definition paren (enclosing mine : nat) (ts : list tok) : list tok :=
    if mine <? enclosing then TLP :: ts ++ [TRP] else ts.

  Fixpoint bprint (enclosing : nat) (e : bexp) : list tok :=
    match e with
    | BAtom n => [TAtom n]
    | BNot a => paren enclosing not_own (TNot :: bprint not_child a)
    | BAnd l => paren enclosing and_own (join TAnd (map (bprint and_child) l))
    | BOr l => paren enclosing or_own (join TOr (map (bprint or_child) l))
    end.
End Printer.

(* ---- Fortran's reading, evaluated ---- *)
Section Reader.
  Variable v : nat -> bool.

  Section Level.
    Variable top : list tok -> option (bool * list tok).     (* expr, used inside parentheses *)

    Definition e_prim (ts : list tok) : option (bool * list tok) :=
      match ts with
      | TAtom n :: r => Some (v n, r)
      | TLP :: r => match top r with
                    | Some (b, TRP :: r') => Some (b, r')
                    | _ => None
                    end
      | _ => None
      end.

    Definition e_not (ts : list tok) : option (bool * list tok) :=
      match ts with
      | TNot :: r => match e_prim r with Some (b, r') => Some (negb b, r') | None => None end
      | _ => e_prim ts
      end.

    (* k bounds the number of operands *)
    Fixpoint e_and (k : nat) (ts : list tok) : option (bool * list tok) :=
      match k with
      | 0 => None
      | S k' =>
          match e_not ts with
          | Some (b, TAnd :: r) =>
              match e_and k' r with Some (b2, r') => Some (b && b2, r') | None => None end
          | other => other
          end
      end.

    Fixpoint e_or (k : nat) (ts : list tok) : option (bool * list tok) :=
      match k with
      | 0 => None
      | S k' =>
          match e_and (S k') ts with
          | Some (b, TOr :: r) =>
              match e_or k' r with Some (b2, r') => Some (b || b2, r') | None => None end
          | other => other
          end
      end.
  End Level.

  (* f bounds the nesting of parentheses *)
  Fixpoint e_top (f : nat) (ts : list tok) : option (bool * list tok) :=
    match f with
    | 0 => None
    | S f' => e_or (e_top f') (List.length ts) ts
    end.

  Definition fortran_value (ts : list tok) : option bool :=
    match e_top (S (List.length ts)) ts with
    | Some (b, []) => Some b
    | _ => None
    end.
End Reader.

(* ---- vocabulary of the theorems ---- *)
Fixpoint height (e : bexp) : nat :=
  match e with
  | BAtom _ => 1
  | BNot a => S (height a)
  | BAnd l | BOr l => S (fold_right (fun c m => Nat.max (height c) m) 0 l)
  end.

(* and / or have at least two operands; no negation directly under a negation (open finding
   double_negation_not_fortran: `.not. .not. x` is rejected by gfortran) *)
Fixpoint wf (e : bexp) : bool :=
  match e with
  | BAtom _ => true
  | BNot a => wf a && match a with BNot _ => false | _ => true end
  | BAnd l | BOr l => match l with _ :: _ :: _ => true | _ => false end && forallb wf l
  end.

(* what the printer's six numbers have to satisfy *)
Definition prec_ok (or_child or_own and_child and_own not_child not_own : nat) : bool :=
  (or_own <? and_child) && (or_own <? not_child) && (and_own <? not_child).

(* ---- comparison with the real printer (harness) ---- *)
Definition tok_eqb (a b : tok) : bool :=
  match a, b with
  | TAtom n, TAtom m => Nat.eqb n m
  | TNot, TNot | TAnd, TAnd | TOr, TOr | TLP, TLP | TRP, TRP => true
  | _, _ => false
  end.
Fixpoint toks_eqb (a b : list tok) : bool :=
  match a, b with
  | [], [] => true
  | x :: a', y :: b' => tok_eqb x y && toks_eqb a' b'
  | _, _ => false
  end.

(* ---------------------------------------------------------------------------------------------
   Powers.  Printer: FortranExpressionMapper.map_power, or -- when the class has none -- pymbolic's
   StringifyMapper.map_power: `base**exponent`, the base printed at precedence bp, the exponent at xp,
   the whole put in parentheses iff the precedence it is handed is greater than own.  The three
   numbers are read from the source (GenC03.v: c03_prec_pow_base / _exp / _own).  Atoms stand for
   everything that binds tighter (variables, literals -- negative ones carry parentheses of their own
   in map_constant --, calls, parenthesised sums and products).

   Reader: Fortran's grammar (F2008 R704-R705)
       mult-operand ::= level-1-expr [ ** mult-operand ]          (`**` associates to the RIGHT)
       level-1-expr ::= atom | ( expr )
   read back into a tree. *)
Inductive pexp := PAtom (n : nat) | PPow (b x : pexp).
Inductive ptok := PA (n : nat) | PStar | PL | PR.

Section PowerPrinter.
  Variables bp xp own : nat.
  Fixpoint pprint (enc : nat) (e : pexp) : list ptok :=
    match e with
    | PAtom n => [PA n]
    | PPow b x => let s := pprint bp b ++ PStar :: pprint xp x in
                  if own <? enc then PL :: s ++ [PR] else s
    end.
End PowerPrinter.

Definition pprim (rd : list ptok -> option (pexp * list ptok)) (ts : list ptok) : option (pexp * list ptok) :=
  match ts with
  | PA n :: r => Some (PAtom n, r)
  | PL :: r => match rd r with Some (e, PR :: r') => Some (e, r') | _ => None end
  | _ => None
  end.

Fixpoint pread (fuel : nat) (ts : list ptok) : option (pexp * list ptok) :=
  match fuel with
  | 0 => None
  | S f => match pprim (pread f) ts with
           | Some (b, PStar :: r) => match pread f r with
                                     | Some (x, r') => Some (PPow b x, r')
                                     | None => None
                                     end
           | other => other
           end
  end.

Fixpoint psize (e : pexp) : nat :=
  match e with PAtom _ => 1 | PPow b x => 2 + psize b + psize x end.

Section PowerEval.
  Variable v : nat -> nat.
  Fixpoint pval (e : pexp) : nat :=
    match e with PAtom n => v n | PPow b x => Nat.pow (pval b) (pval x) end.
End PowerEval.

Fixpoint pexp_eqb (a b : pexp) : bool :=
  match a, b with
  | PAtom n, PAtom m => Nat.eqb n m
  | PPow a1 a2, PPow b1 b2 => pexp_eqb a1 b1 && pexp_eqb a2 b2
  | _, _ => false
  end.
Definition ptok_eqb (a b : ptok) : bool :=
  match a, b with
  | PA n, PA m => Nat.eqb n m
  | PStar, PStar | PL, PL | PR, PR => true
  | _, _ => false
  end.
Fixpoint ptoks_eqb (a b : list ptok) : bool :=
  match a, b with
  | [], [] => true
  | x :: a', y :: b' => ptok_eqb x y && ptoks_eqb a' b'
  | _, _ => false
  end.
