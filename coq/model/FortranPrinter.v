(* How dagrt/codegen/expressions.py FortranExpressionMapper prints the logical operators, and how
   Fortran reads what was printed.  Definitions only.

   Printer (map_logical_not / map_logical_and / map_logical_or + pymbolic's parenthesize_if_needed
   and join_rec): every operator has a precedence of its own and a precedence handed to its
   operands; an operand is put in parentheses iff the precedence it is handed is GREATER than its
   own (`if enclosing_prec > my_prec`).  The six numbers are read from the source (GenC03.v).
   Atoms stand for everything that binds tighter than the logical operators as far as this model is
   concerned (variables, comparisons, parenthesised arithmetic).

   Reader: Fortran's grammar of logical expressions (F2008 R714-R717):
       or-operand  ::= and-operand { .and. and-operand }        (level: .and.)
       expr        ::= or-operand  { .or.  or-operand }         (level: .or.)
       and-operand ::= [ .not. ] primary                        (`.not. .not. x` is not Fortran)
       primary     ::= atom | ( expr )
   evaluated directly for a valuation of the atoms (the meaning of the token string). *)
From Coq Require Import List Arith Bool.
Import ListNotations.

Inductive bexp :=
| BAtom (n : nat)
| BNot (a : bexp)
| BAnd (l : list bexp)
| BOr (l : list bexp).

Inductive tok := TAtom (n : nat) | TNot | TAnd | TOr | TLP | TRP.

Section Eval.
  Variable v : nat -> bool.
  Fixpoint beval (e : bexp) : bool :=
    match e with
    | BAtom n => v n
    | BNot a => negb (beval a)
    | BAnd l => forallb beval l          (* all(...) *)
    | BOr l => existsb beval l           (* any(...) *)
    end.
End Eval.

(* sep.join(...) *)
Fixpoint join (sep : tok) (l : list (list tok)) : list tok :=
  match l with
  | [] => []
  | [x] => x
  | x :: r => x ++ sep :: join sep r
  end.

Section Printer.
  Variables or_child or_own and_child and_own not_child not_own : nat.

  (* parenthesize_if_needed(s, enclosing_prec, my_prec) *)
  Definition paren (enclosing mine : nat) (ts : list tok) : list tok :=
    if mine <? enclosing then TLP :: ts ++ [TRP] else ts.

  Fixpoint bprint (enclosing : nat) (e : bexp) : list tok :=
    match e with
    | BAtom n => [TAtom n]
    | BNot a => paren enclosing not_own (TNot :: bprint not_child a)
    | BAnd l => paren enclosing and_own (join TAnd (map (bprint and_child) l))
    | BOr l => paren enclosing or_own (join TOr (map (bprint or_child) l))
    end.
End Printer.

(* ---- Fortran's reading, evaluated ---- *)
Section Reader.
  Variable v : nat -> bool.

  Section Level.
    Variable top : list tok -> option (bool * list tok).     (* expr, used inside parentheses *)

    Definition e_prim (ts : list tok) : option (bool * list tok) :=
      match ts with
      | TAtom n :: r => Some (v n, r)
      | TLP :: r => match top r with
                    | Some (b, TRP :: r') => Some (b, r')
                    | _ => None
                    end
      | _ => None
      end.

    Definition e_not (ts : list tok) : option (bool * list tok) :=
      match ts with
      | TNot :: r => match e_prim r with Some (b, r') => Some (negb b, r') | None => None end
      | _ => e_prim ts
      end.

    (* k bounds the number of operands *)
    Fixpoint e_and (k : nat) (ts : list tok) : option (bool * list tok) :=
      match k with
      | 0 => None
      | S k' =>
          match e_not ts with
          | Some (b, TAnd :: r) =>
              match e_and k' r with Some (b2, r') => Some (b && b2, r') | None => None end
          | other => other
          end
      end.

    Fixpoint e_or (k : nat) (ts : list tok) : option (bool * list tok) :=
      match k with
      | 0 => None
      | S k' =>
          match e_and (S k') ts with
          | Some (b, TOr :: r) =>
              match e_or k' r with Some (b2, r') => Some (b || b2, r') | None => None end
          | other => other
          end
      end.
  End Level.

  (* f bounds the nesting of parentheses *)
  Fixpoint e_top (f : nat) (ts : list tok) : option (bool * list tok) :=
    match f with
    | 0 => None
    | S f' => e_or (e_top f') (List.length ts) ts
    end.

  Definition fortran_value (ts : list tok) : option bool :=
    match e_top (S (List.length ts)) ts with
    | Some (b, []) => Some b
    | _ => None
    end.
End Reader.

(* ---- vocabulary of the theorems ---- *)
Fixpoint height (e : bexp) : nat :=
  match e with
  | BAtom _ => 1
  | BNot a => S (height a)
  | BAnd l | BOr l => S (fold_right (fun c m => Nat.max (height c) m) 0 l)
  end.

(* and / or have at least two operands; no negation directly under a negation (open finding
   double_negation_not_fortran: `.not. .not. x` is rejected by gfortran) *)
Fixpoint wf (e : bexp) : bool :=
  match e with
  | BAtom _ => true
  | BNot a => wf a && match a with BNot _ => false | _ => true end
  | BAnd l | BOr l => match l with _ :: _ :: _ => true | _ => false end && forallb wf l
  end.

(* what the printer's six numbers have to satisfy *)
Definition prec_ok (or_child or_own and_child and_own not_child not_own : nat) : bool :=
  (or_own <? and_child) && (or_own <? not_child) && (and_own <? not_child).

(* ---- comparison with the real printer (harness) ---- *)
Definition tok_eqb (a b : tok) : bool :=
  match a, b with
  | TAtom n, TAtom m => Nat.eqb n m
  | TNot, TNot | TAnd, TAnd | TOr, TOr | TLP, TLP | TRP, TRP => true
  | _, _ => false
  end.
Fixpoint toks_eqb (a b : list tok) : bool :=
  match a, b with
  | [], [] => true
  | x :: a', y :: b' => tok_eqb x y && toks_eqb a' b'
  | _, _ => false
  end.
