(* Boolean comparison functions for the C02 / C01 correspondence checks. *)
From Coq Require Import List ZArith String Bool Arith.
Import ListNotations.
From Dagrt Require Import Lang TestOracle LangCheck BuilderCore Builder Sched.

Definition cmpop_eqb (a b : cmpop) : bool :=
  match a, b with
  | CLt, CLt | CLe, CLe | CGt, CGt | CGe, CGe | CEq, CEq | CNe, CNe => true
  | _, _ => false
  end.
Definition nop_eqb (a b : nop) : bool :=
  match a, b with
  | NSum, NSum | NProd, NProd | NMin, NMin | NMax, NMax | NAnd, NAnd | NOr, NOr => true
  | NCall f k, NCall f' k' => String.eqb f f' && list_eqb String.eqb k k'
  | _, _ => false
  end.
Definition bop_eqb (a b : bop) : bool :=
  match a, b with
  | BFloorDiv, BFloorDiv | BRem, BRem | BSub, BSub => true
  | BCmp o, BCmp o' => cmpop_eqb o o'
  | _, _ => false
  end.
Fixpoint expr_eqb (a b : expr) {struct a} : bool :=
  match a, b with
  | EInt x, EInt y => Z.eqb x y
  | EBool x, EBool y => Bool.eqb x y
  | ENone, ENone => true
  | EVar x, EVar y => String.eqb x y
  | ENot x, ENot y => expr_eqb x y
  | EIf c t e, EIf c' t' e' => expr_eqb c c' && expr_eqb t t' && expr_eqb e e'
  | EBin o x y, EBin o' x' y' => bop_eqb o o' && expr_eqb x x' && expr_eqb y y'
  | ENary o l, ENary o' l' =>
      nop_eqb o o' &&
      (fix go (l m : list expr) : bool :=
         match l, m with
         | [], [] => true
         | x :: l', y :: m' => expr_eqb x y && go l' m'
         | _, _ => false
         end) l l'
  | _, _ => false
  end.
Definition loop_eqb (a b : var * expr * expr) : bool :=
  String.eqb (fst (fst a)) (fst (fst b)) && expr_eqb (snd (fst a)) (snd (fst b)) && expr_eqb (snd a) (snd b).
Definition kw_eqb (a b : string * expr) : bool := String.eqb (fst a) (fst b) && expr_eqb (snd a) (snd b).
Definition skind_eqb (a b : skind) : bool :=
  match a, b with
  | KAssign x s r l, KAssign x' s' r' l' =>
      String.eqb x x' && opt_eqb expr_eqb s s' && expr_eqb r r' && list_eqb loop_eqb l l'
  | KCall xs f a k, KCall xs' f' a' k' =>
      list_eqb String.eqb xs xs' && String.eqb f f' && list_eqb expr_eqb a a' && list_eqb kw_eqb k k'
  | KYield c t tm e, KYield c' t' tm' e' =>
      String.eqb c c' && String.eqb t t' && expr_eqb tm tm' && expr_eqb e e'
  | KFail, KFail | KNop, KNop => true
  | KRaise k, KRaise k' => String.eqb k k'
  | KSwitch p, KSwitch p' => String.eqb p p'
  | _, _ => false
  end.
Definition nat_set_eqb (a b : list nat) : bool :=
  forallb (fun x => existsb (Nat.eqb x) b) a && forallb (fun x => existsb (Nat.eqb x) a) b.
Definition stmt_eqb (a b : stmt) : bool :=
  Nat.eqb (sid a) (sid b) && nat_set_eqb (sdeps a) (sdeps b) && expr_eqb (scond a) (scond b)
  && skind_eqb (skd a) (skd b).

Definition stop_eqb (a b : stop) : bool :=
  match a, b with
  | StFail, StFail => true
  | StSwitch p, StSwitch q => String.eqb p q
  | StRaise k, StRaise j => String.eqb k j
  | _, _ => false
  end.

Inductive xres :=
| XRun (vals : list (option val)) (evs : list event)
| XStop (vals : list (option val)) (evs : list event) (w : stop)
| XCrashed.

Definition res_matches (univ : list var) (r : rstate) (x : xres) : bool :=
  match r, x with
  | RRun s e, XRun vals xe => list_eqb (opt_eqb val_eqb) (map s univ) vals && list_eqb event_eqb e xe
  | RStop s e w, XStop vals xe xw =>
      list_eqb (opt_eqb val_eqb) (map s univ) vals && list_eqb event_eqb e xe && stop_eqb w xw
  | RCrash _ _, XCrashed => true
  | _, _ => false
  end.

Record case2 := {
  p_prog : list bcall; p_stmts : list stmt; p_names : list string;
  p_store : store; p_univ : list var; p_runs : list (list nat * xres) }.

Section Chk.
  Variables del_guarded lhs_sub_reads loop_bound_reads : bool.
  Variable is_state : var -> bool.
  Variable tok : var.
  Definition chk2 (c : case2) : bool :=
    match build lhs_sub_reads loop_bound_reads is_state tok (p_prog c) with
    | BOk b =>
        list_eqb stmt_eqb (b_stmts b) (p_stmts c)
        && list_eqb String.eqb (b_names b) (p_names c)
        && forallb (fun r => res_matches (p_univ c)
                               (run_ids test_F del_guarded (b_stmts b) (fst r) (RRun (p_store c) []))
                               (snd r)) (p_runs c)
    | _ => false
    end.
End Chk.
