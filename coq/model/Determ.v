(* C15 -- model of the places in the two code generators where a Python container WITHOUT a
   defined iteration order (set / frozenset), a dict in caller-chosen insertion order, or
   process-global state reaches the emitted text.  Definitions only (no proofs).

   Every iteration over such a container takes the iteration order as an explicit list (or an
   oracle returning one); the theorems in proofs/DetermProofs.v quantify over it.

   Modelled sites (dagrt/codegen):
     S1  transform.py  SelfDependencyEliminator.map_statement   `for var_name in read_and_written`
     S2  analysis.py   var_to_last_dependent_statement_mapping  `for variable in read_and_written`
     S3  fortran.py    emit_deinit_for_last_usage_of_vars       `for variable in read_and_written`
     S3' fortran.py    lower_function, end-of-function deinit   `sorted(sym_table.items())`
     S4  python.py     CodeGenerator.__call__ / _emit_constructor  `dag.phases.keys()/.items()`
     S4' fortran.py    CodeGenerator.__call__                   `sorted(dag.phases.keys())`
     S5  fortran.py    ArrayType.__init__                       default index variable names
   The shape switches (sorted or not; global counter or not) come from coq/gen/GenC15.v.

   Composition: `pipeline_f` / `pipeline_py` chain C05's `DagAst.lower` (create_ast_from_phase)
   with S1, the three expression-level passes (an arbitrary function `mid`: they iterate over
   tuples and lists only), S2, S3, S3' under S4' resp. S4.  The kind table is an input
   (C14 proves it independent of the statement order).  Text production is NOT modelled. *)
From Coq Require Import List String Ascii Bool Arith DecimalString Permutation.
Import ListNotations.
From Dagrt Require Import Simplify DagAst Unify KindInfer.
Open Scope string_scope.
Open Scope list_scope.

(* ------------------------------------------------------------------ sorted() *)

(* Python's sorted(l, key=...) for string keys: stable insertion sort; String.leb is the
   byte-wise order, which is Python's str order on the identifiers used here. *)
Section SortBy.
  Context {A : Type}.
  Variable key : A -> string.
  Fixpoint insert_by (x : A) (l : list A) : list A :=
    match l with
    | [] => [x]
    | y :: r => if String.leb (key x) (key y) then x :: l else y :: insert_by x r
    end.
  Definition sort_by (l : list A) : list A := fold_right insert_by [] l.
End SortBy.

Definition ssort : list string -> list string := sort_by (fun s => s).

(* ------------------------------------------------------------------ sets of names *)

Definition smem (x : string) (l : list string) : bool := existsb (String.eqb x) l.
Definition sinter (a b : list string) : list string := filter (fun x => smem x b) a.
Definition sunion (a b : list string) : list string := a ++ filter (fun x => negb (smem x a)) b.

Definition dec (n : nat) : string := NilZero.string_of_uint (Nat.to_uint n).

(* what the iteration sites consume of a statement *)
Record sstmt := mkS {
  s_id : string;             (* statement.id *)
  s_reads : list string;     (* get_read_variables()    (a frozenset; listed without duplicates) *)
  s_writes : list string;    (* get_written_variables() *)
  s_deps : list string       (* depends_on *)
}.

(* var_name.replace("<", "_").replace(">", "_") *)
Fixpoint sanitize (s : string) : string :=
  match s with
  | EmptyString => EmptyString
  | String c r => String (if (Ascii.eqb c "<" || Ascii.eqb c ">")%bool then "_"%char else c) (sanitize r)
  end.

(* ================================================================== S1: self dependencies *)

Section SelfDep.
  (* pytools.UniqueNameGenerator: state and __call__ (external; see pg_gen below for the
     concrete instance used by the correspondence check) *)
  Variable G : Type.
  Variable gen : G -> string -> string * G.

  (* the loop body of map_statement for the iteration order `it`;
     a triple is (tmp_var_name, var_name, tmp_stmt_id) *)
  Fixpoint selfdep_loop (it : list string) (gv gi : G) : list (string * string * string) * G * G :=
    match it with
    | [] => ([], gv, gi)
    | v :: r =>
        let (tv, gv1) := gen gv ("temp_" ++ sanitize v)%string in
        let (ti, gi1) := gen gi "temp" in
        let '(rest, gv2, gi2) := selfdep_loop r gv1 gi1 in
        ((tv, v, ti) :: rest, gv2, gi2)
    end.

  Definition subst_var (temps : list (string * string * string)) (x : string) : string :=
    match find (fun t => String.eqb (snd (fst t)) x) temps with
    | Some t => fst (fst t)
    | None => x
    end.

  (* SelfDependencyEliminator.map_statement.
     sorted_shape = true  <->  `for var_name in sorted(read_and_written):`
     it = iteration order of the frozenset  get_read_variables() & get_written_variables() *)
  Definition selfdep_stmt (sorted_shape : bool) (it : list string) (st : sstmt) (gv gi : G)
    : list sstmt * G * G :=
    match it with
    | [] => ([st], gv, gi)                                   (* if not read_and_written: return [stmt] *)
    | _ =>
        let it' := if sorted_shape then ssort it else it in
        let '(temps, gv', gi') := selfdep_loop it' gv gi in
        (map (fun t => mkS (snd t) [snd (fst t)] [fst (fst t)] (s_deps st)) temps
           ++ [mkS (s_id st) (map (subst_var temps) (s_reads st)) (s_writes st)
                   (s_deps st ++ map snd temps)],
         gv', gi')
    end.

  (* apply_statement_rewriter over the leaves of one phase AST, in AST order (ASTIdentityMapper
     visits children left to right, then before else);  ord sid s = iteration order of the
     set s at statement sid *)
  Fixpoint selfdep_leaves (sorted_shape : bool) (ord : string -> list string -> list string)
           (ls : list sstmt) (gv gi : G) : list sstmt * G * G :=
    match ls with
    | [] => ([], gv, gi)
    | st :: r =>
        let '(o, gv1, gi1) :=
          selfdep_stmt sorted_shape (ord (s_id st) (sinter (s_reads st) (s_writes st))) st gv gi in
        let '(o', gv2, gi2) := selfdep_leaves sorted_shape ord r gv1 gi1 in
        (o ++ o', gv2, gi2)
    end.

  (* get_stmt_id_generator / get_var_name_generator build their name sets from the statements *)
  Variable ginit : list string -> G.
  Definition selfdep_pass (sorted_shape : bool) (ord : string -> list string -> list string)
             (ls : list sstmt) : list sstmt :=
    fst (fst (selfdep_leaves sorted_shape ord ls
                (ginit (flat_map (fun s => s_writes s ++ s_reads s) ls))
                (ginit (map s_id ls)))).
End SelfDep.

(* ---- the concrete UniqueNameGenerator (pytools 2025.1) for base names that do not end in
        _<digits> (the counter regexp then never matches) and empty forced prefix/suffix ---- *)
Record pgen := mkPG { pg_names : list string; pg_counters : list (string * nat) }.

Definition pg_init (names : list string) : pgen := mkPG names [].

Fixpoint pg_counter (cs : list (string * nat)) (b : string) : option nat :=
  match cs with
  | [] => None
  | (k, n) :: r => if String.eqb k b then Some n else pg_counter r b
  end.
Fixpoint pg_set_counter (cs : list (string * nat)) (b : string) (n : nat) : list (string * nat) :=
  match cs with
  | [] => [(b, n)]
  | (k, m) :: r => if String.eqb k b then (k, n) :: r else (k, m) :: pg_set_counter r b n
  end.

(* generate_numbered_unique_names from `num` on: (num+1, base_num), (num+2, base_{num+1}), ... *)
Fixpoint pg_search (fuel : nat) (names : list string) (base : string) (num : nat) : option (nat * string) :=
  match fuel with
  | 0 => None
  | S f => let nm := (base ++ "_" ++ dec num)%string in
           if smem nm names then pg_search f names base (S num) else Some (S num, nm)
  end.

Definition out_of_fuel_name : string := "<OutOfFuel>".

Definition pg_gen (g : pgen) (base : string) : string * pgen :=
  let found :=
    match pg_counter (pg_counters g) base with
    | None => if smem base (pg_names g)
              then pg_search (S (S (List.length (pg_names g)))) (pg_names g) base 0
              else Some (0, base)
    | Some n => pg_search (S (S (List.length (pg_names g)))) (pg_names g) base n
    end in
  match found with
  | Some (c, nm) => (nm, mkPG (nm :: pg_names g) (pg_set_counter (pg_counters g) base c))
  | None => (out_of_fuel_name, g)
  end.

(* ================================================================== S2: last use table *)

(* a Python dict keyed by (variable, function name), in insertion order *)
Definition lkey := (string * string)%type.
Definition lkey_eqb (a b : lkey) : bool := String.eqb (fst a) (fst b) && String.eqb (snd a) (snd b).
Definition ltable := list (lkey * string).

Fixpoint lset (k : lkey) (v : string) (d : ltable) : ltable :=
  match d with
  | [] => [(k, v)]
  | (k', v') :: r => if lkey_eqb k k' then (k', v) :: r else (k', v') :: lset k v r
  end.
Fixpoint lget (d : ltable) (k : lkey) : option string :=
  match d with
  | [] => None
  | (k', v) :: r => if lkey_eqb k k' then Some v else lget r k
  end.

(* for variable in read_and_written: tbl[variable, name] = statement.id *)
Definition last_use_stmt (p : string) (it : list string) (sid : string) (d : ltable) : ltable :=
  fold_left (fun d v => lset (v, p) sid d) it d.

Fixpoint last_use_phase (ord : string -> list string -> list string) (p : string)
         (ls : list sstmt) (d : ltable) : ltable :=
  match ls with
  | [] => d
  | st :: r =>
      last_use_phase ord p r
        (last_use_stmt p (ord (s_id st) (sunion (s_reads st) (s_writes st))) (s_id st) d)
  end.

(* for name, stmts in zip(names, statement_lists) *)
Fixpoint last_use_all (ord : string -> string -> list string -> list string)
         (fs : list (string * list sstmt)) (d : ltable) : ltable :=
  match fs with
  | [] => d
  | (p, ls) :: r => last_use_all ord r (last_use_phase (ord p) p ls d)
  end.

(* ================================================================== S3: release calls *)

Inductive dres :=
| DOk (calls : list (string * okind))   (* the emit_variable_deinit(variable, kind) calls, in order *)
| DKeyError (v : string).               (* self.last_used_stmt_table[v, current_function] *)

Definition dcons (c : string * okind) (r : dres) : dres :=
  match r with DOk l => DOk (c :: l) | DKeyError v => DKeyError v end.

Section Deinit.
  Variable is_state : string -> bool.     (* dagrt.utils.is_state_variable *)

  (* SymbolKindTable.get(phase, name): global table for state variables, else the phase's *)
  Definition kkey (p x : string) : key := if is_state x then (None, x) else (Some p, x).

  Fixpoint deinit_loop (T : table) (p : string) (tbl : ltable) (sid : string) (it : list string) : dres :=
    match it with
    | [] => DOk []
    | v :: r =>
        match tfind T (kkey p v) with
        | None => deinit_loop T p tbl sid r                 (* except KeyError: continue *)
        | Some k =>
            match lget tbl (v, p) with
            | None => DKeyError v
            | Some last =>
                if String.eqb sid last && negb (is_state v)
                then dcons (v, k) (deinit_loop T p tbl sid r)
                else deinit_loop T p tbl sid r
            end
        end
    end.

  (* emit_deinit_for_last_usage_of_vars(inst).
     sorted_shape = true  <->  `for variable in sorted(read_and_written):`
     it = iteration order of  get_read_variables() | get_written_variables() *)
  Definition deinit_calls (sorted_shape : bool) (T : table) (p : string) (tbl : ltable)
             (sid : string) (it : list string) : dres :=
    deinit_loop T p tbl sid (if sorted_shape then ssort it else it).

  (* lower_function, after the body:
       for identifier, sym_kind in sorted(sym_table.items()):
           if (identifier, current_function) not in last_used_stmt_table: emit_variable_deinit(...)
     sym_table = per_phase_table.get(current_function, {}), iterated in insertion order *)
  Definition phase_syms (T : table) (p : string) : list (string * okind) :=
    flat_map (fun e => match fst (fst e) with
                       | Some q => if String.eqb p q then [(snd (fst e), snd e)] else []
                       | None => []
                       end) T.
  (* exit_all = true: since the repair of C12 the loop releases every local
       for identifier, sym_kind in sorted(sym_table.items()): emit_variable_deinit(...) *)
  Definition final_deinit (exit_all : bool) (T : table) (p : string) (tbl : ltable) : list (string * okind) :=
    if exit_all then sort_by fst (phase_syms T p)
    else filter (fun e => match lget tbl (fst e, p) with None => true | Some _ => false end)
                (sort_by fst (phase_syms T p)).
End Deinit.

(* ================================================================== S5: default index variables *)

(* the Fortran type descriptions of dagrt.codegen.fortran (user_type_map values) *)
Inductive ftype :=
| FBuiltin
| FArray (ndims : nat) (elem : ftype)
| FPointer (pointee : ftype)
| FStruct (members : list ftype).

(* _count_nested_index_vars (fixes/C15_index_var_counter.patch): array axes along the deepest path *)
Fixpoint count_nested (t : ftype) : nat :=
  match t with
  | FBuiltin => 0
  | FArray n e => n + count_nested e
  | FPointer e => count_nested e
  | FStruct ms => fold_right (fun m r => Nat.max (count_nested m) r) 0 ms
  end.

(* ArrayType.__init__(dimension, element_type) with index_vars=None.
   global_counter = true  <->  names come from the class attribute ArrayType.INDEX_VAR_COUNTER;
   history = the counter's value when the constructor runs (what earlier constructions in the
   same process left behind).  Returns the names and the counter afterwards. *)
Definition index_vars (global_counter : bool) (history : nat) (ndims : nat) (elem : ftype)
  : list string * nat :=
  if global_counter
  then (map (fun k => ("i" ++ dec k)%string) (seq (S history) ndims), history + ndims)
  else (map (fun k => ("i" ++ dec k)%string) (seq (S (count_nested elem)) ndims), history).

(* ================================================================== S4 and the pipelines *)

Record pphase := mkPh {
  ph_name : string;
  ph_next : string;                 (* ExecutionPhase.next_phase *)
  ph_stmts : list DagAst.stmt       (* ExecutionPhase.statements, in the container's iteration order *)
}.

(* get_statements_in_ast: None = ValueError("Unknown node type") on a NullASTNode *)
Fixpoint leaves (t : ast) : option (list nat) :=
  match t with
  | Leaf n => Some [n]
  | Null => None
  | Block l => fold_right (fun c r => match leaves c, r with
                                      | Some a, Some b => Some (a ++ b)
                                      | _, _ => None end) (Some []) l
  | IfT _ a => leaves a
  | IfTE _ a b => match leaves a, leaves b with Some x, Some y => Some (x ++ y) | _, _ => None end
  | For _ b => leaves b
  end.

Inductive stage (A : Type) :=
| SOk (a : A)
| SLowerFailed (r : lres ast)      (* create_ast_from_phase raised (KeyError / IndexError) or ran out of fuel *)
| SValueError.                     (* get_statements_in_ast met a NullASTNode *)
Arguments SOk {A}. Arguments SLowerFailed {A}. Arguments SValueError {A}.

Section Pipeline.
  (* shapes of simplify_ast / create_ast_from_phase (GenC06.v, GenC05.v) *)
  Variables rev_expand guard_empty skip_false : bool.
  (* shapes of the C15 sites (GenC15.v) *)
  Variables selfdep_sorted deinit_sorted exit_all : bool.
  Variables py_phases_sorted py_table_sorted : bool.

  Variable G : Type.
  Variable gen : G -> string -> string * G.
  Variable ginit : list string -> G.
  (* isolate_function_arguments, isolate_function_calls, expand_IfThenElse on the leaves *)
  Variable mid : list sstmt -> list sstmt.
  (* the sites' view of the statement with rank id n of phase p *)
  Variable info : string -> nat -> sstmt.
  Variable is_state : string -> bool.

  (* ---- Fortran: create_ast_from_phase + process_ast, per phase ---- *)
  Definition f_front (ord1 : string -> list string -> list string) (ph : pphase)
    : stage (ast * list sstmt) :=
    match lower rev_expand guard_empty skip_false (ph_stmts ph) with
    | LOk t => match leaves t with
               | Some ids =>
                   SOk (t, mid (selfdep_pass G gen ginit selfdep_sorted ord1
                                             (map (info (ph_name ph)) ids)))
               | None => SValueError
               end
    | r => SLowerFailed r
    end.

  Definition front_leaves (r : stage (ast * list sstmt)) : list sstmt :=
    match r with SOk (_, ls) => ls | _ => [] end.

  (* ---- per phase: the release calls after every statement, and those at the end ---- *)
  Definition f_back (ord3 : string -> list string -> list string) (T : table) (tbl : ltable)
             (p : string) (ls : list sstmt) : list (string * dres) * list (string * okind) :=
    (map (fun st => (s_id st,
                     deinit_calls is_state deinit_sorted T p tbl (s_id st)
                                  (ord3 (s_id st) (sunion (s_reads st) (s_writes st))))) ls,
     final_deinit exit_all T p tbl).

  (* everything the Fortran generator computes before it writes text, per phase in emission order *)
  Definition pipeline_f (ord1 ord2 ord3 : string -> string -> list string -> list string)
             (T : table) (D : list pphase)
    : list (string * stage (ast * list sstmt) * (list (string * dres) * list (string * okind))) :=
    let phases := sort_by ph_name D in                                  (* sorted(dag.phases.keys()) *)
    let fronts := map (fun ph => (ph_name ph, f_front (ord1 (ph_name ph)) ph)) phases in
    let tbl := last_use_all ord2 (map (fun x => (fst x, front_leaves (snd x))) fronts) [] in
    map (fun x => (fst x, snd x, f_back (ord3 (fst x)) T tbl (fst x) (front_leaves (snd x)))) fronts.

  (* ---- Python: the phase functions in emission order and the phase transition table ---- *)
  Definition py_order (sorted_shape : bool) (D : list pphase) : list pphase :=
    if sorted_shape then sort_by ph_name D else D.

  Definition pipeline_py (D : list pphase)
    : list (string * lres ast) * list (string * string) :=
    (map (fun ph => (ph_name ph, lower rev_expand guard_empty skip_false (ph_stmts ph)))
         (py_order py_phases_sorted D),
     map (fun ph => (ph_name ph, ph_next ph)) (py_order py_table_sorted D)).
End Pipeline.

(* ------------------------------------------------------------------ same description *)

(* two stored forms of one method description: the phase dict filled in another order, every
   phase's statements held in another order, every dependency set iterating in another order *)
(* the same statement whose depends_on frozenset iterates in another order *)
Definition dep_equiv (a b : DagAst.stmt) : Prop :=
  sid a = sid b /\ sguard a = sguard b /\ sloops a = sloops b /\ snop a = snop b /\
  Permutation (sdeps a) (sdeps b).

Definition same_phase (a b : pphase) : Prop :=
  ph_name a = ph_name b /\ ph_next a = ph_next b /\
  exists s, Permutation (ph_stmts a) s /\ Forall2 dep_equiv s (ph_stmts b).

Definition same_description (D D' : list pphase) : Prop :=
  exists D'', Permutation D D'' /\ Forall2 same_phase D'' D'.

Definition wf_description (D : list pphase) : Prop :=
  NoDup (map ph_name D) /\ Forall (fun ph => NoDup (map sid (ph_stmts ph))) D.

(* an iteration-order oracle only ever reorders *)
Definition reorders (ord : string -> string -> list string -> list string) : Prop :=
  forall p i l, Permutation (ord p i l) l.

(* ------------------------------------------------------------------ the property, for the model

   For the five shape switches of GenC15.v: everything the two generators compute before they
   write text is the same for two stored forms of one method description -- for all phases and
   statements, all iteration orders of all sets involved (ord1..ord3), all name generators (G, gen,
   ginit), all expression-level passes (mid), all statement views (info), kind tables that agree
   as dicts (T, T'), all shapes of the C05/C06 switches -- and the default index variables of an
   ArrayType do not depend on what was constructed before in the process. *)
Definition full_statement (selfdep_sorted deinit_sorted py_phases_sorted py_table_sorted
                           index_from_counter : bool) : Prop :=
  (forall rev_expand guard_empty skip_false exit_all (G : Type) (gen : G -> string -> string * G)
          (ginit : list string -> G) (mid : list sstmt -> list sstmt)
          (info : string -> nat -> sstmt) (is_state : string -> bool)
          D D' ord1 ord1' ord2 ord2' ord3 ord3' T T',
     wf_description D -> same_description D D' ->
     reorders ord1 -> reorders ord1' -> reorders ord2 -> reorders ord2' ->
     reorders ord3 -> reorders ord3' ->
     NoDup (map fst T) -> NoDup (map fst T') -> table_equiv T T' ->
     pipeline_f rev_expand guard_empty skip_false selfdep_sorted deinit_sorted exit_all
                G gen ginit mid info is_state ord1 ord2 ord3 T D =
     pipeline_f rev_expand guard_empty skip_false selfdep_sorted deinit_sorted exit_all
                G gen ginit mid info is_state ord1' ord2' ord3' T' D') /\
  (forall rev_expand guard_empty skip_false D D',
     wf_description D -> same_description D D' ->
     pipeline_py rev_expand guard_empty skip_false py_phases_sorted py_table_sorted D =
     pipeline_py rev_expand guard_empty skip_false py_phases_sorted py_table_sorted D') /\
  (forall h h' n e,
     fst (index_vars index_from_counter h n e) = fst (index_vars index_from_counter h' n e)).

(* ------------------------------------------------------------------ iteration orders used by
   the correspondence check: harness/c15.py hands the real code set objects that iterate in the
   order `policy rev k sid s` (sorted, optionally reversed, rotated by k + len(sid)) *)

Definition rot {A} (k : nat) (l : list A) : list A :=
  match l with
  | [] => []
  | _ => let r := k mod List.length l in skipn r l ++ firstn r l
  end.

Definition policy (rev : bool) (k : nat) (sid : string) (s : list string) : list string :=
  rot (k + String.length sid) (if rev then List.rev (ssort s) else ssort s).

(* ------------------------------------------------------------------ decidable comparisons
   used by the correspondence check (harness/c15.py) *)

Fixpoint list_eqb {A} (eqb : A -> A -> bool) (a b : list A) : bool :=
  match a, b with
  | [], [] => true
  | x :: a', y :: b' => eqb x y && list_eqb eqb a' b'
  | _, _ => false
  end.

(* frozenset-valued fields are compared as sets *)
Definition set_eqb (a b : list string) : bool := list_eqb String.eqb (ssort a) (ssort b).

Definition sstmt_eqb (a b : sstmt) : bool :=
  String.eqb (s_id a) (s_id b) && set_eqb (s_reads a) (s_reads b)
  && set_eqb (s_writes a) (s_writes b) && set_eqb (s_deps a) (s_deps b).

Definition call_eqb (a b : string * okind) : bool :=
  String.eqb (fst a) (fst b) && okind_eqb (snd a) (snd b).

Definition dres_eqb (a b : dres) : bool :=
  match a, b with
  | DOk x, DOk y => list_eqb call_eqb x y
  | DKeyError v, DKeyError w => String.eqb v w
  | _, _ => false
  end.

(* a dict read back as its items(): same keys and values, insertion order not compared *)
Definition ltable_sub (a b : ltable) : bool :=
  forallb (fun e => match lget b (fst e) with Some v => String.eqb v (snd e) | None => false end) a.
Definition ltable_eqb (a b : ltable) : bool := ltable_sub a b && ltable_sub b a.
