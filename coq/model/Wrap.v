(* Model of dagrt/codegen/utils.py wrap_line_base, the two continuation
   padders (dagrt/codegen/python.py pad_python, dagrt/codegen/fortran.py
   pad_fortran) and of the tokenizer they use, Python's
   shlex.split(line, posix=False).  Definitions only (no proofs).  See
   DESIGN.md C20 / design/C20.md.

   Strings are lists of 8-bit characters (ASCII inputs only; Python's len()
   counts code points, so the restriction matters only outside ASCII). *)
From Coq Require Import List String Ascii ZArith Bool.
Import ListNotations.
Open Scope Z_scope.

Definition str := list ascii.

Definition Str (s : string) : str := list_ascii_of_string s.

(* characters by code, for inputs that cannot be written as Coq literals *)
Definition codes (l : list nat) : str := map ascii_of_nat l.

Fixpoint str_eqb (a b : str) : bool :=
  match a, b with
  | [], [] => true
  | x :: a', y :: b' => Ascii.eqb x y && str_eqb a' b'
  | _, _ => false
  end.

Fixpoint strs_eqb (a b : list str) : bool :=
  match a, b with
  | [], [] => true
  | x :: a', y :: b' => str_eqb x y && strs_eqb a' b'
  | _, _ => false
  end.

Definition slen (s : str) : Z := Z.of_nat (List.length s).

(* ------------------------------------------------------------------ *)
(* shlex.split(s, posix=False): shlex(s, posix=False) with
   whitespace_split = True and commenters = ''.  punctuation_chars = ''.
   whitespace = space, tab, CR, LF; quotes = single and double quote.  The escape character plays no
   role outside POSIX mode.                                              *)

Definition sp : ascii := " "%char.
Definition is_ws (c : ascii) : bool :=
  Ascii.eqb c " " || Ascii.eqb c "009" || Ascii.eqb c "013" || Ascii.eqb c "010".
Definition is_quote (c : ascii) : bool :=
  Ascii.eqb c "'" || Ascii.eqb c """".

Inductive lexres :=
| LexOk (ts : list str)
| LexValueError.            (* ValueError("No closing quotation") *)

Definition cons_tok (t : str) (r : lexres) : lexres :=
  match r with LexOk ts => LexOk (t :: ts) | LexValueError => LexValueError end.

(* shlex.state: ' ' (between tokens), 'a' (in a word), or the quote
   character of the quoted region being read.  self.token is kept reversed. *)
Inductive lstate := SSpace | SWord | SQuote (q : ascii).

(* One call of the loop below per character read; a token is emitted where
   read_token breaks.  At end of input: state ' ' -> state None and the
   empty token (= eof, iteration stops); state 'a' -> the pending token is
   returned and the next read_token returns eof; quote state -> ValueError. *)
Fixpoint lex_go (st : lstate) (tok : str) (s : str) : lexres :=
  match s with
  | [] => match st with
          | SSpace => LexOk []
          | SWord => LexOk [rev tok]
          | SQuote _ => LexValueError
          end
  | c :: r =>
      match st with
      | SSpace =>
          if is_ws c then lex_go SSpace [] r               (* token is empty: continue *)
          else if is_quote c then lex_go (SQuote c) [c] r  (* not posix: the quote is kept *)
          else lex_go SWord [c] r                          (* wordchars or whitespace_split *)
      | SWord =>
          if is_ws c then cons_tok (rev tok) (lex_go SSpace [] r)
          else lex_go SWord (c :: tok) r                   (* quotes are ordinary inside a word *)
      | SQuote q =>
          if Ascii.eqb c q then cons_tok (rev (c :: tok)) (lex_go SSpace [] r)
          else lex_go (SQuote q) (c :: tok) r
      end
  end.

Definition shlex_split (s : str) : lexres := lex_go SSpace [] s.

(* ------------------------------------------------------------------ *)
(* The repaired tokenizer (fixes/C20_*.patch): split at whitespace outside
   string literals; a quote opens a literal anywhere in a token, the literal
   ends at the same quote character and the token goes on; with
   [esc] = true a backslash inside a literal protects the next character
   (Python); a doubled quote (Fortran) needs no special case because the
   token goes on after the closing quote.                                  *)
Definition is_bs (c : ascii) : bool := Ascii.eqb c "\".

Inductive qstate := QOut | QIn (q : ascii) | QEsc (q : ascii).

Fixpoint qlex_go (esc : bool) (st : qstate) (tok : str) (s : str) : lexres :=
  match s with
  | [] => match st with
          | QOut => match tok with [] => LexOk [] | _ => LexOk [rev tok] end
          | _ => LexValueError
          end
  | c :: r =>
      match st with
      | QOut =>
          if is_ws c then
            match tok with
            | [] => qlex_go esc QOut [] r
            | _ => cons_tok (rev tok) (qlex_go esc QOut [] r)
            end
          else if is_quote c then qlex_go esc (QIn c) (c :: tok) r
          else qlex_go esc QOut (c :: tok) r
      | QIn q =>
          if esc && is_bs c then qlex_go esc (QEsc q) (c :: tok) r
          else if Ascii.eqb c q then qlex_go esc QOut (c :: tok) r
          else qlex_go esc (QIn q) (c :: tok) r
      | QEsc q => qlex_go esc (QIn q) (c :: tok) r
      end
  end.

Definition quoted_split (esc : bool) (s : str) : lexres := qlex_go esc QOut [] s.

(* which tokenizer a wrap_line partial uses (shape switch from GenC20.v) *)
Inductive lexkind := LexShlex | LexQuoted (esc : bool).

Definition lex_of (k : lexkind) : str -> lexres :=
  match k with LexShlex => shlex_split | LexQuoted e => quoted_split e end.

(* ------------------------------------------------------------------ *)
(* pad_python / pad_fortran:
     line += SPACE * (width - 1 - len(line)); line += marker
   (SPACE * n is the empty string for n <= 0)                           *)
Definition spaces (n : Z) : str := repeat sp (Z.to_nat n).

Definition pad_with (marker : ascii) (line : str) (width : Z) : str :=
  line ++ spaces (width - 1 - slen line) ++ [marker].

Definition pad_none (line : str) (width : Z) : str := line.   (* default pad_func *)

(* ------------------------------------------------------------------ *)
(* wrap_line_base.  The loop state is (resulting_lines, at_line_start,
   current_line); resulting_lines is kept reversed.                      *)
Record wstate := mkW { w_lines : list str; w_start : bool; w_cur : str }.

Definition is_nil {A} (l : list A) : bool := match l with [] => true | _ => false end.

Section wrap.
  Variable pad : str -> Z -> str.
  Variable indentation : str.
  Variable indentation_len : Z.     (* len(level * indentation) *)
  Variable width : Z.

  Definition padding_width : Z := width - indentation_len.

  Definition wrap_step (st : wstate) (word : str) (has_next_word : bool) : wstate :=
    let st1 :=
      if w_start st then st
      else
        let next_len := indentation_len + slen (w_cur st) + 1 + slen word in
        if (next_len <? width) || (negb has_next_word && (next_len =? width))
        then mkW (w_lines st) false (w_cur st ++ sp :: word)
        else mkW (pad (w_cur st) padding_width :: w_lines st) true indentation in
    if w_start st1 then mkW (w_lines st1) false (w_cur st1 ++ word) else st1.

  Fixpoint wrap_loop (st : wstate) (tokens : list str) : wstate :=
    match tokens with
    | [] => st
    | word :: rest => wrap_loop (wrap_step st word (negb (is_nil rest))) rest
    end.
End wrap.

Definition times {A} (n : nat) (l : list A) : list A := List.concat (repeat l n).

Definition wrap_tokens (pad : str -> Z -> str) (indentation : str) (level : nat)
           (width : Z) (tokens : list str) : list str :=
  let ilen := slen (times level indentation) in
  let st := wrap_loop pad indentation ilen width (mkW [] true []) tokens in
  rev (w_lines st) ++ [w_cur st].

Inductive wrapres :=
| WrapOk (lines : list str)
| WrapValueError.

Definition wrap_line_base (lexf : str -> lexres) (pad : str -> Z -> str)
           (line : str) (level : nat) (width : Z) (indentation : str) : wrapres :=
  match lexf line with
  | LexOk tokens => WrapOk (wrap_tokens pad indentation level width tokens)
  | LexValueError => WrapValueError
  end.

(* ------------------------------------------------------------------ *)
(* Reading the output back: continuation markers removed (the last
   character of every line but the last), physical lines joined the way a
   backslash-newline / free-form `&` continuation joins them.              *)
Fixpoint unmark (lines : list str) : list str :=
  match lines with
  | [] => []
  | [l] => [l]
  | l :: r => removelast l :: unmark r
  end.

Definition joined (lines : list str) : str := List.concat (unmark lines).

(* SPACE.join(tokens) *)
Definition join_sp (g : list str) : str :=
  match g with [] => [] | w :: r => w ++ List.concat (map (cons sp) r) end.

(* ------------------------------------------------------------------ *)
(* Target-language reading of a line, used only to STATE the part of the
   property that the token-level theorems do not cover.  A quote opens a
   string literal anywhere; [esc]: a backslash protects the next character
   inside a literal (Python); [dbl]: a doubled quote inside a literal is
   one literal character (Fortran).  Whitespace outside literals is
   dropped, every other character outside a literal is an item, a literal
   is one item.  (No comments, no triple quotes, no backslash outside
   literals: the generators do not emit them on wrapped lines.)           *)
Inductive item := Sym (c : ascii) | Lit (q : ascii) (body : str).

Inductive scanres := ScanOk (l : list item) | ScanUnterminated.

Definition cons_item (i : item) (r : scanres) : scanres :=
  match r with ScanOk l => ScanOk (i :: l) | ScanUnterminated => ScanUnterminated end.

(* TClosed: the quote that may end the literal has been read; with [dbl] a
   second one right behind it continues the literal. *)
Inductive tstate :=
| TOut
| TIn (q : ascii) (body : str)
| TEsc (q : ascii) (body : str)
| TClosed (q : ascii) (body : str).

Fixpoint tscan_go (esc dbl : bool) (st : tstate) (s : str) : scanres :=
  match s with
  | [] => match st with
          | TOut => ScanOk []
          | TClosed q body => ScanOk [Lit q (rev body)]
          | _ => ScanUnterminated
          end
  | c :: r =>
      match st with
      | TOut =>
          if is_ws c then tscan_go esc dbl TOut r
          else if is_quote c then tscan_go esc dbl (TIn c []) r
          else cons_item (Sym c) (tscan_go esc dbl TOut r)
      | TIn q body =>
          if esc && is_bs c then tscan_go esc dbl (TEsc q (c :: body)) r
          else if Ascii.eqb c q then tscan_go esc dbl (TClosed q body) r
          else tscan_go esc dbl (TIn q (c :: body)) r
      | TEsc q body => tscan_go esc dbl (TIn q (c :: body)) r
      | TClosed q body =>
          if dbl && Ascii.eqb c q then tscan_go esc dbl (TIn q (c :: body)) r
          else cons_item (Lit q (rev body))
                 (if is_ws c then tscan_go esc dbl TOut r
                  else if is_quote c then tscan_go esc dbl (TIn c []) r
                  else cons_item (Sym c) (tscan_go esc dbl TOut r))
      end
  end.

Definition tscan (esc dbl : bool) (s : str) : scanres := tscan_go esc dbl TOut s.

