(* Model of dagrt/data.py: symbol kinds and `unify` (lines 232-280).
   Definitions only.  Mirrors the Python branch by branch, including the
   asserts and raises; see DESIGN.md C14 and design/C14.md.

   Shape switches (from coq/gen/GenC14.v):
     ut_int  : the assert in the UserType branch also accepts Integer
               (`assert isinstance(kind_b, (UserType, Scalar, Integer))`)
     arr_int : the Array branch accepts Integer and returns kind_a for it.
   On the unpatched tree both are false. *)
From Coq Require Import List String Bool.
Import ListNotations.

Inductive kind :=
| KBool                      (* Boolean() *)
| KInt                       (* Integer() *)
| KScalar (is_real : bool)   (* Scalar(is_real_valued) *)
| KArray (is_real : bool)    (* Array(is_real_valued) *)
| KUser (id : string).       (* UserType(identifier) *)

(* Python's None is a legal "kind" argument/result of unify. *)
Definition okind := option kind.

(* SymbolKind.__eq__: same class and same init args. *)
Definition kind_eqb (a b : kind) : bool :=
  match a, b with
  | KBool, KBool => true
  | KInt, KInt => true
  | KScalar r, KScalar s => Bool.eqb r s
  | KArray r, KArray s => Bool.eqb r s
  | KUser i, KUser j => String.eqb i j
  | _, _ => false
  end.

Definition okind_eqb (a b : okind) : bool :=
  match a, b with
  | None, None => true
  | Some x, Some y => kind_eqb x y
  | _, _ => false
  end.

(* Exception classes that can leave the modelled code. *)
Inductive err :=
| ValueError            (* arithmetic with flags / mismatched user types *)
| AssertionError        (* the asserts in unify; the "not supposed to get here" in the finder *)
| TypeError             (* `raise last_exc` with last_exc = None in map_sum *)
| RuntimeError          (* "failed to infer kinds" *)
| UnableToInferKind     (* escaping from the final consistency loop *)
| FunctionNotFound.     (* function_registry[function_id] in map_generic_call (a KeyError) *)

Definition err_eqb (a b : err) : bool :=
  match a, b with
  | ValueError, ValueError | AssertionError, AssertionError | TypeError, TypeError
  | RuntimeError, RuntimeError | UnableToInferKind, UnableToInferKind
  | FunctionNotFound, FunctionNotFound => true
  | _, _ => false
  end.

Inductive res (A : Type) :=
| Ok (a : A)
| Err (e : err).
Arguments Ok {A} a.
Arguments Err {A} e.

(* `not (not a.is_real_valued or not b.is_real_valued)` *)
Definition both_real (a b : bool) : bool := negb (negb a || negb b).

Definition unify (ut_int arr_int : bool) (kind_a kind_b : okind) : res okind :=
  match kind_a, kind_b with
  | None, _ => Ok kind_b                               (* if kind_a is None: return kind_b *)
  | _, None => Ok kind_a                               (* if kind_b is None: return kind_a *)
  | Some a, Some b =>
    match a, b with
    | KBool, _ => Err ValueError                       (* isinstance(kind_a, Boolean) *)
    | _, KBool => Err ValueError                       (* isinstance(kind_b, Boolean) *)
    | KUser ia, _ =>                                   (* isinstance(kind_a, UserType) *)
        match b with
        | KUser ib => if String.eqb ia ib then Ok kind_a else Err ValueError
        | KScalar _ => Ok kind_a
        | KInt => if ut_int then Ok kind_a else Err AssertionError
        | _ => Err AssertionError                      (* Array *)
        end
    | KArray ra, _ =>                                  (* isinstance(kind_a, Array) *)
        match b with
        | KArray rb => Ok (Some (KArray (both_real ra rb)))
        | KScalar rb => Ok (Some (KArray (both_real ra rb)))
        | KInt => if arr_int then Ok kind_a else Err AssertionError
        | _ => Err AssertionError                      (* UserType *)
        end
    | KScalar ra, _ =>                                 (* isinstance(kind_a, Scalar) *)
        match b with
        | KUser _ => Ok kind_b
        | KArray rb => Ok (Some (KArray (both_real ra rb)))
        | KInt => Ok kind_a
        | KScalar rb => Ok (Some (KScalar (both_real ra rb)))
        | KBool => Err ValueError                      (* unreachable: handled above *)
        end
    | KInt, _ =>                                       (* isinstance(kind_a, Integer) *)
        match b with
        | KUser _ | KScalar _ | KArray _ => Ok kind_b
        | KInt => Ok (Some KInt)
        | KBool => Err ValueError                      (* unreachable: handled above *)
        end
    end
  end.

(* "both fail, or both succeed with equal results" -- the relation written ≃ in DESIGN C14 *)
Definition res_sim (x y : res okind) : Prop :=
  match x, y with
  | Ok a, Ok b => a = b
  | Err _, Err _ => True
  | _, _ => False
  end.

Definition res_simb (x y : res okind) : bool :=
  match x, y with
  | Ok a, Ok b => okind_eqb a b
  | Err _, Err _ => true
  | _, _ => false
  end.

Definition bind (x : res okind) (f : okind -> res okind) : res okind :=
  match x with Ok a => f a | Err e => Err e end.

(* exact comparison incl. the exception class -- used by the correspondence check *)
Definition res_eqb (x y : res okind) : bool :=
  match x, y with
  | Ok a, Ok b => okind_eqb a b
  | Err e, Err f => err_eqb e f
  | _, _ => false
  end.
