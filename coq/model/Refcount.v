(* C12 -- model of the reference-counted user-type storage protocol that
   dagrt/codegen/fortran.py emits (definitions only, no proofs).

   Two halves:

   * the GENERATOR  (emit_mem : prog -> module) mirrors the decisions of
     CodeGenerator: which statements get an allocation check or a move
     (emit_assign_expr / emit_inst_AssignFunctionCall / emit_inst_YieldState),
     where dagrt_deinit_<T> is called (emit_deinit_for_last_usage_of_vars with the
     table of analysis.var_to_last_dependent_statement_mapping; the loop after
     label 999 in lower_function), the nullify of every local at function entry,
     initialize and shutdown;
   * the MACHINE  (run_mem) gives the emitted operations the meaning of the
     Fortran text of dagrt_alloc_check_<T> / dagrt_deinit_<T> /
     emit_user_type_move over an abstract heap  block -> option refcount,
     under a guard valuation per call of `run`, with early exits (goto 999).

   Two recognisable source shapes are parameters (set from /repo by harness/tr/c12.py):
     sw_exit_all  = true  <->  label 999 deinitialises EVERY local of the phase
                    false <->  only locals that no statement mentions      (unchanged tree)
     sw_loop_skip = true  <->  no last-use deinit is emitted inside a ForLoop body
                    false <->  emitted wherever the last mentioning statement is (unchanged tree)
     sw_stmt_cond = true  <->  lower_inst wraps a statement that carries its own condition (the
                               statements expand_IfThenElse makes from `a if c else b`) in
                               `if (condition)`: its memory operations, the last-use release
                               included, sit inside that `if`
                    false <->  lower_inst ignores statement.condition (trees before 9d87c11)

   Guard flags: a flag is assigned from a comparison of <t>, <dt> and the counters of the loops
   around the assignment, so its value at a point of one call of `run` is a function of the trip
   indices of the loops around that point: a valuation is  list nat -> nat -> bool  (trip
   indices, innermost loop first -> flag -> value).
*)
From Coq Require Import List Arith Bool.
Import ListNotations.

Definition var := nat.
Definition block := nat.

(* ------------------------------------------------------------------ guards *)
Inductive gcond :=
| GTrue | GFalse
| GNot (c : gcond)
| GAnd (a b : gcond)      (* nested if_ blocks of the CodeBuilder: LogicalAnd of the flags *)
| GAtom (n : nat).

Fixpoint evalg (v : nat -> bool) (c : gcond) : bool :=
  match c with
  | GTrue => true | GFalse => false
  | GNot c => negb (evalg v c)
  | GAnd a b => evalg v a && evalg v b
  | GAtom n => v n
  end.

(* ------------------------------------------------------------------ source side:
   the structured tree handed to lower_function, restricted to what matters
   for user-type storage.  Variables are the user-type symbols only. *)
Inductive exitk :=
| XFail                  (* FailStep:     goto 999 *)
| XSwitch (p : nat)      (* SwitchPhase:  next_phase = p; goto 999 *)
| XRaise.                (* Raise:        stop *)

Inductive skind :=
| KMove (d s : var)      (* user-type  d <- s  with s a plain variable: emit_user_type_move *)
| KAlloc (ds : list var) (* allocation check of every user-type assignee, then the write
                            (Assign of a non-variable expression, AssignFunctionCall,
                             YieldState of a non-variable expression; [] = nothing user-typed assigned) *)
| KExit (e : exitk).

Record stmt := mkStmt {
  sid : nat;               (* statement id *)
  scond : option gcond;    (* statement.condition: None <-> `condition is True`; Some c for the
                              statements that expand_IfThenElse makes from `a if c else b` *)
  kind : skind;
  reads : list var;        (* user-type variables whose storage the statement reads *)
  mentions : list var;     (* get_read_variables() | get_written_variables(), user-type ones,
                              in the iteration order of that set *)
  lastuse : bool           (* emit_inst_<T> ends with emit_deinit_for_last_usage_of_vars
                              (Assign, AssignFunctionCall: true; YieldState, FailStep, ...: false) *)
}.

Inductive node :=
| NStmt (s : stmt)
| NBlock (l : list node)
| NIfT (c : gcond) (t : node)
| NIfTE (c : gcond) (t e : node)
| NFor (trips : nat) (b : node).   (* constant bounds: the trip count is part of the program *)

Record phase := mkPhase {
  ph_id : nat; ph_next : nat;
  ph_locals : list var;      (* user-type symbols of per_phase_table[phase], sorted as the code sorts them *)
  ph_body : node }.

Record prog := mkProg {
  globals : list var;        (* user-type symbols of global_table, sorted *)
  initable : list var;       (* those not starting with "<ret": optional arguments of initialize *)
  first_phase : nat;
  phases : list phase }.

(* get_statements_in_ast *)
Fixpoint stmts_of (n : node) : list stmt :=
  match n with
  | NStmt s => [s]
  | NBlock l => flat_map stmts_of l
  | NIfT _ t => stmts_of t
  | NIfTE _ t e => stmts_of t ++ stmts_of e
  | NFor _ b => stmts_of b
  end.

Definition memv (x : var) (l : list var) : bool := existsb (Nat.eqb x) l.

(* var_to_last_dependent_statement_mapping: tbl[variable] = statement.id, later statements overwrite *)
Fixpoint last_tbl (l : list stmt) (x : var) : option nat :=
  match l with
  | [] => None
  | s :: r => match last_tbl r x with
              | Some i => Some i
              | None => if memv x (mentions s) then Some (sid s) else None
              end
  end.

(* ------------------------------------------------------------------ emitted operations *)
Inductive op :=
| OAllocCheck (x : var)   (* call dagrt_alloc_check_T(x, refcnt_x), followed by the write to x *)
| ODeinit (x : var)       (* call dagrt_deinit_T(x, refcnt_x) *)
| OMove (d s : var)       (* deinit d; d => s; refcnt_d => refcnt_s; refcnt_d = refcnt_d + 1 *)
| OUse (x : var)          (* the target of x is read *)
| OSetNext (p : nat)      (* dagrt_state%dagrt_next_phase = p *)
| OGoto                   (* goto 999 *)
| OStop                   (* stop *)
| OMark (b : bool).       (* "! {{{ stmt" / "! }}}" comment lines of lower_inst (trace only) *)

Inductive code :=
| COp (o : op)
| CBlock (l : list code)
| CIf (c : gcond) (t e : code)
| CFor (n : nat) (b : code).

Record func := mkFunc {
  f_id : nat; f_next : nat;
  f_locals : list var;      (* nullified at entry *)
  f_body : code;
  f_exit : list var }.      (* deinitialised after label 999 *)

Record module := mkModule {
  m_globals : list var;
  m_initable : list var;
  m_first : nat;
  m_funcs : list func }.

Section Emit.
  Variable sw_exit_all sw_loop_skip sw_stmt_cond : bool.
  Variable globs : list var.            (* is_state_variable *)
  Variable tbl : var -> option nat.     (* last_used_stmt_table of the current function *)

  Definition last_here (s : stmt) (x : var) : bool :=
    match tbl x with Some i => Nat.eqb (sid s) i | None => false end.

  (* emit_deinit_for_last_usage_of_vars *)
  Definition lastuse_deinits (inloop : bool) (s : stmt) : list op :=
    if lastuse s && negb (sw_loop_skip && inloop)
    then map ODeinit (filter (fun x => last_here s x && negb (memv x globs)) (mentions s))
    else [].

  Definition stmt_core (s : stmt) : list op :=
    match kind s with
    | KMove d src => [OMove d src]
    | KAlloc ds => map OAllocCheck ds ++ map OUse (reads s)
    | KExit XFail => [OGoto]
    | KExit (XSwitch p) => [OSetNext p; OGoto]
    | KExit XRaise => [OStop]
    end.

  (* what emit_inst_<T> emits: the statement proper, then emit_deinit_for_last_usage_of_vars *)
  Definition stmt_ops (inloop : bool) (s : stmt) : list op :=
    stmt_core s ++ lastuse_deinits inloop s.

  (* lower_inst: "! {{{", [if (condition) then] emit_inst_<T> [end if], "! }}}" *)
  Definition emit_stmt (inloop : bool) (s : stmt) : code :=
    CBlock [COp (OMark true);
            match (if sw_stmt_cond then scond s else None) with
            | None => CBlock (map COp (stmt_ops inloop s))
            | Some c => CIf c (CBlock (map COp (stmt_ops inloop s))) (CBlock [])
            end;
            COp (OMark false)].

  Fixpoint emit_node (inloop : bool) (n : node) : code :=
    match n with
    | NStmt s => emit_stmt inloop s
    | NBlock l => CBlock (map (emit_node inloop) l)
    | NIfT c t => CIf c (emit_node inloop t) (CBlock [])
    | NIfTE c t e => CIf c (emit_node inloop t) (emit_node inloop e)
    | NFor k b => CFor k (emit_node true b)
    end.
End Emit.

(* lower_function *)
Definition emit_phase (sw_exit_all sw_loop_skip sw_stmt_cond : bool) (globs : list var) (ph : phase)
  : func :=
  let tbl := last_tbl (stmts_of (ph_body ph)) in
  mkFunc (ph_id ph) (ph_next ph) (ph_locals ph)
         (emit_node sw_loop_skip sw_stmt_cond globs tbl false (ph_body ph))
         (if sw_exit_all then ph_locals ph
          else filter (fun x => match tbl x with None => true | Some _ => false end) (ph_locals ph)).

Definition emit_mem (sw_exit_all sw_loop_skip sw_stmt_cond : bool) (p : prog) : module :=
  mkModule (globals p) (initable p) (first_phase p)
           (map (emit_phase sw_exit_all sw_loop_skip sw_stmt_cond (globals p)) (phases p)).

(* ------------------------------------------------------------------ the machine *)
(* dynamic memory-operation trace, one event per executed Fortran line that the
   harness instruments *)
Inductive tev :=
| TNullifyVar (x : var)        (* nullify(x) at function entry / in initialize *)
| TCallAllocCheck (x : var)
| TCallDeinit (x : var)
| TAllocData | TAllocRc | TSet1 (* inside dagrt_alloc_check_T *)
| TDec                          (* refcount = refcount - 1 *)
| TFreeData | TNullify | TFreeRc (* inside dagrt_deinit_T *)
| TAssoc (d s : var) | TAssocRc (d s : var) | TInc (d : var)   (* emit_user_type_move *)
| TInitAllocData (x : var) | TInitAllocRc (x : var) | TInitSet1 (x : var)  (* initialize *)
| TGoto | TLabel
| TMark (b : bool).

Inductive fault :=
| UseNull (x : var)        (* the generated code dereferences an unassociated pointer of a variable
                              that the source program HAS assigned on this path *)
| UseFreed (x : var)       (* pointer into released storage (also: double free) *)
| RefcountZero (x : var)   (* a live counter that is not positive *)
| SrcUndefined (x : var)   (* the SOURCE program reads a variable it never assigned on this path *)
| Impossible.              (* marks branches of the totalised definitions that no run reaches *)

Record mstate := mkSt {
  vars : var -> option block;     (* None = nullified / unassociated *)
  cnt : block -> option nat;      (* reference count; None = released or never allocated *)
  nxt : block;                    (* blocks are named by allocation order *)
  defd : var -> bool;             (* ghost: assigned by the source program (this call, or persistent) *)
  nph : nat;                      (* dagrt_next_phase *)
  frees : list block;             (* ghost: log of released blocks, latest first *)
  tr : list tev }.                (* trace, latest first *)

Definition upd {A} (f : nat -> A) (x : nat) (a : A) : nat -> A :=
  fun y => if Nat.eqb y x then a else f y.

Definition set_vars st f := mkSt f (cnt st) (nxt st) (defd st) (nph st) (frees st) (tr st).
Definition set_defd st f := mkSt (vars st) (cnt st) (nxt st) f (nph st) (frees st) (tr st).
Definition set_nph st p := mkSt (vars st) (cnt st) (nxt st) (defd st) p (frees st) (tr st).
Definition ev st (l : list tev) := mkSt (vars st) (cnt st) (nxt st) (defd st) (nph st) (frees st) (rev l ++ tr st).

Inductive outcome :=
| ONormal (st : mstate)
| OExit (st : mstate)            (* goto 999 taken *)
| OStopped (st : mstate)         (* stop *)
| OFault (f : fault) (st : mstate).

(* allocate(x); allocate(refcnt_x); refcnt_x = 1 *)
Definition fresh (x : var) (st : mstate) : mstate :=
  mkSt (upd (vars st) x (Some (nxt st))) (upd (cnt st) (nxt st) (Some 1)) (S (nxt st))
       (defd st) (nph st) (frees st) (tr st).

(* dagrt_alloc_check_T, then the write *)
Definition alloc_check (x : var) (st : mstate) : outcome :=
  let st := ev st [TCallAllocCheck x] in
  let st := set_defd st (upd (defd st) x true) in
  match vars st x with
  | None => ONormal (ev (fresh x st) [TAllocData; TAllocRc; TSet1])
  | Some b =>
      match cnt st b with
      | None => OFault (UseFreed x) st
      | Some 0 => OFault (RefcountZero x) st
      | Some 1 => ONormal st
      | Some (S n) =>
          let st := mkSt (vars st) (upd (cnt st) b (Some n)) (nxt st) (defd st) (nph st) (frees st) (tr st) in
          ONormal (ev (fresh x (ev st [TDec])) [TAllocData; TAllocRc; TSet1])
      end
  end.

(* dagrt_deinit_T *)
Definition deinit (x : var) (st : mstate) : outcome :=
  let st := ev st [TCallDeinit x] in
  match vars st x with
  | None => ONormal st
  | Some b =>
      match cnt st b with
      | None => OFault (UseFreed x) st
      | Some 0 => OFault (RefcountZero x) st
      | Some 1 =>
          ONormal (ev (mkSt (upd (vars st) x None) (upd (cnt st) b None) (nxt st) (defd st) (nph st)
                            (b :: frees st) (tr st))
                      [TFreeData; TNullify; TFreeRc])
      | Some (S n) =>
          ONormal (ev (mkSt (upd (vars st) x None) (upd (cnt st) b (Some n)) (nxt st) (defd st) (nph st)
                            (frees st) (tr st))
                      [TNullify; TDec])
      end
  end.

(* the target of x is read *)
Definition use (x : var) (st : mstate) : outcome :=
  if defd st x then
    match vars st x with
    | None => OFault (UseNull x) st
    | Some b => match cnt st b with
                | None => OFault (UseFreed x) st
                | Some _ => ONormal st
                end
    end
  else OFault (SrcUndefined x) st.

(* emit_user_type_move *)
Definition move (d s : var) (st : mstate) : outcome :=
  if defd st s then
    match deinit d st with
    | ONormal st =>
        match vars st s with
        | None => OFault (UseNull s) st
        | Some b =>
            match cnt st b with
            | None => OFault (UseFreed s) st
            | Some n =>
                ONormal (ev (mkSt (upd (vars st) d (Some b)) (upd (cnt st) b (Some (S n))) (nxt st)
                                  (upd (defd st) d true) (nph st) (frees st) (tr st))
                            [TAssoc d s; TAssocRc d s; TInc d])
            end
        end
    | o => o
    end
  else OFault (SrcUndefined s) st.

Definition run_op (o : op) (st : mstate) : outcome :=
  match o with
  | OAllocCheck x => alloc_check x st
  | ODeinit x => deinit x st
  | OMove d s => move d s st
  | OUse x => use x st
  | OSetNext p => ONormal (set_nph st p)
  | OGoto => OExit (ev st [TGoto])
  | OStop => OStopped st
  | OMark b => ONormal (ev st [TMark b])
  end.

(* guard valuation of one call of `run`: trip indices (0, 1, ...) of the loops around the current
   point, innermost first -> flag -> value *)
Definition valn := list nat -> nat -> bool.

Section Run.
  Variable v : valn.

  Fixpoint run_code (c : code) (ctx : list nat) (st : mstate) {struct c} : outcome :=
    match c with
    | COp o => run_op o st
    | CBlock l =>
        (fix go (l : list code) (st : mstate) : outcome :=
           match l with
           | [] => ONormal st
           | c :: r => match run_code c ctx st with
                       | ONormal st' => go r st'
                       | o => o
                       end
           end) l st
    | CIf g t e => if evalg (v ctx) g then run_code t ctx st else run_code e ctx st
    | CFor n b =>
        (fix loop (k i : nat) (st : mstate) : outcome :=
           match k with
           | 0 => ONormal st
           | S k' => match run_code b (i :: ctx) st with
                     | ONormal st' => loop k' (S i) st'
                     | o => o
                     end
           end) n 0 st
    end.
End Run.

Fixpoint run_ops (l : list op) (st : mstate) : outcome :=
  match l with
  | [] => ONormal st
  | o :: r => match run_op o st with
              | ONormal st' => run_ops r st'
              | out => out
              end
  end.

(* nullify(x) for every local at function entry: the pointer is overwritten, nothing is released *)
Fixpoint nullify_all (l : list var) (st : mstate) : mstate :=
  match l with
  | [] => st
  | x :: r => nullify_all r (ev (set_defd (set_vars st (upd (vars st) x None)) (upd (defd st) x false))
                                [TNullifyVar x])
  end.

(* one phase function: entry, body, "goto 999 / 999 continue", exit deinits *)
Definition run_func (v : valn) (f : func) (st : mstate) : outcome :=
  let st := nullify_all (f_locals f) st in
  let at_label st := run_ops (map ODeinit (f_exit f)) (ev st [TLabel]) in
  match run_code v (f_body f) [] st with
  | ONormal st => at_label (ev st [TGoto])
  | OExit st => at_label st
  | o => o
  end.

Fixpoint find_func (l : list func) (p : nat) : option func :=
  match l with
  | [] => None
  | f :: r => if Nat.eqb (f_id f) p then Some f else find_func r p
  end.

(* subroutine run: dispatch on next_phase; an unknown phase stops *)
Definition run_step (m : module) (v : valn) (st : mstate) : outcome :=
  match find_func (m_funcs m) (nph st) with
  | None => OStopped st
  | Some f => run_func v f (set_nph st (f_next f))
  end.

Definition st0 : mstate := mkSt (fun _ => None) (fun _ => None) 0 (fun _ => false) 0 [] [].

Fixpoint init_alloc (l : list var) (present : list var) (st : mstate) : mstate :=
  match l with
  | [] => st
  | x :: r =>
      if memv x present
      then init_alloc r present
             (ev (set_defd (fresh x st) (upd (defd st) x true))
                 [TInitAllocData x; TInitAllocRc x; TInitSet1 x])
      else init_alloc r present st
  end.

(* subroutine initialize(present...) *)
Definition init (m : module) (present : list var) : mstate :=
  init_alloc (m_initable m) present (nullify_all (m_globals m) (set_nph st0 (m_first m))).

(* subroutine shutdown: deinit every global, then report the ones still associated *)
Definition shutdown (m : module) (st : mstate) : outcome * list var :=
  match run_ops (map ODeinit (m_globals m)) st with
  | ONormal st' => (ONormal st', filter (fun x => match vars st' x with Some _ => true | None => false end)
                                        (m_globals m))
  | o => (o, [])
  end.

Inductive hresult :=
| HDone (st : mstate) (reports : list var)   (* every call returned; shutdown ran *)
| HStopped (st : mstate)                     (* the program executed `stop` *)
| HFault (f : fault) (st : mstate).

Fixpoint run_steps (m : module) (h : list valn) (st : mstate) : outcome :=
  match h with
  | [] => ONormal st
  | v :: r => match run_step m v st with
              | ONormal st' => run_steps m r st'
              | OExit st' => OFault Impossible st'      (* run_func never returns OExit *)
              | o => o
              end
  end.

(* initialize; one call of run per valuation in h; shutdown *)
Definition run_mem (m : module) (present : list var) (h : list valn) : hresult :=
  match run_steps m h (init m present) with
  | ONormal st =>
      match shutdown m st with
      | (ONormal st', reps) => HDone st' reps
      | (OStopped st', _) => HStopped st'
      | (OFault f st', _) => HFault f st'
      | (OExit st', _) => HFault Impossible st'         (* ODeinit never exits *)
      end
  | OStopped st => HStopped st
  | OFault f st => HFault f st
  | OExit st => HFault Impossible st                    (* see run_steps *)
  end.

Definition final_state (r : hresult) : mstate :=
  match r with HDone st _ => st | HStopped st => st | HFault _ st => st end.

(* blocks still allocated *)
Definition live_blocks (st : mstate) : list block :=
  filter (fun b => match cnt st b with Some _ => true | None => false end) (seq 0 (nxt st)).

(* number of variables of the universe U that point to b *)
Definition points (vs : var -> option block) (b : block) (x : var) : bool :=
  match vs x with Some b' => Nat.eqb b' b | None => false end.
Definition owners (U : list var) (vs : var -> option block) (b : block) : nat :=
  length (filter (points vs b) U).

Definition universe (p : prog) : list var := globals p ++ flat_map ph_locals (phases p).

(* the invariant of the protocol: a live counter equals the number of variables that point to its
   block and is positive; no variable points into released storage; released blocks are never
   handed out again; the log of releases holds every released block exactly once *)
Definition rinv (U : list var) (vs : var -> option block) (c : block -> option nat) (nx : block)
           (fr : list block) : Prop :=
  (forall b n, c b = Some n -> n = owners U vs b /\ 1 <= n) /\
  (forall x b, In x U -> vs x = Some b -> c b <> None) /\
  (forall b, nx <= b -> c b = None) /\
  (forall b, count_occ Nat.eq_dec fr b =
             match c b with Some _ => 0 | None => if Nat.ltb b nx then 1 else 0 end).

Definition refcount_inv (U : list var) (st : mstate) : Prop :=
  rinv U (vars st) (cnt st) (nxt st) (frees st).

(* ------------------------------------------------------------------ well-formed programs
   (decidable; evaluated on every case of the correspondence run) *)
Fixpoint nodupb (l : list nat) : bool :=
  match l with [] => true | x :: r => negb (memv x r) && nodupb r end.

Definition subset (a b : list nat) : bool := forallb (fun x => memv x b) a.

Definition stmt_vars (s : stmt) : list var :=
  match kind s with
  | KMove d src => d :: src :: reads s ++ mentions s
  | KAlloc ds => ds ++ reads s ++ mentions s
  | KExit _ => reads s ++ mentions s
  end.

Definition stmt_wf (scope : list var) (s : stmt) : bool :=
  subset (stmt_vars s) scope &&
  subset (reads s) (mentions s) &&
  match kind s with
  | KMove d src => negb (Nat.eqb d src)      (* SelfDependencyEliminator has run *)
                   && memv src (mentions s)  (* the source of a move is read by the statement *)
  | _ => true
  end.

Definition phase_wf (globs : list var) (ph : phase) : bool :=
  let all := stmts_of (ph_body ph) in
  forallb (stmt_wf (globs ++ ph_locals ph)) all && nodupb (map sid all).

Definition prog_wf (p : prog) : bool :=
  nodupb (universe p) && subset (initable p) (globals p) && nodupb (initable p) &&
  forallb (phase_wf (globals p)) (phases p).

(* ------------------------------------------------------------------ checker used by the correspondence run *)
Definition tev_eqb (a b : tev) : bool :=
  match a, b with
  | TNullifyVar x, TNullifyVar y => Nat.eqb x y
  | TCallAllocCheck x, TCallAllocCheck y => Nat.eqb x y
  | TCallDeinit x, TCallDeinit y => Nat.eqb x y
  | TAllocData, TAllocData | TAllocRc, TAllocRc | TSet1, TSet1 | TDec, TDec
  | TFreeData, TFreeData | TNullify, TNullify | TFreeRc, TFreeRc | TGoto, TGoto | TLabel, TLabel => true
  | TAssoc d s, TAssoc d' s' => Nat.eqb d d' && Nat.eqb s s'
  | TAssocRc d s, TAssocRc d' s' => Nat.eqb d d' && Nat.eqb s s'
  | TInc d, TInc d' => Nat.eqb d d'
  | TInitAllocData x, TInitAllocData y => Nat.eqb x y
  | TInitAllocRc x, TInitAllocRc y => Nat.eqb x y
  | TInitSet1 x, TInitSet1 y => Nat.eqb x y
  | TMark a, TMark b => Bool.eqb a b
  | _, _ => false
  end.

Fixpoint trace_eqb (a b : list tev) : bool :=
  match a, b with
  | [], [] => true
  | x :: a', y :: b' => tev_eqb x y && trace_eqb a' b'
  | _, _ => false
  end.

Definition valuation (trues : list nat) : nat -> bool := fun a => memv a trues.

(* a valuation given as a finite table of (trip indices, flags that hold there); the harness lists
   every point of the program at hand (no flag holds at a point that is not listed) *)
Fixpoint list_eqb (a b : list nat) : bool :=
  match a, b with
  | [], [] => true
  | x :: a', y :: b' => Nat.eqb x y && list_eqb a' b'
  | _, _ => false
  end.

Fixpoint cvaluation (tbl : list (list nat * list nat)) : valn :=
  fun ctx a =>
    match tbl with
    | [] => false
    | (c, trues) :: r => if list_eqb c ctx then memv a trues else cvaluation r ctx a
    end.

(* what the model predicts for a whole history, in the form the harness observes it:
   status (0 = done, 1 = stopped, 2 = fault), trace in execution order, blocks still live, reports *)
Definition observe (r : hresult) : nat * list tev * nat * list var :=
  match r with
  | HDone st reps => (0, rev (tr st), length (live_blocks st), reps)
  | HStopped st => (1, rev (tr st), length (live_blocks st), [])
  | HFault _ st => (2, rev (tr st), length (live_blocks st), [])
  end.
