(* Model of dagrt/expression.py:94-231: _ConstantFindingMapper,
   _ExpressionCollapsingMapper, collapse_constants (constant hoisting), on top of
   pymbolic 2025.1's CombineMapper / IdentityMapper dispatch.
   Definitions only (no proofs) so that the model still evaluates when a proof
   breaks.  Mirrors the Python line by line, bookkeeping defects included; see
   design/C18.md. *)
From Coq Require Import List ZArith String Ascii Bool Arith.
Import ListNotations.
Open Scope string_scope.

(* ---- expressions (the fragment of pymbolic the property quantifies over) ---- *)
Inductive expr :=
| EInt (z : Z)                          (* python int *)
| EVar (x : string)                     (* pymbolic Variable *)
| ESum (l : list expr)                  (* Sum(children) *)
| EProd (l : list expr)                 (* Product(children) *)
| EQuot (a b : expr)                    (* Quotient(numerator, denominator) *)
| EPow (a b : expr)                     (* Power(base, exponent) *)
| ECall (f : string) (args : list expr) (* Call(Variable(f), parameters) *)
| ECallKw (f : string) (args : list expr) (kw : list (string * expr))
                                        (* CallWithKwargs(Variable(f), parameters, kw_parameters):
                                           keyword names and values in the iteration order of the
                                           mapping (insertion order); a class of its own, never
                                           equal to a Call, even with no keyword at all *)
| ENot (a : expr).                      (* LogicalNot(child): stands for the unary nodes whose
                                           CombineMapper method recurses without calling combine
                                           (map_logical_not, map_bitwise_not, map_lookup,
                                           map_common_subexpression) *)

(* identity of terms (order of keyword arguments included): used to compare a model outcome
   with the recorded outcome of the implementation *)
Fixpoint expr_same (a b : expr) {struct a} : bool :=
  match a, b with
  | EInt x, EInt y => Z.eqb x y
  | EVar x, EVar y => String.eqb x y
  | ESum l, ESum m =>
      (fix go (l m : list expr) : bool :=
         match l, m with
         | [], [] => true
         | x :: l', y :: m' => expr_same x y && go l' m'
         | _, _ => false
         end) l m
  | EProd l, EProd m =>
      (fix go (l m : list expr) : bool :=
         match l, m with
         | [], [] => true
         | x :: l', y :: m' => expr_same x y && go l' m'
         | _, _ => false
         end) l m
  | EQuot a1 a2, EQuot b1 b2 => expr_same a1 b1 && expr_same a2 b2
  | EPow a1 a2, EPow b1 b2 => expr_same a1 b1 && expr_same a2 b2
  | ECall f l, ECall g m =>
      String.eqb f g &&
      (fix go (l m : list expr) : bool :=
         match l, m with
         | [], [] => true
         | x :: l', y :: m' => expr_same x y && go l' m'
         | _, _ => false
         end) l m
  | ECallKw f l kw, ECallKw g m kw2 =>
      String.eqb f g &&
      (fix go (l m : list expr) : bool :=
         match l, m with
         | [], [] => true
         | x :: l', y :: m' => expr_same x y && go l' m'
         | _, _ => false
         end) l m &&
      (fix gok (l m : list (string * expr)) : bool :=
         match l, m with
         | [], [] => true
         | (k1, x) :: l', (k2, y) :: m' => String.eqb k1 k2 && expr_same x y && gok l' m'
         | _, _ => false
         end) kw kw2
  | ENot x, ENot y => expr_same x y
  | _, _ => false
  end.

(* pymbolic __eq__ / __hash__ (keys of the is_constant dictionary): structural, except that the
   keyword arguments of a call form a mapping, compared without regard to order *)
Fixpoint expr_eqb (a b : expr) {struct a} : bool :=
  match a, b with
  | EInt x, EInt y => Z.eqb x y
  | EVar x, EVar y => String.eqb x y
  | ESum l, ESum m =>
      (fix go (l m : list expr) : bool :=
         match l, m with
         | [], [] => true
         | x :: l', y :: m' => expr_eqb x y && go l' m'
         | _, _ => false
         end) l m
  | EProd l, EProd m =>
      (fix go (l m : list expr) : bool :=
         match l, m with
         | [], [] => true
         | x :: l', y :: m' => expr_eqb x y && go l' m'
         | _, _ => false
         end) l m
  | EQuot a1 a2, EQuot b1 b2 => expr_eqb a1 b1 && expr_eqb a2 b2
  | EPow a1 a2, EPow b1 b2 => expr_eqb a1 b1 && expr_eqb a2 b2
  | ECall f l, ECall g m =>
      String.eqb f g &&
      (fix go (l m : list expr) : bool :=
         match l, m with
         | [], [] => true
         | x :: l', y :: m' => expr_eqb x y && go l' m'
         | _, _ => false
         end) l m
  | ECallKw f l kw, ECallKw g m kw2 =>
      (* kw_parameters is a mapping: equal iff same size and same value under every key,
         whatever the insertion order (for lists without repeated keys -- the only ones a
         Python dict can hold -- that is: each entry of either list has a partner in the other) *)
      String.eqb f g &&
      (fix go (l m : list expr) : bool :=
         match l, m with
         | [], [] => true
         | x :: l', y :: m' => expr_eqb x y && go l' m'
         | _, _ => false
         end) l m &&
      Nat.eqb (List.length kw) (List.length kw2) &&
      forallb (fun kv1 => existsb (fun kv2 => String.eqb (fst kv1) (fst kv2) &&
                                             expr_eqb (snd kv1) (snd kv2)) kw2) kw &&
      forallb (fun kv2 => existsb (fun kv1 => String.eqb (fst kv1) (fst kv2) &&
                                             expr_eqb (snd kv1) (snd kv2)) kw) kw2
  | ENot x, ENot y => expr_eqb x y
  | _, _ => false
  end.

(* every name mentioned: variables and function symbols (pymbolic: Variable(f)) *)
Fixpoint names (e : expr) : list string :=
  match e with
  | EInt _ => []
  | EVar x => [x]
  | ESum l | EProd l => flat_map names l
  | EQuot a b | EPow a b => names a ++ names b
  | ECall f args => f :: flat_map names args
  | ECallKw f args kw => f :: flat_map names args ++ flat_map (fun kv => names (snd kv)) kw
  | ENot a => names a
  end.

(* all subexpressions, the node itself first; the function symbol of a call is
   visited as Variable(f) by both mappers *)
Fixpoint subs (e : expr) : list expr :=
  e :: match e with
       | EInt _ | EVar _ => []
       | ESum l | EProd l => flat_map subs l
       | EQuot a b | EPow a b => subs a ++ subs b
       | ECall f args => EVar f :: flat_map subs args
       | ECallKw f args kw => EVar f :: flat_map subs args ++ flat_map (fun kv => subs (snd kv)) kw
       | ENot a => subs a
       end.

(* no empty Sum / Product anywhere (reduce() of an empty sequence raises TypeError) *)
Fixpoint wfb (e : expr) : bool :=
  match e with
  | EInt _ | EVar _ => true
  | ESum l | EProd l => negb (match l with [] => true | _ => false end) && forallb wfb l
  | EQuot a b | EPow a b => wfb a && wfb b
  | ECall _ args => forallb wfb args
  | ECallKw _ args kw => forallb wfb args && forallb (fun kv => wfb (snd kv)) kw
  | ENot a => wfb a
  end.

Fixpoint size (e : expr) : nat :=
  match e with
  | EInt _ | EVar _ => 1
  | ESum l | EProd l => S (fold_right (fun x n => size x + n) 0 l)
  | EQuot a b | EPow a b => S (size a + size b)
  | ECall _ args => S (fold_right (fun x n => size x + n) 0 args)
  | ECallKw _ args kw => S (fold_right (fun x n => size x + n) 0 args +
                            fold_right (fun kv n => size (snd kv) + n) 0 kw)
  | ENot a => S (size a)
  end.

(* ---- value of an expression: total over Z.  The interpretation of the
   non-commutative operators (quotient, power, logical not) and of every
   function symbol is a parameter: the theorems hold for all of them. ---- *)
Section Eval.
  Variable qop pop : Z -> Z -> Z.        (* Quotient, Power *)
  Variable nop : Z -> Z.                 (* LogicalNot *)
  Variable F : string -> list Z -> Z.    (* function symbols (pure: assumption A2) *)
  (* calls with keyword arguments: a pure function of the symbol, the positional values and the
     (keyword, value) pairs as written *)
  Variable Fk : string -> list Z -> list (string * Z) -> Z.

  Definition zsum (l : list Z) : Z := fold_right Z.add 0%Z l.
  Definition zprod (l : list Z) : Z := fold_right Z.mul 1%Z l.

  Fixpoint eval (rho : string -> Z) (e : expr) : Z :=
    match e with
    | EInt z => z
    | EVar x => rho x
    | ESum l => zsum (map (eval rho) l)
    | EProd l => zprod (map (eval rho) l)
    | EQuot a b => qop (eval rho a) (eval rho b)
    | EPow a b => pop (eval rho a) (eval rho b)
    | ECall f args => F f (map (eval rho) args)
    | ECallKw f args kw => Fk f (map (eval rho) args) (map (fun kv => (fst kv, eval rho (snd kv))) kw)
    | ENot a => nop (eval rho a)
    end.

  Definition upd (rho : string -> Z) (x : string) (v : Z) : string -> Z :=
    fun y => if String.eqb y x then v else rho y.

  (* run the emitted assignments in order, each right-hand side evaluated in the
     environment built so far *)
  Definition bind_all (rho : string -> Z) (asg : list (string * expr)) : string -> Z :=
    fold_left (fun r xc => upd r (fst xc) (eval r (snd xc))) asg rho.
End Eval.

(* substitute the hoisted terms back (simultaneous; first binding of a name wins) *)
Fixpoint alookup (x : string) (asg : list (string * expr)) : option expr :=
  match asg with
  | [] => None
  | (y, c) :: r => if String.eqb x y then Some c else alookup x r
  end.

Fixpoint subst (asg : list (string * expr)) (e : expr) : expr :=
  match e with
  | EInt _ => e
  | EVar x => match alookup x asg with Some c => c | None => e end
  | ESum l => ESum (map (subst asg) l)
  | EProd l => EProd (map (subst asg) l)
  | EQuot a b => EQuot (subst asg a) (subst asg b)
  | EPow a b => EPow (subst asg a) (subst asg b)
  | ECall f args => ECall f (map (subst asg) args)
  | ECallKw f args kw => ECallKw f (map (subst asg) args) (map (fun kv => (fst kv, subst asg (snd kv))) kw)
  | ENot a => ENot (subst asg a)
  end.

(* ---- outcomes: every Python exception that can occur is a constructor ---- *)
Inductive res (A : Type) :=
| Ok (a : A)
| TypeError        (* reduce() of empty iterable with no initial value *)
| IndexError       (* pop from empty list *)
| KeyError         (* is_constant[expr] for an expression that was never classified *)
| AssertionError.  (* assert non_constants *)
Arguments Ok {A} a.
Arguments TypeError {A}.
Arguments IndexError {A}.
Arguments KeyError {A}.
Arguments AssertionError {A}.

Definition bind {A B} (r : res A) (f : A -> res B) : res B :=
  match r with
  | Ok a => f a
  | TypeError => TypeError
  | IndexError => IndexError
  | KeyError => KeyError
  | AssertionError => AssertionError
  end.
Notation "x <- r ;; k" := (bind r (fun x => k)) (at level 61, r at next level, right associativity).
Notation "' p <- r ;; k" := (bind r (fun p => k))
  (at level 61, p pattern, r at next level, right associativity).

Definition mem (x : string) (l : list string) : bool := existsb (String.eqb x) l.

(* ---- the is_constant dictionary: keyed by structural equality (pymbolic __eq__/__hash__);
   newest binding first, lookup returns the newest ---- *)
Definition dict := list (expr * bool).
Fixpoint dget (d : dict) (k : expr) : option bool :=
  match d with
  | [] => None
  | (k', v) :: r => if expr_eqb k' k then Some v else dget r k
  end.

(* what the classification ought to be: no name of the subexpression is declared free *)
Section IsConst.
  Variable free : list string.
  Fixpoint isconst (e : expr) : bool :=
    match e with
    | EInt _ => true
    | EVar x => negb (mem x free)
    | ESum l | EProd l => forallb isconst l
    | EQuot a b | EPow a b => isconst a && isconst b
    | ECall f args => negb (mem f free) && forallb isconst args
    | ECallKw f args kw =>
        negb (mem f free) && forallb isconst args && forallb (fun kv => isconst (snd kv)) kw
    | ENot a => isconst a
    end.
End IsConst.

(* ---- _ConstantFindingMapper ---- *)
Section Finder.
  (* shape switch (coq/gen/GenC18.v): does _ConstantFindingMapper override the unary
     pass-through methods of CombineMapper so that they call combine()?  false = the code
     as found (map_logical_not etc. inherited: `return self.rec(expr.child)`). *)
  Variable unary_combines : bool.
  Variable free : list string.

  (* (node_stack, is_constant) *)
  Definition fstate := (list expr * dict)%type.
  Definition push (e : expr) (s : fstate) : fstate := (e :: fst s, snd s).
  Definition fpop (s : fstate) : res (expr * fstate) :=
    match fst s with
    | [] => IndexError
    | x :: r => Ok (x, (r, snd s))
    end.
  Definition setd (k : expr) (v : bool) (s : fstate) : fstate := (fst s, (k, v) :: snd s).

  (* map_constant: self.node_stack.pop(); self.is_constant[expr] = True *)
  Definition fconst (e : expr) (s : fstate) : res (bool * fstate) :=
    '(_, s1) <- fpop s ;; Ok (true, setd e true s1).

  (* map_variable: pop; result = expr not in self.free_variables; is_constant[expr] = result *)
  Definition fvar (x : string) (s : fstate) : res (bool * fstate) :=
    '(_, s1) <- fpop s ;;
    let r := negb (mem x free) in Ok (r, setd (EVar x) r s1).

  (* combine(exprs) on an already evaluated tuple/list:
     current_expr = pop(); result = reduce(and_, exprs); is_constant[current_expr] = result *)
  Definition combine_post (rs : list bool) (s : fstate) : res (bool * fstate) :=
    '(cur, s1) <- fpop s ;;
    match rs with
    | [] => TypeError
    | r :: rs' => let result := fold_left andb rs' r in Ok (result, setd cur result s1)
    end.

  (* the visit of a list of children by a function `frec` (= rec), threading the state *)
  Section Children.
    Variable frec : expr -> fstate -> res (bool * fstate).
    (* reduce(operator.and_, <generator>) after its first element *)
    Fixpoint fgo_and (cs : list expr) (acc : bool) (s : fstate) : res (bool * fstate) :=
      match cs with
      | [] => Ok (acc, s)
      | c :: cs' => '(rc, s') <- frec c s ;; fgo_and cs' (andb acc rc) s'
      end.
    (* [self.rec(child) for child in ...] *)
    Fixpoint fgo_list (l : list expr) (s : fstate) : res (list bool * fstate) :=
      match l with
      | [] => Ok ([], s)
      | c :: l' => '(rc, s') <- frec c s ;; '(rs, s'') <- fgo_list l' s' ;; Ok (rc :: rs, s'')
      end.
    (* [self.rec(child) for child in expr.kw_parameters.values()] *)
    Fixpoint fgo_kw (kw : list (string * expr)) (s : fstate) : res (list bool * fstate) :=
      match kw with
      | [] => Ok ([], s)
      | kv :: kw' =>
          '(rc, s') <- frec (snd kv) s ;; '(rs, s'') <- fgo_kw kw' s' ;; Ok (rc :: rs, s'')
      end.
  End Children.

  (* fmap e s: dispatch on e AFTER rec has pushed it (rec e s = fmap e (push e s)) *)
  Fixpoint fmap (e : expr) (s : fstate) {struct e} : res (bool * fstate) :=
    match e with
    | EInt _ => fconst e s
    | EVar x => fvar x s
    | ESum l | EProd l =>
        (* CombineMapper.map_sum/map_product hand combine() a *generator*: combine pops the
           node stack first, the children are visited while reduce() consumes it *)
        '(cur, s1) <- fpop s ;;
        match l with
        | [] => TypeError
        | c :: cs =>
            '(r0, s2) <- fmap c (push c s1) ;;
            '(r, s3) <- fgo_and (fun c s => fmap c (push c s)) cs r0 s2 ;;
            Ok (r, setd cur r s3)
        end
    | EQuot a b | EPow a b =>
        (* tuple argument: children first, then combine pops *)
        '(ra, s1) <- fmap a (push a s) ;;
        '(rb, s2) <- fmap b (push b s1) ;;
        combine_post [ra; rb] s2
    | ECall f args =>
        '(rf, s1) <- fvar f (push (EVar f) s) ;;
        '(rs, s2) <- fgo_list (fun c s => fmap c (push c s)) args s1 ;;
        combine_post (rf :: rs) s2
    | ECallKw f args kw =>
        (* CombineMapper.map_call_with_kwargs: one tuple (function, *parameters,
           *kw_parameters.values()), all visited before combine pops *)
        '(rf, s1) <- fvar f (push (EVar f) s) ;;
        '(rs, s2) <- fgo_list (fun c s => fmap c (push c s)) args s1 ;;
        '(rk, s3) <- fgo_kw (fun c s => fmap c (push c s)) kw s2 ;;
        combine_post (rf :: rs ++ rk) s3
    | ENot a =>
        if unary_combines
        then '(ra, s1) <- fmap a (push a s) ;; combine_post [ra] s1
        else fmap a (push a s)            (* return self.rec(expr.child): nothing pops ENot a *)
    end.
  Definition frec (c : expr) (s : fstate) := fmap c (push c s).

  (* __call__: is_constant = {}; seeds for the free variables; push expr; dispatch *)
  Definition seed_dict : dict := fold_left (fun d x => (EVar x, false) :: d) free [].
  Definition find (e : expr) : res dict :=
    '(_, s) <- fmap e (push e ([], seed_dict)) ;; Ok (snd s).
End Finder.

(* ---- _ExpressionCollapsingMapper ---- *)
Definition is_atomic (e : expr) : bool :=
  match e with EInt _ | EVar _ => true | _ => false end.

Section Collapser.
  Variable fresh : nat -> string.           (* the i-th value returned by new_var_func *)
  Variable look : expr -> option bool.      (* self.is_constant[...] *)

  (* (number of calls of new_var_func so far, log of `self.assignments[new_var] = ...`) *)
  Definition cstate := (nat * list (string * expr))%type.

  (* new_var = self.new_var_func(); self.assignments[new_var] = c *)
  Definition hoist (c : expr) (s : cstate) : expr * cstate :=
    let v := fresh (fst s) in (EVar v, (S (fst s), (snd s ++ [(v, c)])%list)).

  (* rec: if _is_atomic(expr) or not self.is_constant[expr]: IdentityMapper.rec else hoist *)
  Definition crec_gen (self : expr -> cstate -> res (expr * cstate)) (e : expr) (s : cstate)
    : res (expr * cstate) :=
    if is_atomic e then self e s
    else match look e with
         | None => KeyError
         | Some false => self e s
         | Some true => Ok (hoist e s)
         end.

  (* tail of map_commut_assoc, after the children have been classified *)
  Definition finish_commut (mk : list expr -> expr) (cs ncs : list expr) (s : cstate)
    : res (expr * cstate) :=
    match cs with
    | [] => match ncs with
            | [] => AssertionError
            | [x] => Ok (x, s)
            | _ => Ok (mk ncs, s)
            end
    | c0 :: crest =>
        let '(folded, s') :=
          match crest with
          | [] => if is_atomic c0 then (c0, s) else hoist c0 s
          | _ => hoist (mk cs) s
          end in
        match ncs with
        | [] => Ok (folded, s')
        | _ => Ok (mk (folded :: ncs), s')
        end
    end.

  Section CChildren.
    Variable rec : expr -> cstate -> res (expr * cstate).
    (* the loop of map_commut_assoc: (constants, non_constants, state) *)
    Fixpoint cloop (l : list expr) (s : cstate) : res (list expr * list expr * cstate) :=
      match l with
      | [] => Ok ([], [], s)
      | c :: r =>
          match look c with
          | None => KeyError
          | Some true => '(cs, ncs, s') <- cloop r s ;; Ok (c :: cs, ncs, s')
          | Some false =>
              '(c', s1) <- rec c s ;;
              '(cs, ncs, s2) <- cloop r s1 ;; Ok (cs, c' :: ncs, s2)
          end
      end.
    (* tuple([self.rec(child) for child in expr.parameters]) *)
    Fixpoint cgo (l : list expr) (s : cstate) : res (list expr * cstate) :=
      match l with
      | [] => Ok ([], s)
      | c :: r => '(c', s1) <- rec c s ;; '(r', s2) <- cgo r s1 ;; Ok (c' :: r', s2)
      end.
    (* {key: self.rec(val) for key, val in expr.kw_parameters.items()} *)
    Fixpoint cgo_kw (kw : list (string * expr)) (s : cstate) : res (list (string * expr) * cstate) :=
      match kw with
      | [] => Ok ([], s)
      | kv :: r =>
          '(c', s1) <- rec (snd kv) s ;; '(r', s2) <- cgo_kw r s1 ;; Ok ((fst kv, c') :: r', s2)
      end.
  End CChildren.

  (* cmap = IdentityMapper dispatch with map_sum/map_product = map_commut_assoc *)
  Fixpoint cmap (e : expr) (s : cstate) {struct e} : res (expr * cstate) :=
    match e with
    | EInt _ | EVar _ => Ok (e, s)
    | ESum l =>
        '(cs, ncs, s') <- cloop (crec_gen cmap) l s ;; finish_commut ESum cs ncs s'
    | EProd l =>
        '(cs, ncs, s') <- cloop (crec_gen cmap) l s ;; finish_commut EProd cs ncs s'
    | EQuot a b =>
        '(a', s1) <- crec_gen cmap a s ;; '(b', s2) <- crec_gen cmap b s1 ;; Ok (EQuot a' b', s2)
    | EPow a b =>
        '(a', s1) <- crec_gen cmap a s ;; '(b', s2) <- crec_gen cmap b s1 ;; Ok (EPow a' b', s2)
    | ECall f args =>
        (* self.rec(expr.function): a Variable is atomic, returned unchanged *)
        '(args', s') <- cgo (crec_gen cmap) args s ;; Ok (ECall f args', s')
    | ECallKw f args kw =>
        (* IdentityMapper.map_call_with_kwargs: function, then the parameters, then the keyword
           values in the order of the mapping; rebuilt with the same keys in the same order *)
        '(args', s1) <- cgo (crec_gen cmap) args s ;;
        '(kw', s2) <- cgo_kw (crec_gen cmap) kw s1 ;;
        Ok (ECallKw f args' kw', s2)
    | ENot a => '(a', s1) <- crec_gen cmap a s ;; Ok (ENot a', s1)
    end.

  Definition crec := crec_gen cmap.
End Collapser.

(* self.assignments is a dict keyed by the new variable: a repeated key overwrites in
   place (only matters when new_var_func violates its contract) *)
Fixpoint aset (d : list (string * expr)) (k : string) (v : expr) : list (string * expr) :=
  match d with
  | [] => [(k, v)]
  | (k', v') :: r => if String.eqb k' k then (k', v) :: r else (k', v') :: aset r k v
  end.
Definition dict_of_log (log : list (string * expr)) : list (string * expr) :=
  fold_left (fun d kv => aset d (fst kv) (snd kv)) log [].

(* collapse_constants: result = (new expression, assign_func calls in order,
   number of new_var_func calls).  The top-level dispatch is IdentityMapper.__call__,
   i.e. cmap, NOT the overridden rec. *)
Definition collapse (unary_combines : bool) (fresh : nat -> string) (free : list string)
           (e : expr) : res (expr * list (string * expr) * nat) :=
  d <- find unary_combines free e ;;
  '(e', (n, log)) <- cmap fresh (dget d) e (0, []) ;;
  Ok (e', dict_of_log log, n).

(* ---- supplier used by the correspondence check: "v0", "v1", ... ---- *)
Definition digit (n : nat) : ascii := ascii_of_nat (48 + n).
Fixpoint dec_aux (fuel n : nat) (acc : string) : string :=
  match fuel with
  | 0 => acc
  | S f => let acc' := String (digit (n mod 10)) acc in
           if Nat.eqb (n / 10) 0 then acc' else dec_aux f (n / 10) acc'
  end.
Definition dec (n : nat) : string := dec_aux (S n) n "".
Definition fresh_v (n : nat) : string := "v" ++ dec n.
Definition fresh_same (_ : nat) : string := "var".   (* contract-violating supplier of the repo's own test *)

(* comparison of a model outcome with a recorded implementation outcome *)
Fixpoint asg_eqb (a b : list (string * expr)) : bool :=
  match a, b with
  | [], [] => true
  | (x, c) :: a', (y, d) :: b' => String.eqb x y && expr_same c d && asg_eqb a' b'
  | _, _ => false
  end.

Inductive outcome :=
| OOk (e : expr) (asg : list (string * expr))
| OExc (name : string).

Definition outcome_of (r : res (expr * list (string * expr) * nat)) : outcome :=
  match r with
  | Ok (e, asg, _) => OOk e asg
  | TypeError => OExc "TypeError"
  | IndexError => OExc "IndexError"
  | KeyError => OExc "KeyError"
  | AssertionError => OExc "AssertionError"
  end.

Definition outcome_eqb (a b : outcome) : bool :=
  match a, b with
  | OOk e asg, OOk e' asg' => expr_same e e' && asg_eqb asg asg'
  | OExc x, OExc y => String.eqb x y
  | _, _ => false
  end.
