(* Model of dagrt/data.py (unify, KindInferenceMapper, SymbolKindTable, SymbolKindFinder),
   of the result kinds of dagrt/function_registry.py and of the value classes that
   dagrt/builtins_python.py + Python/numpy arithmetic produce (C09).

   Definitions only (no proofs).  The model mirrors the Python line by line, defects
   included; six recognisable source shapes are parameters (record [cfg], filled from
   coq/gen/GenC09.v):
     pow_fix   : KindInferenceMapper.map_power returns a kind (false: no return statement)
     new_marks : SymbolKindTable.set marks the table changed when it adds a NEW entry
     conflict_raises : SymbolKindTable.set re-raises a failing unify after printing its message
     isnan_any : builtin_isnan reduces with .any()  (false: elementwise numpy.isnan)
     finder_restarts : SymbolKindFinder.__call__ leaves the work-list loop for another pass instead of
                 giving up when a retry sweep made no progress but the table changed (false: gives up)
     need_arrays : MatMul/Transpose/LinearSolve/SVD.get_result_kinds are unable to infer a kind unless
                 their matrix arguments are Arrays (false: they read .is_real_valued of any kind)

   Scope: expressions built from constants, variables, sums, products, quotients, powers,
   comparisons, and/or/not, min/max, subscripts and calls (positional and keyword
   arguments); pymbolic's flatten() is NOT modelled: programs are the expressions as
   stored in the statement (Assign.__init__ has flattened them; the harness checks that
   flatten() is the identity on every stored expression it uses). *)
From Coq Require Import List String Bool Arith.
Import ListNotations.
Open Scope string_scope.
Open Scope list_scope.

(* ------------------------------------------------------------------ kinds *)

Inductive kind :=
| KBool | KInt
| KScalar (is_real : bool)
| KArray (is_real : bool)
| KUser (id : string).

(* None = "no kind" (Python None: what map_power returns on the unchanged tree) *)
Definition okind := option kind.

Definition kind_eqb (a b : kind) : bool :=
  match a, b with
  | KBool, KBool => true
  | KInt, KInt => true
  | KScalar r, KScalar s => Bool.eqb r s
  | KArray r, KArray s => Bool.eqb r s
  | KUser i, KUser j => String.eqb i j
  | _, _ => false
  end.

Definition okind_eqb (a b : okind) : bool :=
  match a, b with
  | None, None => true
  | Some x, Some y => kind_eqb x y
  | _, _ => false
  end.

(* Python exception classes that can leave the modelled code *)
Inductive exn :=
| UnableToInferKind | ValueError | AssertionError | AttributeError | TypeError
| RuntimeError | FunctionNotFound | OutOfFuel.

Definition exn_eqb (a b : exn) : bool :=
  match a, b with
  | UnableToInferKind, UnableToInferKind | ValueError, ValueError
  | AssertionError, AssertionError | AttributeError, AttributeError
  | TypeError, TypeError | RuntimeError, RuntimeError
  | FunctionNotFound, FunctionNotFound | OutOfFuel, OutOfFuel => true
  | _, _ => false
  end.

Inductive res (A : Type) := Ok (a : A) | Err (e : exn).
Arguments Ok {A} a.
Arguments Err {A} e.

(* dagrt/data.py: unify(kind_a, kind_b) *)
Definition unify (a b : okind) : res okind :=
  match a, b with
  | None, _ => Ok b
  | _, None => Ok a
  | Some ka, Some kb =>
      match ka, kb with
      | KBool, _ => Err ValueError
      | _, KBool => Err ValueError
      | KUser i, KUser j => if String.eqb i j then Ok a else Err ValueError
      | KUser _, KScalar _ => Ok a
      | KUser _, KInt => Ok a
      | KUser _, _ => Err AssertionError
      | KArray r, KArray s => Ok (Some (KArray (r && s)))
      | KArray r, KScalar s => Ok (Some (KArray (r && s)))
      | KArray _, KInt => Ok a
      | KArray _, _ => Err AssertionError
      | KScalar _, KUser _ => Ok b
      | KScalar r, KArray s => Ok (Some (KArray (r && s)))
      | KScalar _, KInt => Ok a
      | KScalar r, KScalar s => Ok (Some (KScalar (r && s)))
      | KInt, KInt => Ok (Some KInt)
      | KInt, _ => Ok b
      end
  end.

(* ------------------------------------------------------------------ value classes, expressions *)

Inductive vclass :=
| CNone | CBool | CInt | CReal | CComplex
| CArr (is_real : bool)
| CUser (id : string).

Definition vclass_eqb (a b : vclass) : bool :=
  match a, b with
  | CNone, CNone | CBool, CBool | CInt, CInt | CReal, CReal | CComplex, CComplex => true
  | CArr r, CArr s => Bool.eqb r s
  | CUser i, CUser j => String.eqb i j
  | _, _ => false
  end.

Inductive expr :=
| EConst (c : vclass)                 (* literal; only its class matters: CBool/CInt/CReal/CComplex *)
| EVar (x : string)
| ESum (l : list expr)
| EProd (l : list expr)
| EQuot (a b : expr)
| EPow (a b : expr)
| ECmp (ordered : bool) (a b : expr)  (* ordered: < <= > >=;  otherwise == != *)
| EAnd (l : list expr)
| EOr (l : list expr)
| ENot (a : expr)
| EMin (l : list expr)
| EMax (l : list expr)
| ESub (a i : expr)
| ECall (f : string) (args : list expr) (kwn : list string).
   (* the LAST [List.length kwn] arguments are keyword arguments with these names *)

Inductive stmt :=
| SAssign (x : string) (has_sub : bool) (rhs : expr) (loops : list string)
| SCall (xs : list string) (f : string) (args : list expr) (kwn : list string)
| SOther.   (* Nop, YieldState, FailStep, Raise, SwitchPhase: "we only care about assignments" *)

Definition program := list (string * list stmt).

(* ------------------------------------------------------------------ functions and their result kinds *)

Inductive fsig :=
| FNorm | FAbs | FDot | FLen | FIsNan | FArray | FMatMul | FTranspose | FLinSolve | FSvd | FPrint
| FRhs (out : string) (ins : list string) (names : list string)   (* register_ode_rhs *)
| FFixed (argn : list string) (ks : list kind).                   (* FixedResultKindsFunction *)

Definition registry := list (string * fsig).

Fixpoint rlookup (reg : registry) (f : string) : option fsig :=
  match reg with
  | [] => None
  | (n, s) :: r => if String.eqb n f then Some s else rlookup r f
  end.

Definition builtin_reg : registry :=
  [("<builtin>norm_1", FNorm); ("<builtin>norm_2", FNorm); ("<builtin>norm_inf", FNorm);
   ("<builtin>elementwise_abs", FAbs); ("<builtin>dot_product", FDot); ("<builtin>len", FLen);
   ("<builtin>isnan", FIsNan); ("<builtin>array", FArray); ("<builtin>matmul", FMatMul);
   ("<builtin>transpose", FTranspose); ("<builtin>linear_solve", FLinSolve);
   ("<builtin>print", FPrint); ("<builtin>svd", FSvd)].

Definition sig_args (s : fsig) : list string :=
  match s with
  | FNorm | FAbs | FLen | FIsNan => ["x"]
  | FDot => ["x"; "y"]
  | FArray => ["n"]
  | FMatMul | FLinSolve => ["a"; "b"; "a_cols"; "b_cols"]
  | FTranspose | FSvd => ["a"; "a_cols"]
  | FPrint => ["arg"]
  | FRhs _ _ names => "t" :: names
  | FFixed argn _ => argn
  end.

(* len(func.result_names) *)
Definition sig_nres (s : fsig) : nat :=
  match s with
  | FSvd => 3
  | FPrint => 0
  | FFixed _ ks => List.length ks
  | _ => 1
  end.

Fixpoint alookup {A} (l : list (string * A)) (x : string) : option A :=
  match l with
  | [] => None
  | (n, v) :: r => if String.eqb n x then Some v else alookup r x
  end.

Fixpoint aremove {A} (l : list (string * A)) (x : string) : list (string * A) :=
  match l with
  | [] => []
  | (n, v) :: r => if String.eqb n x then aremove r x else (n, v) :: aremove r x
  end.

(* dagrt/utils.py resolve_args with an empty default_dict: None = TypeError *)
Fixpoint resolve {A} (names : list string) (pos : list A) (kw : list (string * A)) : option (list A) :=
  match names with
  | [] => match pos, kw with [], [] => Some [] | _, _ => None end
  | n :: names' =>
      match pos with
      | p :: pos' =>
          match alookup kw n with
          | Some _ => None
          | None => match resolve names' pos' kw with Some r => Some (p :: r) | None => None end
          end
      | [] =>
          match alookup kw n with
          | Some v => match resolve names' [] (aremove kw n) with Some r => Some (v :: r) | None => None end
          | None => None
          end
      end
  end.

Definition realness (k : okind) : option bool :=
  match k with
  | Some (KScalar r) | Some (KArray r) => Some r
  | _ => None
  end.

Definition is_scalar_k (k : okind) : bool := match k with Some (KScalar _) => true | _ => false end.
Definition is_array_k (k : okind) : bool := match k with Some (KArray _) => true | _ => false end.
Definition is_user_k (k : okind) : bool := match k with Some (KUser _) => true | _ => false end.
Definition is_none_k (k : okind) : bool := match k with None => true | _ => false end.

(* get_result_kinds(arg_kinds, check) after resolve_args; None = an exception (every
   exception is turned into UnableToInferKind by map_generic_call) *)
Definition result_kinds (check : bool) (s : fsig) (a : list okind) : option (list kind) :=
  match s, a with
  | FNorm, [x] =>
      if check && negb (is_none_k x || is_array_k x || is_user_k x) then None
      else Some [KScalar true]
  | FAbs, [x] =>
      match x with
      | Some (KUser i) => Some [KUser i]
      | Some (KArray _) => Some [KArray true]
      | Some (KScalar _) => Some [KScalar true]
      | _ => None
      end
  | FDot, [x; y] =>
      if check && negb ((is_none_k x || is_array_k x || is_user_k x)
                        && (is_none_k y || is_array_k y || is_user_k y)) then None
      else Some [KScalar false]
  | FLen, [x] =>
      if check && negb (is_none_k x || is_scalar_k x || is_array_k x || is_user_k x) then None
      else Some [KScalar true]
  | FIsNan, [x] =>
      if check && negb (is_none_k x || is_scalar_k x || is_array_k x || is_user_k x) then None
      else Some [KBool]
  | FArray, [n] =>
      if check && negb (is_scalar_k n) then None else Some [KArray true]
  | FMatMul, [x; y; xc; yc] | FLinSolve, [x; y; xc; yc] =>
      if is_none_k x || is_none_k y then None
      else if check && negb (is_array_k x && is_array_k y && is_scalar_k xc && is_scalar_k yc) then None
      else match realness x with
           | None => None
           | Some false => Some [KArray false]     (* `a.is_real_valued and b.is_real_valued` short-circuits *)
           | Some true => match realness y with None => None | Some r => Some [KArray r] end
           end
  | FTranspose, [x; xc] =>
      if is_none_k x then None
      else if check && negb (is_array_k x && is_scalar_k xc) then None
      else match realness x with None => None | Some r => Some [KArray r] end
  | FSvd, [x; xc] =>
      if is_none_k x then None
      else if check && negb (is_array_k x && is_scalar_k xc) then None
      else match realness x with None => None | Some r => Some [KArray r; KArray r; KArray r] end
  | FPrint, [x] =>
      if check && negb (match x with Some KInt | Some (KScalar _) | Some (KArray _) => true | _ => false end)
      then None else Some []
  | FRhs out ins _, t :: rest =>
      if check && negb (is_scalar_k t) then None
      else if check && negb ((fix go (l : list okind) (ids : list string) : bool :=
                                match l, ids with
                                | k :: l', i :: ids' =>
                                    (match k with Some (KUser j) => String.eqb j i | _ => false end) && go l' ids'
                                | _, _ => true     (* zip stops at the shorter list *)
                                end) rest ins) then None
      else Some [KUser out]
  | _, _ => None
  end.

Definition split_args {A} (vals : list A) (kwn : list string) : list A * list (string * A) :=
  let npos := List.length vals - List.length kwn in
  (firstn npos vals, combine kwn (skipn npos vals)).

(* func.get_result_kinds(arg_kinds, check) including resolve_args; FixedResultKindsFunction
   returns its kinds without looking at the arguments *)
Definition call_kinds_gen (rk : fsig -> list okind -> option (list kind))
           (s : fsig) (vals : list okind) (kwn : list string) : option (list kind) :=
  match s with
  | FFixed _ ks => Some ks
  | _ => let (pos, kw) := split_args vals kwn in
         match resolve (sig_args s) pos kw with
         | None => None
         | Some a => rk s a
         end
  end.

Definition call_kinds (check : bool) := call_kinds_gen (result_kinds check).

(* MatMul / Transpose / LinearSolve / SVD since 47d5901: after the `is None` test and the check=True
   TypeErrors,
       if not (isinstance(a_kind, Array) [and isinstance(b_kind, Array)]):
           raise UnableToInferKind(...)
   [matrix_arrays] is that test (true for every other function and for a wrong number of arguments,
   which [result_kinds] answers with None anyway). *)
Definition matrix_arrays (s : fsig) (a : list okind) : bool :=
  match s, a with
  | FMatMul, [x; y; _; _] | FLinSolve, [x; y; _; _] => is_array_k x && is_array_k y
  | FTranspose, [x; _] | FSvd, [x; _] => is_array_k x
  | _, _ => true
  end.

(* get_result_kinds(arg_kinds, check=False), the call kind inference makes.  [na] = the four matrix
   built-ins have the test above (false: they read `.is_real_valued` of whatever kind they are handed, so
   a Scalar argument yields an Array and only Integer / Boolean / UserType end in an AttributeError).
   The test is not observable with check=True ([result_kinds true] is the same function for both shapes):
   the TypeErrors raised before it already demand Arrays, and every exception is a None here. *)
Definition result_kinds_infer (na : bool) (s : fsig) (a : list okind) : option (list kind) :=
  if na && negb (matrix_arrays s a) then None else result_kinds false s a.

Definition call_kinds_infer (na : bool) := call_kinds_gen (result_kinds_infer na).

(* ------------------------------------------------------------------ KindInferenceMapper *)

Definition tbl := list (string * okind).

Definition is_complex_c (c : vclass) : bool := match c with CComplex => true | _ => false end.

(* map_sum: unify the children that can be inferred; [last] = some child raised UnableToInferKind.
   `raise last_exc` with last_exc = None is a TypeError. *)
Fixpoint sum_kinds (rs : list (res okind)) (acc : okind) (last : bool) : res okind :=
  match rs with
  | [] => match acc with
          | Some _ => Ok acc
          | None => if last then Err UnableToInferKind else Err TypeError
          end
  | Err UnableToInferKind :: r => sum_kinds r acc true
  | Err e :: _ => Err e
  | Ok k :: r => match unify acc k with Err e => Err e | Ok k' => sum_kinds r k' last end
  end.

(* map_product_like *)
Fixpoint prod_kinds (rs : list (res okind)) (acc : okind) : res okind :=
  match rs with
  | [] => Ok acc
  | Err e :: _ => Err e
  | Ok k :: r => match unify acc k with Err e => Err e | Ok k' => prod_kinds r k' end
  end.

(* map_logical_or / and: children are visited, errors propagate *)
Fixpoint logic_kinds (rs : list (res okind)) : res okind :=
  match rs with
  | [] => Ok (Some KBool)
  | Err e :: _ => Err e
  | Ok _ :: r => logic_kinds r
  end.

(* map_generic_call, argument part: UnableToInferKind becomes None, anything else propagates *)
Fixpoint arg_kinds (rs : list (res okind)) : res (list okind) :=
  match rs with
  | [] => Ok []
  | Err UnableToInferKind :: r =>
      match arg_kinds r with Err e => Err e | Ok l => Ok (None :: l) end
  | Err e :: _ => Err e
  | Ok k :: r => match arg_kinds r with Err e => Err e | Ok l => Ok (k :: l) end
  end.

Record cfg := mkCfg {
  pow_fix : bool;
  new_marks : bool;
  isnan_any : bool;
  conflict_raises : bool;
  finder_restarts : bool;       (* SymbolKindFinder.__call__: `if result.is_changed(): break` before giving up *)
  need_arrays : bool;           (* matmul/transpose/linear_solve/svd infer a kind only from Array arguments *)
  st_exact : list string;      (* is_state_variable: literal names *)
  st_prefixes : list string     (* is_state_variable: prefixes *)
}.

Section Mapper.
  Variable C : cfg.
  Variable reg : registry.
  Variable G L : tbl.      (* global_table, local_table *)

  (* map_generic_call; [multi] = not single_return_only *)
  Definition kcall (f : string) (rs : list (res okind)) (kwn : list string) : res (list kind) :=
    match rlookup reg f with
    | None => Err FunctionNotFound
    | Some s =>
        match arg_kinds rs with
        | Err e => Err e
        | Ok aks => match call_kinds_infer (need_arrays C) s aks kwn with
                    | None => Err UnableToInferKind
                    | Some ks => Ok ks
                    end
        end
    end.

  Fixpoint kmap (e : expr) : res okind :=
    match e with
    | EConst c => Ok (Some (KScalar (negb (is_complex_c c))))
    | EVar x =>
        match alookup G x with
        | Some k => Ok k
        | None => match alookup L x with Some k => Ok k | None => Err UnableToInferKind end
        end
    | ESum l => sum_kinds (map kmap l) None false
    | EProd l => prod_kinds (map kmap l) None
    | EQuot a b => prod_kinds [kmap a; kmap b] None
    | EPow a b => if pow_fix C then prod_kinds [kmap a; kmap b] None else Ok None
    | ECmp _ _ _ => Ok (Some KBool)
    | EAnd l | EOr l => logic_kinds (map kmap l)
    | ENot a => logic_kinds [kmap a]
    | EMin _ | EMax _ => Ok (Some (KScalar true))
    | ESub a _ =>
        match kmap a with
        | Err e => Err e
        | Ok k => match realness k with
                  | Some r => Ok (Some (KScalar r))
                  | None => Err AttributeError
                  end
        end
    | ECall f args kwn =>
        match kcall f (map kmap args) kwn with
        | Err e => Err e
        | Ok [k] => Ok (Some k)
        | Ok _ => Err RuntimeError
        end
    end.
End Mapper.

(* ------------------------------------------------------------------ SymbolKindTable *)

Record skt := mkSkt {
  sg : tbl;                        (* global_table *)
  sp : list (string * tbl);        (* per_phase_table *)
  schanged : bool;                 (* _changed *)
  sconf : nat;                     (* number of "trying to derive 'kind' ..." messages printed *)
  sexn : option exn                (* the exception of the first failed unify in `set` *)
}.

Fixpoint tupdate (t : tbl) (x : string) (k : okind) : tbl :=
  match t with
  | [] => []
  | (n, v) :: r => if String.eqb n x then (n, k) :: r else (n, v) :: tupdate r x k
  end.

(* the body of SymbolKindTable.set on one dict: new dict, changed?, message printed? *)
Definition tbl_set (nm : bool) (t : tbl) (x : string) (k : okind) : tbl * bool * option exn :=
  match alookup t x with
  | Some old =>
      if okind_eqb old k then (t, false, None)
      else match unify k old with
           | Err e => (t, false, Some e)
           | Ok k' => if okind_eqb old k' then (t, false, None) else (tupdate t x k', true, None)
           end
  | None => (t ++ [(x, k)], nm, None)
  end.

Definition conf_inc (cf : option exn) : nat := match cf with Some _ => 1 | None => 0 end.
Definition first_exn (a b : option exn) : option exn := match a with Some e => Some e | None => b end.

Fixpoint pupdate (p : list (string * tbl)) (ph : string) (t : tbl) : list (string * tbl) :=
  match p with
  | [] => [(ph, t)]
  | (n, v) :: r => if String.eqb n ph then (n, t) :: r else (n, v) :: pupdate r ph t
  end.

Definition is_state (C : cfg) (x : string) : bool :=
  existsb (String.eqb x) (st_exact C) || existsb (fun p => String.prefix p x) (st_prefixes C).

Definition local_of (T : skt) (ph : string) : tbl :=
  match alookup (sp T) ph with Some t => t | None => [] end.

Definition tset (C : cfg) (T : skt) (ph x : string) (k : okind) : skt :=
  if is_state C x then
    match tbl_set (new_marks C) (sg T) x k with
    | (t', ch, cf) => mkSkt t' (sp T) (schanged T || ch) (sconf T + conf_inc cf) (first_exn (sexn T) cf)
    end
  else
    match tbl_set (new_marks C) (local_of T ph) x k with
    | (t', ch, cf) => mkSkt (sg T) (pupdate (sp T) ph t') (schanged T || ch) (sconf T + conf_inc cf)
                            (first_exn (sexn T) cf)
    end.

(* what a table lookup through the mapper sees: global first, then the phase's dict *)
Definition lookup (T : skt) (ph x : string) : option okind :=
  match alookup (sg T) x with
  | Some k => Some k
  | None => alookup (local_of T ph) x
  end.

(* ------------------------------------------------------------------ SymbolKindFinder *)

Definition item := (string * stmt)%type.

Inductive step_res :=
| SDone (T : skt) (progress : bool)
| SRetry (T : skt)
| SFail (e : exn).

Fixpoint set_many (C : cfg) (T : skt) (ph : string) (xs : list string) (ks : list kind) : skt :=
  match xs, ks with
  | x :: xs', k :: ks' => set_many C (tset C T ph x (Some k)) ph xs' ks'
  | _, _ => T           (* zip *)
  end.

Section Finder.
  Variable C : cfg.
  Variable reg : registry.

  (* one iteration of the inner while loop after `phase_name, stmt = stmt_queue.pop()`.
     make_kim is called BEFORE the loop identifiers are set: if the phase has no dict yet,
     the mapper gets a fresh, disconnected {} as local table. *)
  (* the exception `set` re-raises (repaired shape); the model computes on and reports the FIRST failed
     unify at the next point where control would have left `set` *)
  Definition raised (T : skt) : option exn := if conflict_raises C then sexn T else None.

  Definition proc_stmt (T : skt) (ph : string) (s : stmt) : step_res :=
    match s with
    | SAssign x has_sub rhs loops =>
        let had := alookup (sp T) ph in
        let T1 := fold_left (fun T i => tset C T ph i (Some KInt)) loops T in
        match raised T1 with
        | Some e => SFail e
        | None =>
            if has_sub then SDone T1 false
            else
              let L := match had with Some _ => local_of T1 ph | None => [] end in
              match kmap C reg (sg T1) L rhs with
              | Err UnableToInferKind => SRetry T1
              | Err e => SFail e
              | Ok k => let T2 := tset C T1 ph x k in
                        match raised T2 with Some e => SFail e | None => SDone T2 true end
              end
        end
    | SCall xs f args kwn =>
        let L := local_of T ph in
        match kcall C reg f (map (kmap C reg (sg T) L) args) kwn with
        | Err UnableToInferKind => SRetry T
        | Err e => SFail e
        | Ok ks => let T2 := set_many C T ph xs ks in
                   match raised T2 with Some e => SFail e | None => SDone T2 true end
        end
    | SOther => SDone T false
    end.

  (* the "Left-over statements in kind inference" report (iterates in push order) *)
  Fixpoint diagnose (l : list item) (T : skt) : exn :=
    match l with
    | [] => RuntimeError
    | (ph, s) :: r =>
        let L := local_of T ph in
        match s with
        | SAssign _ _ rhs _ =>
            match kmap C reg (sg T) L rhs with
            | Err UnableToInferKind => diagnose r T
            | Err e => e
            | Ok _ => AssertionError
            end
        | SCall _ f args kwn =>
            match kcall C reg f (map (kmap C reg (sg T) L) args) kwn with
            | Err UnableToInferKind => diagnose r T
            | Err e => e
            | Ok _ => AssertionError
            end
        | SOther => AssertionError      (* `else: pass` inside try, then the else clause of try *)
        end
    end.

  (* inner while loop.  q: stmt_queue in POP order (head = next popped);
     buf: stmt_queue_push_buffer, most recently pushed first (= pop order once swapped in) *)
  Fixpoint inner (fuel : nat) (q buf : list item) (prog : bool) (T : skt) : res skt :=
    match fuel with
    | 0 => Err OutOfFuel
    | S f =>
        match q with
        | [] =>
            match buf with
            | [] => Ok T
            | _ => if prog then inner f buf [] false T
                   else if finder_restarts C && schanged T then Ok T
                        (* `if result.is_changed(): break` (c2c8c5a): leaves the work-list loop with
                           statements left over; the change flag is set, so [outer] starts the next pass *)
                   else Err (diagnose (rev buf) T)
            end
        | (ph, s) :: q' =>
            match proc_stmt T ph s with
            | SFail e => Err e
            | SRetry T' => inner f q' ((ph, s) :: buf) prog T'
            | SDone T' p => inner f q' buf (prog || p) T'
            end
        end
    end.

  Definition items_of (D : program) : list item :=
    flat_map (fun ps => map (fun s => (fst ps, s)) (snd ps)) D.

  Definition reset (T : skt) : skt := mkSkt (sg T) (sp T) false (sconf T) (sexn T).

  (* outer `while True:` *)
  Fixpoint outer (fo fi : nat) (D : program) (T : skt) : res skt :=
    match fo with
    | 0 => Err OutOfFuel
    | S f =>
        match inner fi (rev (items_of D)) [] false (reset T) with
        | Err e => Err e
        | Ok T' => if schanged T' then outer f fi D T' else Ok T'
        end
    end.

  (* "check consistency of obtained kinds" (make_kim ignores its `check` argument) *)
  Fixpoint final_stmts (T : skt) (L : tbl) (l : list stmt) : option exn :=
    match l with
    | [] => None
    | s :: r =>
        match s with
        | SAssign _ _ rhs _ =>
            match kmap C reg (sg T) L rhs with
            | Err e => Some e
            | Ok _ => final_stmts T L r
            end
        | SCall xs f args kwn =>
            match kcall C reg f (map (kmap C reg (sg T) L) args) kwn with
            | Err e => Some e
            | Ok _ =>
                match rlookup reg f with
                | None => Some FunctionNotFound
                | Some sg0 => if Nat.eqb (sig_nres sg0) (List.length xs) then final_stmts T L r
                              else Some ValueError
                end
            end
        | SOther => final_stmts T L r
        end
    end.

  Fixpoint final_check (T : skt) (D : program) : option exn :=
    match D with
    | [] => None
    | (ph, l) :: r =>
        match final_stmts T (local_of T ph) l with
        | Some e => Some e
        | None => final_check T r
        end
    end.

  Definition init_table : skt :=
    mkSkt [("<t>", Some (KScalar true)); ("<dt>", Some (KScalar true))] [] false 0 None.

  Definition apply_forced (forced : list (string * string * kind)) (T : skt) : skt :=
    fold_left (fun T f => match f with (ph, x, k) => tset C T ph x (Some k) end) forced T.

  (* every loop identifier of every Assign is set to Integer before the work list starts *)
  Definition apply_loops (D : program) (T : skt) : skt :=
    fold_left (fun T it => match snd it with
                           | SAssign _ _ _ loops => fold_left (fun T i => tset C T (fst it) i (Some KInt)) loops T
                           | _ => T
                           end) (items_of D) T.

  (* SymbolKindFinder.__call__(names, phases, forced_kinds) *)
  Definition infer (fo fi : nat) (D : program) (forced : list (string * string * kind)) : res skt :=
    let T0 := apply_loops D (apply_forced forced init_table) in
    match raised T0 with
    | Some e => Err e
    | None =>
        match outer fo fi D T0 with
        | Err e => Err e
        | Ok T => match final_check T D with
                  | Some e => Err e
                  | None => Ok T
                  end
        end
    end.
End Finder.

(* fuel that is always enough for the inner loop: every round either removes a statement or ends *)
Definition inner_fuel (D : program) : nat :=
  let n := List.length (items_of D) in (n + 2) * (n + 2).
Definition outer_fuel (D : program) : nat :=
  let n := List.length (items_of D) in 8 * (n + 4).

(* ------------------------------------------------------------------ value classes: what Python/numpy compute *)

Definition has_kind (c : vclass) (k : kind) : bool :=
  match k, c with
  | KBool, CBool => true
  | KInt, CInt => true
  | KScalar _, CInt | KScalar _, CReal => true
  | KScalar r, CComplex => negb r
  | KArray r, CArr r' => implb r r'
  | KUser i, CUser j => String.eqb i j
  | _, _ => false
  end.

Definition has_okind (c : vclass) (k : okind) : bool :=
  match k with Some k => has_kind c k | None => false end.

(* forall c, has_kind c a -> has_kind c b *)
Definition kind_le (a b : kind) : bool :=
  match a, b with
  | KBool, KBool => true
  | KInt, KInt => true
  | KInt, KScalar _ => true
  | KScalar r, KScalar s => implb s r
  | KArray r, KArray s => implb s r
  | KUser i, KUser j => String.eqb i j
  | _, _ => false
  end.

Definition srank (c : vclass) : option nat :=
  match c with
  | CBool => Some 0 | CInt => Some 1 | CReal => Some 2 | CComplex => Some 3
  | _ => None
  end.

Definition of_rank (n : nat) : vclass :=
  match n with 0 => CBool | 1 => CInt | 2 => CReal | _ => CComplex end.

Definition creal (c : vclass) : bool :=
  match c with CComplex => false | CArr r => r | _ => true end.

(* class of a (+|*|/) b; scalars are promoted to at least rank m (1: + and *, 2: /) *)
Definition cjoin (m : nat) (a b : vclass) : list vclass :=
  match a, b with
  | CNone, _ | _, CNone => []
  | CUser i, CUser j => if String.eqb i j then [CUser i] else []
  | CUser i, _ => [CUser i]
  | _, CUser j => [CUser j]
  | CArr r, _ => [CArr (r && creal b)]
  | _, CArr r => [CArr (creal a && r)]
  | _, _ => match srank a, srank b with
            | Some x, Some y => [of_rank (Nat.max m (Nat.max x y))]
            | _, _ => []
            end
  end.

(* a ** b: int ** negative int is a float; negative real ** fractional is complex *)
Definition cpow (a b : vclass) : list vclass :=
  match srank a, srank b with
  | Some x, Some y =>
      of_rank (Nat.max 1 (Nat.max x y))
      :: (if Nat.leb x 1 && Nat.eqb y 1 then [CReal] else [])
      ++ (if (Nat.eqb x 1 || Nat.eqb x 2) && Nat.eqb y 2 then [CComplex] else [])
  | _, _ => cjoin 1 a b
  end.

Definition ccmp (ordered : bool) (a b : vclass) : list vclass :=
  match a, b with
  | CUser i, CUser j => if String.eqb i j then [CUser i] else []
  | CNone, _ | _, CNone =>
      if ordered then []
      else match a, b with
           | CUser i, _ | _, CUser i => [CUser i]
           | CArr _, _ | _, CArr _ => [CArr true]
           | _, _ => [CBool]
           end
  | CUser i, _ => [CUser i]
  | _, CUser j => [CUser j]
  | CArr _, _ | _, CArr _ => [CArr true]
  | _, _ => [CBool]     (* Python complex raises on <, numpy complex scalars compare: both occur *)
  end.

(* a[i] *)
Definition csub (a i : vclass) : list vclass :=
  match i with
  | CInt =>
      match a with
      | CArr true => [CInt; CReal]
      | CArr false => [CComplex]
      | CUser _ => [CInt; CReal; CComplex]
      | _ => []
      end
  | CNone | CBool =>              (* numpy.newaxis / boolean mask on a scalar or array *)
      match a with
      | CBool | CInt | CReal => [CArr true]
      | CComplex => [CArr false]
      | CArr r => [CArr r]
      | CUser j => [CUser j]
      | CNone => []
      end
  | CArr true =>                  (* fancy indexing *)
      match a with
      | CArr r => [CArr r]
      | CUser j => [CUser j]
      | _ => []
      end
  | _ => []
  end.

Definition lift2 (f : vclass -> vclass -> list vclass) (xs ys : list vclass) : list vclass :=
  flat_map (fun a => flat_map (fun b => f a b) ys) xs.

Definition scalar_c (c : vclass) : bool :=
  match c with CBool | CInt | CReal | CComplex => true | _ => false end.

Definition classes_of_kind (k : kind) : list vclass :=
  match k with
  | KBool => [CBool]
  | KInt => [CInt]
  | KScalar true => [CInt; CReal]
  | KScalar false => [CInt; CReal; CComplex]
  | KArray true => [CArr true]
  | KArray false => [CArr true; CArr false]
  | KUser i => [CUser i]
  end.

(* all tuples with one component from each list *)
Fixpoint cartesian {A} (ls : list (list A)) : list (list A) :=
  match ls with
  | [] => [[]]
  | l :: r => flat_map (fun x => map (cons x) (cartesian r)) l
  end.

Definition arr_and (a b : vclass) : list vclass :=
  match a, b with
  | CNone, _ | _, CNone => []
  | _, _ => [CArr (creal a && creal b)]
  end.

Definition cols_ok (c : vclass) : bool :=
  match c with CBool | CInt | CReal => true | _ => false end.

(* dagrt/builtins_python.py on resolved argument classes: possible result tuples *)
Definition cresult (C : cfg) (s : fsig) (a : list vclass) : list (list vclass) :=
  match s, a with
  | FNorm, [x] =>
      match x with
      | CBool => [[CBool]; [CInt]]
      | CInt => [[CInt]]
      | CReal | CComplex | CArr _ | CUser _ => [[CReal]]
      | CNone => []
      end
  | FAbs, [x] =>
      match x with
      | CBool => [[CBool]] | CInt => [[CInt]] | CReal | CComplex => [[CReal]]
      | CArr _ => [[CArr true]]
      | CUser i => [[CUser i]]
      | CNone => []
      end
  | FDot, [x; y] =>
      match x, y with
      | CNone, _ | _, CNone => []
      | _, _ =>
          if scalar_c x && scalar_c y then
            match srank x, srank y with
            | Some p, Some q => [[of_rank (Nat.max p q)]]
            | _, _ => []
            end
          else if creal x && creal y then
                 match x, y with
                 | CUser _, _ | _, CUser _ => [[CInt]; [CReal]; [CComplex]]
                 | _, _ => [[CInt]; [CReal]]
                 end
               else [[CComplex]]
      end
  | FLen, [_] => [[CInt]]
  | FIsNan, [x] =>
      match x with
      | CNone => []
      | CArr _ => if isnan_any C then [[CBool]] else [[CArr true]]
      | CUser i => if isnan_any C then [[CBool]] else [[CUser i]]
      | _ => [[CBool]]
      end
  | FArray, [n] =>
      match n with CBool | CInt | CReal => [[CArr true]] | _ => [] end
  | FMatMul, [x; y; xc; yc] =>
      if cols_ok xc && cols_ok yc then
        match x, y with
        | CUser i, _ | _, CUser i => [[CUser i]]
        | _, _ => map (fun c => [c]) (arr_and x y)
        end
      else []
  | FLinSolve, [x; y; xc; yc] =>
      if cols_ok xc && cols_ok yc then
        match x, y with
        | _, CUser i => [[CUser i]]
        | CUser _, CNone => []
        | CUser _, _ => [[CArr true]; [CArr false]]
        | _, _ => map (fun c => [c]) (arr_and x y)
        end
      else []
  | FTranspose, [x; xc] =>
      if cols_ok xc then
        match x with
        | CNone => []
        | CUser i => [[CUser i]]
        | _ => [[CArr (creal x)]]
        end
      else []
  | FSvd, [x; xc] =>
      if cols_ok xc then
        match x with
        | CNone => []
        | CUser i => [[CUser i; CArr true; CUser i]]
        | _ => [[CArr (creal x); CArr true; CArr (creal x)]]
        end
      else []
  | FPrint, [_] => [[]]
  (* user-supplied functions: ASSUMED to return values of their registered kinds *)
  | FRhs out _ _, _ => [[CUser out]]
  | FFixed _ ks, _ => cartesian (map classes_of_kind ks)
  | _, _ => []
  end.

Definition ccall (C : cfg) (s : fsig) (vals : list vclass) (kwn : list string) : list (list vclass) :=
  match s with
  | FRhs _ _ _ | FFixed _ _ => cresult C s vals
  | _ => let (pos, kw) := split_args vals kwn in
         match resolve (sig_args s) pos kw with
         | None => []
         | Some a => cresult C s a
         end
  end.

Definition cstore := list (string * vclass).

Section Classes.
  Variable C : cfg.
  Variable reg : registry.
  Variable st : cstore.

  (* the classes the value of e can have; [] = evaluation raises *)
  Fixpoint ceval (e : expr) : list vclass :=
    match e with
    | EConst c => [c]
    | EVar x => match alookup st x with Some c => [c] | None => [CNone] end
    | ESum l => fold_left (lift2 (cjoin 1)) (map ceval l) [CInt]       (* sum(): 0 + a + b ... *)
    | EProd l => fold_left (lift2 (cjoin 1)) (map ceval l) [CInt]      (* pytools.product: 1 * a * b ... *)
    | EQuot a b => lift2 (cjoin 2) (ceval a) (ceval b)
    | EPow a b => lift2 cpow (ceval a) (ceval b)
    | ECmp o a b => lift2 (ccmp o) (ceval a) (ceval b)
    | EAnd _ | EOr _ | ENot _ => [CBool]                               (* all()/any()/not *)
    | EMin l | EMax l => List.concat (map ceval l)                          (* min()/max() return one argument *)
    | ESub a i => lift2 csub (ceval a) (ceval i)
    | ECall f args kwn =>
        match rlookup reg f with
        | None => []
        | Some s =>
            flat_map (fun vals =>
                        flat_map (fun r => match r with [c] => [c] | [] => [CNone] | _ => [] end) (ccall C s vals kwn))
                     (cartesian (map ceval args))
        end
    end.
End Classes.

Definition cremove (st : cstore) (xs : list string) : cstore :=
  fold_left (fun s x => aremove s x) xs st.

Definition cset (st : cstore) (x : string) (c : vclass) : cstore := (x, c) :: aremove st x.

Fixpoint cset_many (st : cstore) (xs : list string) (cs : list vclass) : cstore :=
  match xs, cs with
  | x :: xs', c :: cs' => cset_many (cset st x c) xs' cs'
  | _, _ => st
  end.

(* the stores one statement can produce (NumpyInterpreter.exec_Assign / exec_AssignFunctionCall);
   the unchanged store is always included: a guard may be false, a loop may run zero times *)
Definition cexec (C : cfg) (reg : registry) (st : cstore) (s : stmt) : list cstore :=
  st ::
  match s with
  | SAssign x has_sub rhs loops =>
      if has_sub then [cremove st loops]             (* stores into an element: class of x unchanged *)
      else
        let st1 := fold_left (fun s i => cset s i CInt) loops st in
        map (fun c => cremove (cset st1 x c) loops) (ceval C reg st1 rhs)
  | SCall xs f args kwn =>
      match rlookup reg f with
      | None => []
      | Some sg0 =>
          flat_map (fun vals =>
                      flat_map (fun r => if Nat.eqb (List.length r) (List.length xs) then [cset_many st xs r] else [])
                               (ccall C sg0 vals kwn))
                   (cartesian (map (ceval C reg st) args))
      end
  | SOther => []
  end.

Fixpoint evars (e : expr) : list string :=
  match e with
  | EConst _ => []
  | EVar x => [x]
  | ESum l | EProd l | EAnd l | EOr l | EMin l | EMax l => flat_map evars l
  | EQuot a b | EPow a b | ECmp _ a b | ESub a b => evars a ++ evars b
  | ENot a => evars a
  | ECall _ args _ => flat_map evars args
  end.

Definition in_store (st : cstore) (x : string) : bool :=
  match alookup st x with Some _ => true | None => false end.

(* every variable the statement reads holds a value (an unknown name evaluates to None in
   dagrt's EvaluationMapper; dagrt's verify_code / the dependency order exclude such reads) *)
Definition defined (st : cstore) (s : stmt) : bool :=
  match s with
  | SAssign _ _ rhs loops => forallb (in_store (fold_left (fun s i => cset s i CInt) loops st)) (evars rhs)
  | SCall _ _ args _ => forallb (in_store st) (flat_map evars args)
  | SOther => true
  end.

(* run_single_step's finally clause: only persistent names survive a step *)
Definition keep_persistent (keep : string -> bool) (st : cstore) : cstore :=
  filter (fun p => keep (fst p)) st.

(* executions: any statement of the current phase (the scheduler's order and the guards are
   not modelled: every order and every subset is allowed), or the end of the step followed
   by any phase *)
Inductive creach (C : cfg) (reg : registry) (D : program) (keep : string -> bool)
  : string -> cstore -> string -> cstore -> Prop :=
| cr_refl : forall ph st, creach C reg D keep ph st ph st
| cr_stmt : forall ph0 st0 ph st stmts s st',
    creach C reg D keep ph0 st0 ph st ->
    In (ph, stmts) D -> In s stmts -> defined st s = true -> In st' (cexec C reg st s) ->
    creach C reg D keep ph0 st0 ph st'
| cr_phase : forall ph0 st0 ph st ph',
    creach C reg D keep ph0 st0 ph st ->
    creach C reg D keep ph0 st0 ph' (keep_persistent keep st).

Definition store_ok (T : skt) (ph : string) (st : cstore) : Prop :=
  forall x c, alookup st x = Some c ->
    exists k, lookup T ph x = Some (Some k) /\ has_kind c k = true.

(* ------------------------------------------------------------------ the discipline under which the kinds are sound *)

Definition kind_of (r : res okind) : option kind :=
  match r with Ok (Some k) => Some k | _ => None end.

Definition scalar_kind (k : option kind) : bool :=
  match k with Some KInt | Some (KScalar _) => true | _ => false end.

Definition real_scalar_kind (k : option kind) : bool :=
  match k with Some KInt | Some (KScalar true) => true | _ => false end.

Section Strict.
  Variable C : cfg.
  Variable reg : registry.
  Variable G L : tbl.

  Definition nonbool_kind (k : option kind) : bool :=
    match k with Some KBool => false | Some _ => true | None => false end.

  (* numpy.isnan is elementwise on the unchanged tree: only a scalar argument gives one flag *)
  Definition sig_ok (s : fsig) (a : list okind) : bool :=
    match s with
    | FIsNan => isnan_any C || forallb is_scalar_k a
    | _ => true
    end.

  (* the function's own check=True argument test (plus the isnan restriction above) *)
  Definition result_kinds_strict (s : fsig) (a : list okind) : option (list kind) :=
    if sig_ok s a then result_kinds true s a else None.

  Definition call_ok (f : string) (args : list expr) (kwn : list string) : bool :=
    match rlookup reg f with
    | None => false
    | Some s =>
        match arg_kinds (map (kmap C reg G L) args) with
        | Ok aks => forallb (fun k => negb (is_none_k k)) aks &&
                    match call_kinds_gen result_kinds_strict s aks kwn with Some _ => true | None => false end
        | Err _ => false
        end
    end.

  (* operand discipline the mapper does not enforce (its `check` flag is hard-wired to False and
     does not cover comparisons, min/max, subscript indices, literals or int/int anyway) *)
  Fixpoint side_ok (e : expr) : bool :=
    match e with
    | EConst c => match c with CInt | CReal | CComplex => true | _ => false end
    | EVar x => match kmap C reg G L (EVar x) with Ok None => false | _ => true end
    | ESum l => forallb side_ok l && forallb (fun ch => nonbool_kind (kind_of (kmap C reg G L ch))) l
    | EProd l => negb (match l with [] => true | _ => false end) && forallb side_ok l &&
                 forallb (fun ch => nonbool_kind (kind_of (kmap C reg G L ch))) l
    | EQuot a b => side_ok a && side_ok b &&
                   negb (match kind_of (kmap C reg G L a), kind_of (kmap C reg G L b) with
                         | Some KInt, Some KInt => true | _, _ => false end)
    | EPow a b => pow_fix C && side_ok a && match b with EConst CInt => true | _ => false end
    | ECmp _ a b => side_ok a && side_ok b &&
                    scalar_kind (kind_of (kmap C reg G L a)) && scalar_kind (kind_of (kmap C reg G L b))
    | EAnd _ | EOr _ | ENot _ => true
    | EMin l | EMax l => forallb side_ok l &&
                         forallb (fun ch => real_scalar_kind (kind_of (kmap C reg G L ch))) l
    | ESub a i => side_ok a && side_ok i && scalar_kind (kind_of (kmap C reg G L i))
    | ECall f args kwn => forallb side_ok args && call_ok f args kwn
    end.
End Strict.

Definition entry_le (T : skt) (ph x : string) (k : kind) : bool :=
  match lookup T ph x with
  | Some (Some kx) => kind_le k kx
  | _ => false
  end.

Fixpoint entries_le (T : skt) (ph : string) (xs : list string) (ks : list kind) : bool :=
  match xs, ks with
  | [], [] => true
  | x :: xs', k :: ks' => entry_le T ph x k && entries_le T ph xs' ks'
  | _, _ => false
  end.

(* re-check of one statement against the FINAL table *)
Definition strict_stmt (C : cfg) (reg : registry) (T : skt) (ph : string) (s : stmt) : bool :=
  let G := sg T in
  let L := local_of T ph in
  match s with
  | SAssign x has_sub rhs loops =>
      has_sub ||
      (forallb (fun i => entry_le T ph i KInt) loops &&
       match kind_of (kmap C reg G L rhs) with
       | Some k => entry_le T ph x k
       | None => false
       end && side_ok C reg G L rhs)
  | SCall xs f args kwn =>
      match kcall C reg f (map (kmap C reg G L) args) kwn with
      | Ok ks => entries_le T ph xs ks
      | Err _ => false
      end && forallb (side_ok C reg G L) args && call_ok C reg G L f args kwn
  | SOther => true
  end.

Definition strict (C : cfg) (reg : registry) (D : program) (T : skt) : bool :=
  forallb (fun ps => forallb (strict_stmt C reg T (fst ps)) (snd ps)) D.

(* ------------------------------------------------------------------ well-formedness, assigned variables *)

Definition is_nil {A} (l : list A) : bool := match l with [] => true | _ => false end.

(* what pymbolic can hand over: a product has at least one factor *)
Fixpoint wf_expr (e : expr) : bool :=
  match e with
  | EConst _ | EVar _ => true
  | EProd l => negb (is_nil l) && forallb wf_expr l
  | ESum l | EAnd l | EOr l | EMin l | EMax l => forallb wf_expr l
  | EQuot a b | EPow a b | ECmp _ a b | ESub a b => wf_expr a && wf_expr b
  | ENot a => wf_expr a
  | ECall _ args _ => forallb wf_expr args
  end.

Definition wf_stmt (s : stmt) : bool :=
  match s with
  | SAssign _ _ rhs _ => wf_expr rhs
  | SCall _ _ args _ => forallb wf_expr args
  | SOther => true
  end.

Definition wf_program (D : program) : bool := forallb (fun ps => forallb wf_stmt (snd ps)) D.

(* the variables a statement assigns as a whole (an element store `a[i] <- e` does not count) *)
Definition assigns (s : stmt) (x : string) : Prop :=
  match s with
  | SAssign y false _ _ => y = x
  | SCall xs _ _ _ => In x xs
  | _ => False
  end.

(* ------------------------------------------------------------------ side conditions of the soundness theorem *)

(* a variable whose entry is an array or a user type is not also assigned a scalar (unify lets the
   aggregate kind win, so the scalar value would not inhabit the entry) *)
Definition agg_ok (T : skt) (ph x : string) (k : kind) : bool :=
  match lookup T ph x with
  | Some (Some (KArray _)) | Some (Some (KUser _)) => negb (scalar_kind (Some k))
  | _ => true
  end.

Fixpoint aggs_ok (T : skt) (ph : string) (xs : list string) (ks : list kind) : bool :=
  match xs, ks with
  | x :: xs', k :: ks' => agg_ok T ph x k && aggs_ok T ph xs' ks'
  | _, _ => true
  end.

Definition sides_stmt (C : cfg) (reg : registry) (T : skt) (ph : string) (s : stmt) : bool :=
  let G := sg T in
  let L := local_of T ph in
  match s with
  | SAssign x has_sub rhs loops =>
      has_sub ||
      (forallb (fun i => agg_ok T ph i KInt) loops &&
       match kind_of (kmap C reg G L rhs) with
       | Some k => agg_ok T ph x k
       | None => false
       end && side_ok C reg G L rhs)
  | SCall xs f args kwn =>
      match kcall C reg f (map (kmap C reg G L) args) kwn with
      | Ok ks => aggs_ok T ph xs ks
      | Err _ => false
      end && forallb (side_ok C reg G L) args && call_ok C reg G L f args kwn
  | SOther => true
  end.

(* the operand discipline (side_ok, call_ok) for every statement under the FINAL table, and no scalar
   assigned to a variable that also holds an array / user-type value *)
Definition sides (C : cfg) (reg : registry) (D : program) (T : skt) : bool :=
  forallb (fun ps => forallb (sides_stmt C reg T (fst ps)) (snd ps)) D.

(* the interpreter's own persistence test (run_single_step) *)
Definition keep_of (exact prefixes : list string) (x : string) : bool :=
  existsb (String.eqb x) exact || existsb (fun p => String.prefix p x) prefixes.
