(* Decidable side conditions and syntactic measures used by the C07 theorems
   (proofs/Transform*.v) and evaluated by the correspondence check on every case.
   Definitions only (no proofs). *)
From Coq Require Import List ZArith NArith String Ascii Bool Arith.
Import ListNotations.
From Dagrt Require Import Lang Sched Transform TransformSem.

(* and / or evaluate their later operands only when needed *)
Definition is_lazy (o : nop) : bool := match o with NAnd | NOr => true | _ => false end.

(* every variable a statement kind mentions *)
Definition kvars (k : skind) : list var :=
  match k with
  | KAssign x sub rhs loops =>
      x :: match sub with Some ie => vars ie | None => [] end ++ vars rhs
        ++ flat_map (fun l => fst (fst l) :: vars (snd (fst l)) ++ vars (snd l)) loops
  | KCall xs _ args kw => xs ++ flat_map vars args ++ flat_map vars (map snd kw)
  | KYield _ _ time e => vars e ++ vars time
  | _ => []
  end.
Definition svars (s : tstmt) : list var := vars (tcond s) ++ kvars (tkd s).

Definition loopfree (k : skind) : bool :=
  match k with KAssign _ _ _ (_ :: _) => false | _ => true end.


(* ------------------------------------------------------------------------------------ *)
(* syntactic side conditions                                                              *)

(* every call carries one value per keyword *)
Fixpoint arity_ok (e : expr) : bool :=
  match e with
  | ENot a => arity_ok a
  | EIf c t f => arity_ok c && arity_ok t && arity_ok f
  | EBin _ a b => arity_ok a && arity_ok b
  | ENary o l =>
      forallb arity_ok l &&
      match o with NCall _ kw => (List.length kw <=? List.length l)%nat | _ => true end
  | _ => true
  end.

Fixpoint sorted_keys (l : list string) : bool :=
  match l with
  | a :: (b :: _) as r => String.leb a b && sorted_keys r
  | _ => true
  end.

(* keyword arguments are written in sorted order (so sorted(kw.items()) changes nothing) *)
Fixpoint kw_sorted (e : expr) : bool :=
  match e with
  | ENot a => kw_sorted a
  | EIf c t f => kw_sorted c && kw_sorted t && kw_sorted f
  | EBin _ a b => kw_sorted a && kw_sorted b
  | ENary o l =>
      forallb kw_sorted l && match o with NCall _ kw => sorted_keys kw | _ => true end
  | _ => true
  end.

Definition is_var (e : expr) : bool := match e with EVar _ => true | _ => false end.

(* the argument isolator leaves e alone: every call has variables as arguments *)
Fixpoint fai_clean (e : expr) : bool :=
  match e with
  | ENot a => fai_clean a
  | EIf c t f => fai_clean c && fai_clean t && fai_clean f
  | EBin _ a b => fai_clean a && fai_clean b
  | ENary o l =>
      forallb fai_clean l && match o with NCall _ _ => forallb is_var l | _ => true end
  | _ => true
  end.

(* generic: nothing that `clean` rejects occurs in a conditionally evaluated position
   (branch of a conditional expression, later operand of and/or) *)
Section Ok.
  Variable clean : expr -> bool.
  Variable if_branches_lazy : bool.     (* false for the expander, which guards the branches *)
  Fixpoint strict_ok (e : expr) : bool :=
    match e with
    | ENot a => strict_ok a
    | EIf c t f =>
        strict_ok c && (if if_branches_lazy then clean t && clean f else strict_ok t && strict_ok f)
    | EBin _ a b => strict_ok a && strict_ok b
    | ENary o l =>
        if is_lazy o
        then match l with [] => true | a :: r => strict_ok a && forallb clean r end
        else forallb strict_ok l
    | _ => true
    end.
End Ok.

Fixpoint has_if (e : expr) : bool :=
  match e with
  | ENot a => has_if a
  | EIf _ _ _ => true
  | EBin _ a b => has_if a || has_if b
  | ENary _ l => existsb has_if l
  | _ => false
  end.

Definition fai_ok : expr -> bool := strict_ok fai_clean true.
Definition fci_ok : expr -> bool := strict_ok (fun e => negb (has_call e)) true.
Definition ite_ok : expr -> bool := strict_ok (fun e => negb (has_if e)) false.


(* function symbols of an expression / a statement kind *)
Fixpoint fnames (e : expr) : list string :=
  match e with
  | ENot a => fnames a
  | EIf c t f => fnames c ++ fnames t ++ fnames f
  | EBin _ a b => fnames a ++ fnames b
  | ENary o l => match o with NCall f _ => [f] | _ => [] end ++ flat_map fnames l
  | _ => []
  end.
Definition kfnames (k : skind) : list string :=
  match k with
  | KAssign _ sub rhs _ => match sub with Some ie => fnames ie | None => [] end ++ fnames rhs
  | KCall _ f args kw => f :: flat_map fnames args ++ flat_map fnames (map snd kw)
  | KYield _ _ time e => fnames e ++ fnames time
  | _ => []
  end.


(* the expressions map_expressions hands to the mapper *)
Definition kexprs (k : skind) : list expr :=
  match k with
  | KAssign _ sub rhs loops =>
      match sub with Some ie => [ie] | None => [] end ++ [rhs] ++ flat_map (fun l => [snd (fst l); snd l]) loops
  | KCall _ _ args kw => args ++ map snd kw
  | KYield _ _ time e => [e; time]
  | _ => []
  end.

(* side conditions per pass, decidable on the leaf *)
Definition base_leaf (s : tstmt) : bool := negb (has_call (tcond s)) && loopfree (tkd s).

Definition sd_leaf (s : tstmt) : bool :=
  base_leaf s && forallb (fun f => negb (smem f (kind_writes (tkd s)))) (kfnames (tkd s)).

Definition fai_leaf (s : tstmt) : bool :=
  base_leaf s
  && forallb (fun e => fai_ok e && kw_sorted e && arity_ok e) (kexprs (tkd s))
  && match tkd s with KCall _ _ _ kw => sorted_keys (map fst kw) | _ => true end.

Definition fci_leaf (s : tstmt) : bool :=
  base_leaf s
  && match tkd s with
     | KAssign _ _ _ _ => forallb (fun e => fci_ok e && arity_ok e) (kexprs (tkd s))
     | _ => true
     end.

Definition ite_leaf (s : tstmt) : bool := base_leaf s && forallb ite_ok (kexprs (tkd s)).


(* every variable a tree mentions: statements, guards, loop counters, loop bounds *)
Fixpoint tvars (t : tree) : list var :=
  match t with
  | TLeaf s => svars s
  | TNull => []
  | TBlock l => flat_map tvars l
  | TIf c t => vars c ++ tvars t
  | TIfElse c t e => vars c ++ tvars t ++ tvars e
  | TFor x lo hi b => x :: vars lo ++ vars hi ++ tvars b
  end.

(* the statements of a tree, in order (NullASTNode contributes none) *)
Fixpoint tstmts (t : tree) : list tstmt :=
  match t with
  | TLeaf s => [s]
  | TNull => []
  | TBlock l => flat_map tstmts l
  | TIf _ t => tstmts t
  | TIfElse _ t e => tstmts t ++ tstmts e
  | TFor _ _ _ b => tstmts b
  end.

