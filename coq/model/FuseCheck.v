(* Boolean comparison functions for the C16 correspondence check
   (real dagrt.transform.fuse_two_dags / NumpyInterpreter vs model/Fuse.v).  Definitions only. *)
From Coq Require Import List ZArith String Bool Arith.
Import ListNotations.
From Dagrt Require Import Lang TestOracle LangCheck Builder Sched SchedCheck Fuse.

Definition str_set_eqb (a b : list string) : bool :=
  forallb (fun x => Fuse.mem x b) a && forallb (fun x => Fuse.mem x a) b.

Definition fstmt_eqb (a b : fstmt) : bool :=
  String.eqb (fid a) (fid b) && str_set_eqb (fdeps a) (fdeps b)
  && expr_eqb (fcond a) (fcond b) && skind_eqb (fkd a) (fkd b).

Definition fphase_eqb (a b : fphase) : bool :=
  String.eqb (ph_name a) (ph_name b) && String.eqb (ph_next a) (ph_next b)
  && list_eqb fstmt_eqb (ph_stmts a) (ph_stmts b).

Definition fdag_eqb (a b : fdag) : bool :=
  String.eqb (d_init a) (d_init b)
  && list_eqb (fun p q => String.eqb (fst p) (fst q) && fphase_eqb (snd p) (snd q)) (d_phases a) (d_phases b).

(* what the implementation did: the fused DAG, or the exception class (ValueError with the kind of message) *)
Inductive xfuse :=
| XDag (d : fdag)
| XValueError (tag : string)      (* "next:<phase>", "init", "none", "both" *)
| XKeyError.

Definition verr_tag (w : verr) : string :=
  match w with
  | VNextPhase p => ("next:" ++ p)%string
  | VBothNone => "both"%string
  | VForeignNone => "none"%string
  | VInitialPhase => "init"%string
  end.

Definition fuse_matches (r : fres fdag) (x : xfuse) : bool :=
  match r, x with
  | FOk d, XDag d' => fdag_eqb d d'
  | FValueError w, XValueError t => String.eqb (verr_tag w) t
  | FKeyError _, XKeyError => true
  | _, _ => false
  end.

Fixpoint nodupb (l : list string) : bool :=
  match l with [] => true | x :: r => negb (Fuse.mem x r) && nodupb r end.

(* one run of a fused phase: the statements in the order in which the real ExecutionController
   executed them (by position in the fused phase), the store before, the values of `univ` after *)
Record run16 := { r_phase : string; r_order : list nat; r_store : store; r_univ : list var; r_res : xres }.

Record case16 := {
  k_pred : option (var -> bool);
  k_porder : list string;
  k_clashes : list (string * list var);
  k_d1 : fdag; k_d2 : fdag;
  k_out : xfuse;
  k_runs : list run16 }.

Section Chk.
  Variables del_guarded lhs_sub_reads loop_bound_reads : bool.
  Variable is_state : var -> bool.
  Variables sw_thread sw_pred sw_guard sw_loopv : bool.

  Definition model_fuse (c : case16) : fres fdag :=
    fuse_two_dags lhs_sub_reads loop_bound_reads is_state sw_thread sw_pred sw_guard sw_loopv
                  (k_pred c) (k_porder c) (k_clashes c) (k_d1 c) (k_d2 c).

  (* the recorded clash order of every phase present in both DAGs enumerates id_a & id_b *)
  Definition clash_ok (c : case16) : bool :=
    forallb (fun kp =>
               match pget (fst kp) (d_phases (k_d2 c)) with
               | None => true
               | Some p2 =>
                   let ida := idents lhs_sub_reads loop_bound_reads (ph_stmts (snd kp)) in
                   let idb := idents lhs_sub_reads loop_bound_reads (ph_stmts p2) in
                   let o := oget (fst kp) (k_clashes c) in
                   nodupb o && str_set_eqb o (filter (fun x => Fuse.mem x idb) ida)
               end) (d_phases (k_d1 c)).

  Definition run_ok (d : fdag) (r : run16) : bool :=
    match pget (r_phase r) (d_phases d) with
    | None => false
    | Some ph =>
        res_matches (r_univ r)
                    (run_ids test_F del_guarded (map lower (ph_stmts ph)) (r_order r) (RRun (r_store r) []))
                    (r_res r)
    end.

  Definition chk16 (c : case16) : bool :=
    let r := model_fuse c in
    clash_ok c && fuse_matches r (k_out c)
    && match r with FOk d => forallb (run_ok d) (k_runs c) | _ => true end.
End Chk.
