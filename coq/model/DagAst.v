(* Model of dagrt/codegen/dag_ast.py:277-350 (statement_to_ast, conditional_to_ast,
   loop_to_ast_node, create_ast_from_phase), of ExecutionPhase.depends_on
   (dagrt/language.py:795-802) which supplies the roots, and of the generic walker
   StructuredCodeGenerator.lower_node (dagrt/codegen/codegen_base.py:40-70).
   Definitions only (no proofs).  See design/C05.md.

   Representation decisions (each is tied by the correspondence check, harness/c05.py):
   * statement ids are `nat`: the rank of the id string in Python's `sorted` order of all
     ids mentioned by the phase, so that `<` on nat IS Python's string order on the ids;
   * a guard is a `Simplify.cond` (CTrue = the Python constant True, CFalse = False,
     CAtom n = the n-th distinct other guard expression, CNot = pymbolic LogicalNot);
   * a loop (variable, lower, upper) is a `nat` naming the triple (as in Simplify.For);
   * Python's stack (a list whose top is its END) is a Coq list whose top is its HEAD, so
     `stack.extend(l)` is `rev l ++ stack`;
   * `visiting`/`visited` (Python sets, only tested for membership) are lists.

   Shape switches: `skip_false` is a parameter of `main_block`/`lower`.  The second switch,
   `guard_outside` (repair of C01's finding: guard around the loop nest instead of inside it), is an
   explicit parameter of `wrap_g`; `wrap` - and through it `main_block`, `lower` - reads it from
   coq/gen/GenC05.v (`lower_guard_outside`), so that the signatures other developments use
   (proofs/Bridge.v, model/Determ.v, props/C01.v, props/C15.v, harness headers) stay as they were.
   Every lemma of proofs/DagAstProofs.v about `wrap` is proved for `wrap_g go` with `go` universally
   quantified and then instantiated, never by looking at the value of the generated constant. *)
From Coq Require Import List Arith Bool Relations.
Import ListNotations.
From Dagrt Require Import GenC05 Simplify.
Local Open Scope list_scope.

Record stmt := mkStmt {
  sid : nat;            (* statement.id *)
  sdeps : list nat;     (* statement.depends_on (a frozenset), in iteration order *)
  sguard : cond;        (* statement.condition *)
  sloops : list nat;    (* Assign.loops, outermost first; [] for every other statement class *)
  snop : bool           (* isinstance(statement, Nop) *)
}.

Definition mem (x : nat) (l : list nat) : bool := existsb (Nat.eqb x) l.

(* ---- sorted(<set>) : insertion sort that drops duplicates ---- *)
Fixpoint insert (x : nat) (l : list nat) : list nat :=
  match l with
  | [] => [x]
  | y :: r => if x <? y then x :: l else if x =? y then l else y :: insert x r
  end.
Definition sorted_set (l : list nat) : list nat := fold_right insert [] l.

(* ---- statement_map = {inst.id: inst for inst in phase.statements}; a later entry wins ---- *)
Fixpoint lookup (stmts : list stmt) (i : nat) : option stmt :=
  match stmts with
  | [] => None
  | s :: r => match lookup r i with
              | Some s' => Some s'
              | None => if sid s =? i then Some s else None
              end
  end.

(* ---- ExecutionPhase.depends_on: ids nobody depends on ---- *)
Definition all_deps (stmts : list stmt) : list nat := flat_map sdeps stmts.
Definition roots (stmts : list stmt) : list nat :=
  sorted_set (filter (fun i => negb (mem i (all_deps stmts))) (map sid stmts)).

Inductive lres (A : Type) :=
| LOk (a : A)
| LKeyError (k : nat)      (* statement_map[k] *)
| LIndexError              (* from simplify_ast (only with the unrepaired C06 shape) *)
| LOutOfFuel.
Arguments LOk {A}. Arguments LKeyError {A}. Arguments LIndexError {A}. Arguments LOutOfFuel {A}.

Definition lbind {A B} (r : lres A) (f : A -> lres B) : lres B :=
  match r with
  | LOk a => f a
  | LKeyError k => LKeyError k
  | LIndexError => LIndexError
  | LOutOfFuel => LOutOfFuel
  end.

(* ---- the `while stack:` loop of create_ast_from_phase ---- *)
Fixpoint topo (stmts : list stmt) (fuel : nat) (stack visiting visited order : list nat)
  : lres (list nat) :=
  match fuel with
  | 0 => LOutOfFuel
  | S f =>
    match stack with
    | [] => LOk order
    | s :: rest =>                                   (* statement = stack[-1] *)
      if mem s visited then
        if mem s visiting
        then topo stmts f rest (remove Nat.eq_dec s visiting) visited (order ++ [s])
        else topo stmts f rest visiting visited order
      else
        match lookup stmts s with
        | None => LKeyError s
        | Some st =>
            topo stmts f (rev (sorted_set (sdeps st)) ++ stack) (s :: visiting) (s :: visited) order
        end
    end
  end.

(* enough for every phase (proofs/DagAstProofs.v: topo_fuel_adequate) *)
Definition topo_fuel (stmts : list stmt) : nat :=
  S (length (roots stmts) + fold_right (fun st n => S (length (sdeps st)) + n) 0 stmts).

Definition topo_order (stmts : list stmt) : lres (list nat) :=
  topo stmts (topo_fuel stmts) (rev (roots stmts)) [] [] [].

(* ---- per-statement wrapping ---- *)
(* conditional_to_ast: `condition is not True` -> IfThenElse(c, stmt[c:=True], Null) *)
Definition guard_node (st : stmt) : ast :=
  match sguard st with
  | CTrue => Leaf (sid st)
  | c => IfTE c (Leaf (sid st)) Null
  end.
(* loop_to_ast_node: loops outermost (loops[0] first), then the guard *)
(* Two recognised shapes (harness/tr/c05.py):
   guard_outside = false: loop_to_ast_node = loops around conditional_to_ast(statement)
                          ForLoop(.., ForLoop(.., IfThenElse(c, stmt, Null)))
   guard_outside = true : loop_to_ast_node = IfThenElse(c, loops_to_ast(stmt[c:=True]), Null) when the
                          condition is not True, loops_to_ast(stmt) otherwise
                          (fixes/C01_guard_outside_loops.patch) *)
Definition wrap_g (guard_outside : bool) (st : stmt) : ast :=
  if guard_outside
  then match sguard st with
       | CTrue => fold_right For (Leaf (sid st)) (sloops st)
       | c => IfTE c (fold_right For (Leaf (sid st)) (sloops st)) Null
       end
  else fold_right For (guard_node st) (sloops st).
Definition wrap (st : stmt) : ast := wrap_g lower_guard_outside st.

Definition is_cfalse (c : cond) : bool := match c with CFalse => true | _ => false end.

Section Lower.
  (* simplify_ast's shape switches (coq/gen/GenC06.v) *)
  Variable rev_expand : bool.
  Variable guard_empty : bool.
  (* shape switch (coq/gen/GenC05.v): true <-> the main loop also has
     `if statement.condition is False: continue` (fixes/C05_false_guard_loop.patch) *)
  Variable skip_false : bool.

  (* the `for top_order_id in topological_order:` loop *)
  Fixpoint main_block (stmts : list stmt) (order : list nat) : lres (list ast) :=
    match order with
    | [] => LOk []
    | i :: r =>
      match lookup stmts i with
      | None => LKeyError i
      | Some st =>
          lbind (main_block stmts r) (fun l =>
            LOk (if snop st then l
                 else if skip_false && is_cfalse (sguard st) then l
                 else wrap st :: l))
      end
    end.

  Definition lower (stmts : list stmt) : lres ast :=
    lbind (topo_order stmts) (fun order =>
    lbind (main_block stmts order) (fun l =>
      match simplify rev_expand guard_empty (Block l) with
      | Ok t => LOk t
      | IndexError => LIndexError
      | OutOfFuel => LOutOfFuel
      end)).
End Lower.

(* ---- observable: guarded trace whose elements carry the enclosing loop nest ---- *)
Fixpoint ltrace (v : nat -> bool) (trips : nat -> nat) (nest : list nat) (t : ast)
  : list (nat * list nat) :=
  match t with
  | Leaf n => [(n, nest)]
  | Null => []
  | Block l => flat_map (ltrace v trips nest) l
  | IfT c t => if evalc v c then ltrace v trips nest t else []
  | IfTE c t e => if evalc v c then ltrace v trips nest t else ltrace v trips nest e
  | For x b => repeat_app (trips x) (ltrace v trips (nest ++ [x]) b)
  end.

(* what one statement is required to do: run inside its declared loops *)
Definition nest_rep {A} (trips : nat -> nat) (loops : list nat) (l : list A) : list A :=
  fold_right (fun x acc => repeat_app (trips x) acc) l loops.
Definition runs (v : nat -> bool) (st : stmt) : bool := negb (snop st) && evalc v (sguard st).
Definition stmt_trace (trips : nat -> nat) (st : stmt) : list (nat * list nat) :=
  nest_rep trips (sloops st) [(sid st, sloops st)].

(* ---- specification vocabulary: well-formed phases (C10's accepted predicate) ---- *)
(* a depends on b *)
Definition edge (stmts : list stmt) (a b : nat) : Prop :=
  exists st, lookup stmts a = Some st /\ In b (sdeps st).
Definition acyclic (stmts : list stmt) : Prop := forall x, ~ clos_trans nat (edge stmts) x x.
(* dependencies stay inside the phase *)
Definition closed (stmts : list stmt) : Prop :=
  forall st d, In st stmts -> In d (sdeps st) -> In d (map sid stmts).
Record phase_wf (stmts : list stmt) : Prop := {
  wf_unique : NoDup (map sid stmts);                       (* ids are unique *)
  wf_closed : closed stmts;
  wf_acyclic : acyclic stmts }.
(* a looped statement is not guarded by the literal constant False *)
Definition no_false_loop (st : stmt) : Prop := sloops st <> [] -> sguard st <> CFalse.
(* every statement comes after everything it depends on *)
Definition respects_deps (sts : list stmt) : Prop :=
  forall l1 st l2, sts = l1 ++ st :: l2 -> incl (sdeps st) (map sid l1).

(* ---- StructuredCodeGenerator.lower_node: the emit_* callback sequence ---- *)
Inductive event :=
| EInst (n : nat)                 (* lower_inst(statement) *)
| EIfBegin (c : cond) | EElse | EIfEnd
| EForBegin (x : nat) | EForEnd (x : nat).

Inductive wres := WOk (l : list event) | WValueError.   (* "Unrecognized node type" *)

Definition wapp (a b : wres) : wres :=
  match a, b with
  | WOk x, WOk y => WOk (x ++ y)
  | _, _ => WValueError
  end.

Fixpoint walk (t : ast) : wres :=
  match t with
  | Leaf n => WOk [EInst n]
  | IfT c t => wapp (WOk [EIfBegin c]) (wapp (walk t) (WOk [EIfEnd]))
  | IfTE c t e =>
      wapp (WOk [EIfBegin c]) (wapp (walk t) (wapp (WOk [EElse]) (wapp (walk e) (WOk [EIfEnd]))))
  | For x b => wapp (WOk [EForBegin x]) (wapp (walk b) (WOk [EForEnd x]))
  | Block l => fold_right (fun c r => wapp (walk c) r) (WOk []) l
  | Null => WValueError
  end.

(* ---- decidable equalities used by the correspondence check ---- *)
Definition event_eqb (a b : event) : bool :=
  match a, b with
  | EInst n, EInst m => n =? m
  | EIfBegin c, EIfBegin d => cond_eqb c d
  | EElse, EElse => true
  | EIfEnd, EIfEnd => true
  | EForBegin x, EForBegin y => x =? y
  | EForEnd x, EForEnd y => x =? y
  | _, _ => false
  end.
Fixpoint events_eqb (a b : list event) : bool :=
  match a, b with
  | [], [] => true
  | x :: a', y :: b' => event_eqb x y && events_eqb a' b'
  | _, _ => false
  end.
