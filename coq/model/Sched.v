(* Executing the statements of a phase in a given order (any schedule):
   the state machine shared by C02 / C01 / C11.  Definitions only. *)
From Coq Require Import List ZArith String Bool Arith.
Import ListNotations.
From Dagrt Require Import Lang.

Inductive stop := StFail | StSwitch (p : string) | StRaise (k : string).

Inductive rstate :=
| RRun (s : store) (evs : list event)
| RStop (s : store) (evs : list event) (w : stop)     (* fail_step / switch_phase / raise_ reached *)
| RCrash (user : bool) (evs : list event).            (* a Python exception escaped (user = from a user function) *)

Section Sched.
  Variable F : string -> list val -> list (string * val) -> option (list val).
  Variable g : bool.

  Definition step (st : stmt) (S : rstate) : rstate :=
    match S with
    | RRun s evs =>
        match snd (exec_stmt F g s st) with
        | ONext s' ev => RRun s' (evs ++ match ev with Some e => [e] | None => [] end)
        | OFail => RStop s evs StFail
        | OSwitch p => RStop s evs (StSwitch p)
        | ORaise k => RStop s evs (StRaise k)
        | OUserExn => RCrash true evs
        | OCrash => RCrash false evs
        end
    | _ => S
    end.

  Definition run_list (l : list stmt) (S : rstate) : rstate := fold_left (fun S st => step st S) l S.

  (* a schedule given as statement ids (positions in stmts) *)
  Definition step_id (stmts : list stmt) (i : nat) (S : rstate) : rstate :=
    match nth_error stmts i with Some st => step st S | None => RCrash false [] end.
  Definition run_ids (stmts : list stmt) (ids : list nat) (S : rstate) : rstate :=
    fold_left (fun S i => step_id stmts i S) ids S.
End Sched.

(* extensional equality of run states *)
Definition req (a b : rstate) : Prop :=
  match a, b with
  | RRun s e, RRun s' e' => (forall x, s x = s' x) /\ e = e'
  | RStop s e w, RStop s' e' w' => (forall x, s x = s' x) /\ e = e' /\ w = w'
  | RCrash u e, RCrash u' e' => e = e'   (* which exception escapes first may depend on the schedule *)
  | _, _ => False
  end.
