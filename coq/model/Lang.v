(* Core model of dagrt's statement language and of what the NumPy interpreter
   does with one statement (dagrt/language.py statement classes, dagrt/exec_numpy.py
   exec_*, dagrt/expression.py EvaluationMapper, pymbolic's EvaluationMapper and
   DependencyMapper).  Definitions only.  Used by C08, C02, C01, C11. *)
From Coq Require Import List ZArith String Bool Arith.
Import ListNotations.
Open Scope Z_scope.

Definition var := string.

Inductive cmpop := CLt | CLe | CGt | CGe | CEq | CNe.
(* n-ary pymbolic nodes; NCall f kw: positional parameters followed by one
   value per keyword name in kw (CallWithKwargs / Call) *)
Inductive nop := NSum | NProd | NMin | NMax | NAnd | NOr | NCall (f : string) (kw : list string).
Inductive bop := BFloorDiv | BRem | BCmp (o : cmpop) | BSub.

Inductive expr :=
| EInt (z : Z) | EBool (b : bool) | ENone
| EVar (x : var)
| ENot (a : expr)
| EIf (c t e : expr)
| EBin (o : bop) (a b : expr)
| ENary (o : nop) (l : list expr).

Inductive val := VInt (z : Z) | VBool (b : bool) | VNone | VArr (l : list Z).

Definition store := var -> option val.
Definition upd (s : store) (x : var) (v : val) : store :=
  fun y => if String.eqb y x then Some v else s y.
Definition del (s : store) (x : var) : store :=
  fun y => if String.eqb y x then None else s y.
Definition empty : store := fun _ => None.

Definition obind {A B} (o : option A) (f : A -> option B) : option B :=
  match o with Some a => f a | None => None end.

(* result of an evaluation: a value, or a Python exception (user = raised by a
   user-supplied function, otherwise TypeError/KeyError/IndexError/...) *)
Inductive rs (A : Type) := Ok (a : A) | Err (user : bool).
Arguments Ok {A}. Arguments Err {A}.
Definition lift {A} (o : option A) : rs A := match o with Some a => Ok a | None => Err false end.
Definition rbind {A B} (r : rs A) (f : A -> rs B) : rs B :=
  match r with Ok a => f a | Err u => Err u end.
Definition rmap {A B} (f : A -> B) (r : rs A) : rs B :=
  match r with Ok a => Ok (f a) | Err u => Err u end.

(* ---- Python value conventions (ints, bools as ints, None, int arrays) ---- *)
Definition as_int (v : val) : option Z :=
  match v with VInt z => Some z | VBool b => Some (if b then 1 else 0) | _ => None end.
Definition truth (v : val) : option bool :=
  match v with
  | VInt z => Some (negb (z =? 0)) | VBool b => Some b | VNone => Some false
  | VArr _ => None          (* truth value of an array: ValueError *)
  end.

Fixpoint as_ints (vs : list val) : option (list Z) :=
  match vs with
  | [] => Some []
  | v :: r => obind (as_int v) (fun z => option_map (cons z) (as_ints r))
  end.

(* min(...)/max(...): the first extremal element is returned, as an object *)
Fixpoint pick_ext (lt : Z -> Z -> bool) (best : val) (bz : Z) (vs : list val) : option val :=
  match vs with
  | [] => Some best
  | v :: r => obind (as_int v) (fun z => if lt z bz then pick_ext lt v z r else pick_ext lt best bz r)
  end.
Definition ext (lt : Z -> Z -> bool) (vs : list val) : option val :=
  match vs with
  | [] => None
  | v :: r => obind (as_int v) (fun z => pick_ext lt v z r)
  end.

Definition cmp_int (o : cmpop) (a b : Z) : bool :=
  match o with
  | CLt => a <? b | CLe => a <=? b | CGt => b <? a | CGe => b <=? a
  | CEq => a =? b | CNe => negb (a =? b)
  end.
Definition cmp_val (o : cmpop) (a b : val) : option val :=
  match as_int a, as_int b with
  | Some x, Some y => Some (VBool (cmp_int o x y))
  | _, _ =>
    match o, a, b with
    | CEq, VNone, VNone => Some (VBool true)
    | CNe, VNone, VNone => Some (VBool false)
    | CEq, VArr _, _ | CEq, _, VArr _ | CNe, VArr _, _ | CNe, _, VArr _ => None
    | CEq, _, _ => Some (VBool false)
    | CNe, _, _ => Some (VBool true)
    | _, _, _ => None                (* ordering None / arrays: TypeError *)
    end
  end.

(* Python indexing with wrap-around of negative indices *)
Definition norm_index (len i : Z) : option nat :=
  if (0 <=? i) && (i <? len) then Some (Z.to_nat i)
  else if (i <? 0) && (- len <=? i) then Some (Z.to_nat (len + i))
  else None.

Definition binop (o : bop) (a b : val) : option val :=
  match o with
  | BFloorDiv => match as_int a, as_int b with
                 | Some x, Some y => if y =? 0 then None else Some (VInt (x / y))
                 | _, _ => None end
  | BRem => match as_int a, as_int b with
            | Some x, Some y => if y =? 0 then None else Some (VInt (x mod y))
            | _, _ => None end
  | BCmp c => cmp_val c a b
  | BSub => match a, b with
            | VArr l, VInt i => obind (norm_index (Z.of_nat (List.length l)) i)
                                      (fun n => option_map VInt (nth_error l n))
            | _, _ => None end
  end.

Fixpoint split_at {A} (n : nat) (l : list A) : list A * list A :=
  match n, l with
  | O, _ => ([], l)
  | S k, [] => ([], [])
  | S k, x :: r => let (a, b) := split_at k r in (x :: a, b)
  end.

Section Sem.
  (* user-supplied and built-in functions: None = the function raises *)
  Variable F : string -> list val -> list (string * val) -> option (list val).

  Definition call1 (f : string) (kw : list string) (vs : list val) : rs val :=
    let (pos, kws) := split_at (List.length vs - List.length kw) vs in
    match F f pos (combine kw kws) with
    | Some [v] => Ok v
    | Some _ => Err false
    | None => Err true
    end.

  (* strict n-ary nodes are folded as Python does it: sum(gen) / reduce(mul, gen, 1) /
     min(gen) / max(gen) consume the children one by one, so a TypeError on child k is
     raised before child k+1 is evaluated; call arguments are all evaluated first *)
  Inductive nacc := NZ (z : Z) | NV (best : option val) | NL (rev_args : list val).

  Definition ninit (o : nop) : nacc :=
    match o with
    | NSum => NZ 0 | NProd => NZ 1 | NMin | NMax => NV None | _ => NL []
    end.

  Definition nstep (o : nop) (a : nacc) (v : val) : option nacc :=
    match o, a with
    | NSum, NZ z => option_map (fun x => NZ (z + x)) (as_int v)
    | NProd, NZ z => option_map (fun x => NZ (z * x)) (as_int v)
    | NMin, NV None | NMax, NV None => Some (NV (Some v))
    | NMin, NV (Some b) =>
        match as_int b, as_int v with
        | Some bz, Some z => Some (NV (Some (if z <? bz then v else b)))
        | _, _ => None end
    | NMax, NV (Some b) =>
        match as_int b, as_int v with
        | Some bz, Some z => Some (NV (Some (if bz <? z then v else b)))
        | _, _ => None end
    | NCall _ _, NL l => Some (NL (v :: l))
    | _, _ => None
    end.

  Definition nfinish (o : nop) (a : nacc) : rs val :=
    match o, a with
    | NSum, NZ z | NProd, NZ z => Ok (VInt z)
    | NMin, NV (Some b) | NMax, NV (Some b) => Ok b
    | NCall f kw, NL l => call1 f kw (rev l)
    | _, _ => Err false          (* min()/max() of nothing: ValueError *)
    end.

  (* eval returns the variables read from the store, in order, and the value
     (None = a Python exception was raised).  Mirrors EvaluationMapper:
     unknown variable -> None; all()/any() short-circuit; If evaluates one branch. *)
  Fixpoint eval (s : store) (e : expr) {struct e} : list var * rs val :=
    match e with
    | EInt z => ([], Ok (VInt z))
    | EBool b => ([], Ok (VBool b))
    | ENone => ([], Ok VNone)
    | EVar x => ([x], Ok (match s x with Some v => v | None => VNone end))
    | ENot a =>
        let (r, v) := eval s a in
        (r, rbind v (fun v => lift (option_map (fun b => VBool (negb b)) (truth v))))
    | EIf c t e =>
        let (r, v) := eval s c in
        match rbind v (fun v => lift (truth v)) with
        | Err u => (r, Err u)
        | Ok true => let (r2, v2) := eval s t in (r ++ r2, v2)
        | Ok false => let (r2, v2) := eval s e in (r ++ r2, v2)
        end
    | EBin o a b =>
        let (r1, v1) := eval s a in
        match v1 with
        | Err u => (r1, Err u)
        | Ok x => let (r2, v2) := eval s b in (r1 ++ r2, rbind v2 (fun y => lift (binop o x y)))
        end
    | ENary NAnd l =>
        (fix go (l : list expr) : list var * rs val :=
           match l with
           | [] => ([], Ok (VBool true))
           | a :: l' =>
               let (r, v) := eval s a in
               match rbind v (fun v => lift (truth v)) with
               | Err u => (r, Err u)
               | Ok false => (r, Ok (VBool false))
               | Ok true => let (r2, v2) := go l' in (r ++ r2, v2)
               end
           end) l
    | ENary NOr l =>
        (fix go (l : list expr) : list var * rs val :=
           match l with
           | [] => ([], Ok (VBool false))
           | a :: l' =>
               let (r, v) := eval s a in
               match rbind v (fun v => lift (truth v)) with
               | Err u => (r, Err u)
               | Ok true => (r, Ok (VBool true))
               | Ok false => let (r2, v2) := go l' in (r ++ r2, v2)
               end
           end) l
    | ENary o l =>
        let (r, a) :=
          (fix go (acc : nacc) (l : list expr) : list var * rs nacc :=
             match l with
             | [] => ([], Ok acc)
             | e :: l' =>
                 let (r, v) := eval s e in
                 match v with
                 | Err u => (r, Err u)
                 | Ok x =>
                     match nstep o acc x with
                     | None => (r, Err false)
                     | Some acc' => let (r2, res) := go acc' l' in (r ++ r2, res)
                     end
                 end
             end) (ninit o) l in
        (r, rbind a (nfinish o))
    end.

  Fixpoint eval_list (s : store) (l : list expr) : list var * rs (list val) :=
    match l with
    | [] => ([], Ok [])
    | a :: l' =>
        let (r, v) := eval s a in
        match v with
        | Err u => (r, Err u)
        | Ok x => let (r2, vs) := eval_list s l' in (r ++ r2, rmap (cons x) vs)
        end
    end.

  (* ---- statements (dagrt.language) ---- *)
  Inductive skind :=
  | KAssign (x : var) (sub : option expr) (rhs : expr) (loops : list (var * expr * expr))
  | KCall (assignees : list var) (f : string) (args : list expr) (kw : list (string * expr))
  | KYield (comp tid : string) (time e : expr)
  | KFail | KRaise (k : string) | KSwitch (p : string) | KNop.

  Record stmt := { sid : nat; sdeps : list nat; scond : expr; skd : skind }.

  Inductive event := EvYield (comp tid : string) (t v : val).

  Inductive access := Rd (x : var) | Wr (x : var) | Dl (x : var).

  Inductive outcome :=
  | ONext (s : store) (ev : option event)
  | OFail | OSwitch (p : string) | ORaise (k : string)
  | OUserExn        (* a user-supplied function raised *)
  | OCrash.         (* any other Python exception (TypeError, KeyError, ...) *)

  Definition rds (l : list var) : list access := map Rd l.

  (* y[idx] = v on a numpy integer array held in the store (value semantics, A1) *)
  Fixpoint set_nth (l : list Z) (n : nat) (z : Z) : list Z :=
    match l, n with
    | [], _ => []
    | _ :: r, O => z :: r
    | a :: r, S k => a :: set_nth r k z
    end.

  (* the assignment proper: context[x] = eval(rhs)  or  context[x][eval(sub)] = eval(rhs) *)
  Definition assign_once (s : store) (x : var) (sub : option expr) (rhs : expr)
    : list access * rs store :=
    let (r, v) := eval s rhs in
    match v with
    | Err u => (rds r, Err u)
    | Ok v =>
      match sub with
      | None => (rds r ++ [Wr x], Ok (upd s x v))
      | Some ie =>
        match s x with
        | None => (rds r ++ [Rd x], Err false)                  (* KeyError *)
        | Some agg =>
          let (r2, iv) := eval s ie in
          let acc := rds r ++ [Rd x] ++ rds r2 in
          match iv with
          | Err u => (acc, Err u)
          | Ok iv =>
            match agg, iv, as_int v with
            | VArr l, VInt i, Some z =>
                match norm_index (Z.of_nat (List.length l)) i with
                | Some n => (acc, Ok (upd s x (VArr (set_nth l n z))))   (* in-place: no store write *)
                | None => (acc, Err false)                      (* IndexError *)
                end
            | _, _, _ => (acc, Err false)
            end
          end
        end
      end
    end.

  (* for i in range(lo, hi): context[ident] = i; <inner> *)
  Fixpoint iter_range (n : nat) (i : Z) (ident : var)
           (inner : store -> list access * rs store) (s : store)
    : list access * rs store :=
    match n with
    | O => ([], Ok s)
    | S k =>
        let (a1, r1) := inner (upd s ident (VInt i)) in
        match r1 with
        | Err u => (Wr ident :: a1, Err u)
        | Ok s1 => let (a2, r2) := iter_range k (i + 1) ident inner s1 in
                   (Wr ident :: a1 ++ a2, r2)
        end
    end.

  (* range() bounds must be integers (bools count) *)
  Definition bound_int (v : val) : rs Z :=
    match v with VInt z => Ok z | VBool b => Ok (if b then 1 else 0) | _ => Err false end.

  Fixpoint run_loops (loops : list (var * expr * expr))
           (body : store -> list access * rs store) (s : store)
    : list access * rs store :=
    match loops with
    | [] => body s
    | (ident, lo, hi) :: ls =>
        (* range(eval(start), eval(stop)): both are evaluated, then range() checks the types *)
        let (r1, vlo) := eval s lo in
        match vlo with
        | Err u => (rds r1, Err u)
        | Ok vl =>
          let (r2, vhi) := eval s hi in
          match vhi with
          | Err u => (rds r1 ++ rds r2, Err u)
          | Ok vh =>
            match bound_int vl, bound_int vh with
            | Ok a, Ok b =>
              let (acc, res) := iter_range (Z.to_nat (b - a)) a ident (run_loops ls body) s in
              (rds r1 ++ rds r2 ++ acc, res)
            | _, _ => (rds r1 ++ rds r2, Err false)
            end
          end
        end
    end.

  (* `for ident, _, _ in stmt.loops: del self.context[ident]`
     del_guarded = false: plain `del` (KeyError when the loop never ran);
     del_guarded = true : `self.context.pop(ident, None)` *)
  Fixpoint del_loopvars (del_guarded : bool) (loops : list (var * expr * expr)) (s : store)
    : list access * rs store :=
    match loops with
    | [] => ([], Ok s)
    | (ident, _, _) :: ls =>
        match s ident with
        | None => if del_guarded
                  then let (a, r) := del_loopvars del_guarded ls s in (Dl ident :: a, r)
                  else ([Dl ident], Err false)
        | Some _ => let (a, r) := del_loopvars del_guarded ls (del s ident) in (Dl ident :: a, r)
        end
    end.

  Fixpoint assign_all (s : store) (xs : list var) (vs : list val) : list access * store :=
    match xs, vs with
    | x :: xs', v :: vs' => let (a, s') := assign_all (upd s x v) xs' vs' in (Wr x :: a, s')
    | _, _ => ([], s)
    end.

  Variable del_guarded : bool.

  Definition of_rs (r : rs store) : outcome :=
    match r with Ok s => ONext s None | Err true => OUserExn | Err false => OCrash end.

  (* exec_<Kind>(stmt): accesses to the variable store and the outcome *)
  Definition exec_kind (s : store) (k : skind) : list access * outcome :=
    match k with
    | KAssign x sub rhs [] =>
        let (a, r) := assign_once s x sub rhs in (a, of_rs r)
    | KAssign x sub rhs loops =>
        let (a, r) := run_loops loops (fun s => assign_once s x sub rhs) s in
        match r with
        | Err u => (a, of_rs (Err u))
        | Ok s1 =>
            let (a2, r2) := del_loopvars del_guarded loops s1 in (a ++ a2, of_rs r2)
        end
    | KCall xs f args kw =>
        let (r1, pos) := eval_list s args in
        match pos with
        | Err u => (rds r1, of_rs (Err u))
        | Ok pos =>
          let (r2, kws) := eval_list s (map snd kw) in
          match kws with
          | Err u => (rds r1 ++ rds r2, of_rs (Err u))
          | Ok kws =>
            match F f pos (combine (map fst kw) kws) with
            | None => (rds r1 ++ rds r2, OUserExn)
            | Some res =>
              match xs with
              | [] => (rds r1 ++ rds r2, ONext s None)
              | _ => (* one assignee takes the result as it is; several: assert on the length *)
                     if Nat.eqb (List.length xs) (List.length res)
                     then let (a, s') := assign_all s xs res in (rds r1 ++ rds r2 ++ a, ONext s' None)
                     else (rds r1 ++ rds r2, OCrash)
              end
            end
          end
        end
    | KYield comp tid time e =>
        let (r1, t) := eval s time in
        match t with
        | Err u => (rds r1, of_rs (Err u))
        | Ok t =>
          let (r2, v) := eval s e in
          match v with
          | Err u => (rds r1 ++ rds r2, of_rs (Err u))
          | Ok v => (rds r1 ++ rds r2, ONext s (Some (EvYield comp tid t v)))
          end
        end
    | KFail => ([], OFail)
    | KRaise k => ([], ORaise k)
    | KSwitch p => ([], OSwitch p)
    | KNop => ([], ONext s None)
    end.

  (* evaluate_condition(stmt) followed by exec_method(stmt) *)
  Definition exec_stmt (s : store) (st : stmt) : list access * outcome :=
    let (r, c) := eval s (scond st) in
    match rbind c (fun v => lift (truth v)) with
    | Err u => (rds r, of_rs (Err u))
    | Ok false => (rds r, ONext s None)
    | Ok true => let (a, o) := exec_kind s (skd st) in (rds r ++ a, o)
    end.
End Sem.

(* ---- declared read / write sets (get_read_variables / get_written_variables) ---- *)
(* DependencyMapper(include_subscripts=False, include_lookups=False,
   include_calls="descend_args"): every variable, function symbols excluded *)
Fixpoint vars (e : expr) : list var :=
  match e with
  | EVar x => [x]
  | ENot a => vars a
  | EIf c t e => vars c ++ vars t ++ vars e
  | EBin _ a b => vars a ++ vars b
  | ENary _ l => flat_map vars l
  | _ => []
  end.

Definition loopvars (k : skind) : list var :=
  match k with KAssign _ _ _ loops => map (fun l => fst (fst l)) loops | _ => [] end.

Section Sets.
  (* shape switches (harness/tr/lang.py):
     lhs_sub_reads  = get_read_variables of an assignment includes the variables of the lhs subscript
     loop_bound_reads = ... includes the variables of the loop bounds *)
  Variable lhs_sub_reads : bool.
  Variable loop_bound_reads : bool.

  Definition kind_reads (k : skind) : list var :=
    match k with
    | KAssign x sub rhs loops =>
        vars rhs
        ++ (if lhs_sub_reads then match sub with Some ie => vars ie | None => [] end else [])
        ++ (if loop_bound_reads then flat_map (fun l => vars (snd (fst l)) ++ vars (snd l)) loops else [])
    | KCall _ _ args kw => flat_map vars args ++ flat_map (fun p => vars (snd p)) kw
    | KYield _ _ time e => vars e ++ vars time
    | _ => []
    end.

  Definition kind_writes (k : skind) : list var :=
    match k with
    | KAssign x _ _ _ => [x]
    | KCall xs _ _ _ => xs
    | _ => []
    end.

  (* ConditionalStatementBase.get_read_variables: ... | vars(condition) *)
  Definition reads (st : stmt) : list var := kind_reads (skd st) ++ vars (scond st).
  Definition writes (st : stmt) : list var := kind_writes (skd st).
End Sets.

(* ---- map_expressions(mapper) on every statement kind (no class maps `condition`) ---- *)
Definition map_kind (f : expr -> expr) (k : skind) : skind :=
  match k with
  | KAssign x sub rhs loops =>
      KAssign x (option_map f sub) (f rhs) (map (fun l => (fst (fst l), f (snd (fst l)), f (snd l))) loops)
  | KCall xs fn args kw => KCall xs fn (map f args) (map (fun p => (fst p, f (snd p))) kw)
  | KYield comp tid time e => KYield comp tid (f time) (f e)
  | k => k
  end.
Definition map_stmt (f : expr -> expr) (st : stmt) : stmt :=
  {| sid := sid st; sdeps := sdeps st; scond := scond st; skd := map_kind f (skd st) |}.
