(* Model of dagrt/transform.py (fuse_two_phases, fuse_two_dags) and of what it is built on:
   pymbolic.imperative.transform (disambiguate_identifiers, fuse_statement_streams_with_unique_ids,
   disambiguate_and_fuse), pytools.UniqueNameGenerator, pymbolic's SubstitutionMapper applied through
   map_expressions(include_lhs=True) of every dagrt statement class.  Definitions only.  (C16)

   Iteration over Python sets whose order is observable is an explicit argument:
     - the statements of a phase are a list (the iteration order of phase.statements),
     - `clash order` is the iteration order of `id_a & id_b` in disambiguate_identifiers,
     - `phase order` is the iteration order of `frozenset(dag1.phases) | frozenset(dag2.phases)`.
   Names are ASCII (Python's \w and \d also accept non-ASCII letters and digits). *)
From Coq Require Import List ZArith NArith String Ascii Bool Arith DecimalString.
Import ListNotations.
From Dagrt Require Import Lang.


(* ------------------------------------------------------------------ strings *)
Definition is_digit (c : ascii) : bool :=
  let n := nat_of_ascii c in Nat.leb 48 n && Nat.leb n 57.
Definition is_word (c : ascii) : bool :=            (* [a-zA-Z0-9_] *)
  let n := nat_of_ascii c in
  is_digit c || (Nat.leb 65 n && Nat.leb n 90) || (Nat.leb 97 n && Nat.leb n 122) || Nat.eqb n 95.
Definition is_us (c : ascii) : bool := Nat.eqb (nat_of_ascii c) 95.

Fixpoint all_chars (p : ascii -> bool) (s : string) : bool :=
  match s with EmptyString => true | String c r => p c && all_chars p r end.
Definition nonempty (s : string) : bool := match s with EmptyString => false | _ => true end.

(* f"{num}" for a non-negative int *)
Definition dec (n : N) : string := NilEmpty.string_of_uint (N.to_uint n).   (* N.to_uint is never Nil: "0" for 0 *)
(* int("007") *)
Fixpoint parse_dec_acc (acc : N) (s : string) : N :=
  match s with
  | EmptyString => acc
  | String c r => parse_dec_acc (acc * 10 + N.of_nat (nat_of_ascii c - 48))%N r
  end.
Definition parse_dec (s : string) : N := parse_dec_acc 0%N s.

(* split at the last underscore *)
Fixpoint rsplit_us (s : string) : option (string * string) :=
  match s with
  | EmptyString => None
  | String c r =>
      match rsplit_us r with
      | Some (a, b) => Some (String c a, b)
      | None => if is_us c then Some (EmptyString, r) else None
      end
  end.

(* UNIQUE_NAME_GEN_COUNTER_RE = ^(?P<based_on>\w+)_(?P<counter>\d+)$   (greedy \w+ : the last underscore) *)
Definition counter_match (s : string) : option (string * N) :=
  if all_chars is_word s then
    match rsplit_us s with
    | Some (a, b) => if nonempty a && nonempty b && all_chars is_digit b then Some (a, parse_dec b) else None
    | None => None
    end
  else None.

Definition mem (x : string) (l : list string) : bool := existsb (String.eqb x) l.

(* ------------------------------------------------------------------ pytools.UniqueNameGenerator *)
Record ung := { u_names : list string;             (* existing_names *)
                u_ctr : list (string * N) }.        (* prefix_to_counter *)

Fixpoint ctr_get (k : string) (l : list (string * N)) : option N :=
  match l with
  | [] => None
  | (k', v) :: r => if String.eqb k k' then Some v else ctr_get k r
  end.
Fixpoint ctr_set (k : string) (v : N) (l : list (string * N)) : list (string * N) :=
  match l with
  | [] => [(k, v)]
  | (k', v') :: r => if String.eqb k k' then (k, v) :: r else (k', v') :: ctr_set k v r
  end.

Definition numbered (base : string) (n : N) : string := (base ++ "_" ++ dec n)%string.

(* generate_numbered_unique_names from num on: (num+1, base_num), (num+2, base_{num+1}), ...
   until a name that is not in existing_names; None = out of fuel *)
Fixpoint search (fuel : nat) (names : list string) (base : string) (num : N) : option (N * string) :=
  match fuel with
  | O => None
  | S f => let nm := numbered base num in
           if mem nm names then search f names base (N.succ num) else Some (N.succ num, nm)
  end.

Definition ung_init (names : list string) : ung := {| u_names := names; u_ctr := [] |}.

(* UniqueNameGenerator.__call__(based_on) ; None = out of fuel (never happens: FuseProofs.ung_call_total) *)
Definition ung_call (g : ung) (based_on : string) : option (string * ung) :=
  let bc := match ctr_get based_on (u_ctr g) with
            | Some c => (based_on, Some c)
            | None => match counter_match based_on with
                      | Some (b, n) => (b, Some n)
                      | None => (based_on, None)
                      end
            end in
  let base := fst bc in
  let fuel := S (List.length (u_names g)) in
  let r := match snd bc with
           | None => if mem base (u_names g) then search fuel (u_names g) base 0%N else Some (0%N, base)
           | Some n => search fuel (u_names g) base n
           end in
  match r with
  | None => None
  | Some (c, nm) => Some (nm, {| u_names := nm :: u_names g; u_ctr := ctr_set base c (u_ctr g) |})
  end.

(* ------------------------------------------------------------------ SubstitutionMapper(make_subst_func(subst_b)) *)
Definition smap := list (var * var).        (* subst_b : clash -> Variable(unclash) *)
Fixpoint slookup (x : var) (m : smap) : option var :=
  match m with
  | [] => None
  | (k, v) :: r => if String.eqb x k then Some v else slookup x r
  end.
Definition sub (m : smap) (x : var) : var := match slookup x m with Some y => y | None => x end.

(* the function symbol of a call is mapped like any other variable (IdentityMapper.map_call) *)
Definition ren_nop (r : var -> var) (o : nop) : nop :=
  match o with NCall f kw => NCall (r f) kw | o => o end.
Fixpoint ren (r : var -> var) (e : expr) : expr :=
  match e with
  | EVar x => EVar (r x)
  | ENot a => ENot (ren r a)
  | EIf c t e => EIf (ren r c) (ren r t) (ren r e)
  | EBin o a b => EBin o (ren r a) (ren r b)
  | ENary o l => ENary (ren_nop r o) (map (ren r) l)
  | e => e
  end.

(* the mapper raises ValueError("... encountered invalid foreign object: None") on the constant None *)
Fixpoint has_none (e : expr) : bool :=
  match e with
  | ENone => true
  | ENot a => has_none a
  | EIf c t e => has_none c || has_none t || has_none e
  | EBin _ a b => has_none a || has_none b
  | ENary _ l => existsb has_none l
  | _ => false
  end.

(* map_expressions(mapper, include_lhs=True) of Assign / AssignFunctionCall (through as_expression:
   the function id is mapped too) / YieldState; the other classes inherit StatementBase's `return self`.
   loopv = the loop variables are renamed as well (not done by map_expressions itself). *)
Definition ren_kind (loopv : bool) (r : var -> var) (k : skind) : skind :=
  match k with
  | KAssign x sb rhs loops =>
      KAssign (r x) (option_map (ren r) sb) (ren r rhs)
              (map (fun l => (if loopv then r (fst (fst l)) else fst (fst l), ren r (snd (fst l)), ren r (snd l))) loops)
  | KCall xs f args kw => KCall (map r xs) (r f) (map (ren r) args) (map (fun p => (fst p, ren r (snd p))) kw)
  | KYield comp tid time e => KYield comp tid (ren r time) (ren r e)
  | k => k
  end.

Definition kind_has_none (k : skind) : bool :=
  match k with
  | KAssign _ sb rhs loops =>
      match sb with Some ie => has_none ie | None => false end || has_none rhs
      || existsb (fun l => has_none (snd (fst l)) || has_none (snd l)) loops
  | KCall _ _ args kw => existsb has_none args || existsb (fun p => has_none (snd p)) kw
  | KYield _ _ time e => has_none time || has_none e
  | _ => false
  end.

(* ------------------------------------------------------------------ statements with string ids, phases, DAGs *)
Record fstmt := { fid : string; fdeps : list string; fcond : expr; fkd : skind }.
Record fphase := { ph_name : string; ph_next : string; ph_stmts : list fstmt }.
Record fdag := { d_phases : list (string * fphase);       (* dict: phase name -> ExecutionPhase *)
                 d_init : string }.

(* the statement as the interpreter model sees it (ids play no role in exec_stmt) *)
Definition lower (st : fstmt) : stmt := {| sid := O; sdeps := []; scond := fcond st; skd := fkd st |}.

Inductive verr := VNextPhase (p : string) | VBothNone | VForeignNone | VInitialPhase.
Inductive fres (A : Type) :=
| FOk (a : A)
| FValueError (why : verr)
| FKeyError (k : string)
| FOutOfFuel.
Arguments FOk {A}. Arguments FValueError {A}. Arguments FKeyError {A}. Arguments FOutOfFuel {A}.

Section Fuse.
  (* shape switches of Lang.v (get_read_variables) *)
  Variable lhs_sub_reads loop_bound_reads : bool.
  (* dagrt.utils.is_state_variable *)
  Variable is_state : var -> bool.
  (* shape switches of dagrt/transform.py (harness/tr/c16.py):
       sw_thread : fuse_two_dags hands should_disambiguate_name on to fuse_two_phases
       sw_pred   : fuse_two_phases hands its predicate on to pymbolic, default `not is_state_variable`
       sw_guard  : the condition of the statements of the second method is renamed
       sw_loopv  : the loop variables of the statements of the second method are renamed *)
  Variable sw_thread sw_pred sw_guard sw_loopv : bool.

  Definition freads (st : fstmt) : list var := reads lhs_sub_reads loop_bound_reads (lower st).
  Definition fwrites (st : fstmt) : list var := writes (lower st).
  (* pymbolic.imperative.analysis.get_all_used_identifiers *)
  Definition idents (l : list fstmt) : list var := flat_map (fun st => freads st ++ fwrites st) l.

  (* what pymbolic's disambiguate_identifiers receives as should_disambiguate_name *)
  Definition eff_pred (p : option (var -> bool)) : var -> bool :=
    if sw_pred then match p with Some f => f | None => fun x => negb (is_state x) end
    else fun _ => true.

  (* for clash in id_a & id_b: if should_disambiguate_name(clash): subst_b[clash] = var(vng(clash)) *)
  Fixpoint disamb (pred : var -> bool) (g : ung) (order : list var) (m : smap) : option smap :=
    match order with
    | [] => Some m
    | c :: r =>
        if pred c then
          match ung_call g c with
          | Some (n, g') => disamb pred g' r (m ++ [(c, n)])
          | None => None
          end
        else disamb pred g r m
    end.

  Definition rename_stmt (r : var -> var) (st : fstmt) : fstmt :=
    {| fid := fid st; fdeps := fdeps st;
       fcond := if sw_guard then ren r (fcond st) else fcond st;
       fkd := ren_kind sw_loopv r (fkd st) |}.
  Definition stmt_has_none (st : fstmt) : bool :=
    kind_has_none (fkd st) || (sw_guard && has_none (fcond st)).

  (* fuse_statement_streams_with_unique_ids: first loop *)
  Fixpoint fresh_ids (g : ung) (b : list fstmt) : option (list (string * string)) :=
    match b with
    | [] => Some []
    | st :: r =>
        match ung_call g (fid st) with
        | Some (n, g') => option_map (cons (fid st, n)) (fresh_ids g' r)
        | None => None
        end
    end.
  (* old_b_id_to_new_b_id[old_id] = new_id : a later statement with the same id wins *)
  Fixpoint id_lookup (k : string) (l : list (string * string)) : option string :=
    match l with
    | [] => None
    | (k', v) :: r => match id_lookup k r with
                      | Some v' => Some v'
                      | None => if String.eqb k k' then Some v else None
                      end
    end.
  Fixpoint remap_deps (idm : list (string * string)) (deps : list string) : fres (list string) :=
    match deps with
    | [] => FOk []
    | d :: r => match id_lookup d idm with
                | None => FKeyError d
                | Some d' => match remap_deps idm r with
                             | FOk r' => FOk (d' :: r')
                             | e => e
                             end
                end
    end.
  (* second loop: the statements get their new id (by position) and the remapped dependencies *)
  Fixpoint relabel (idm : list (string * string)) (news : list (string * string)) (b : list fstmt)
    : fres (list fstmt) :=
    match b, news with
    | st :: r, (_, n) :: nr =>
        match remap_deps idm (fdeps st) with
        | FOk ds => match relabel idm nr r with
                    | FOk r' => FOk ({| fid := n; fdeps := ds; fcond := fcond st; fkd := fkd st |} :: r')
                    | e => e
                    end
        | FValueError w => FValueError w
        | FKeyError k => FKeyError k
        | FOutOfFuel => FOutOfFuel
        end
    | _, _ => FOk []
    end.

  Definition fuse_streams (a b : list fstmt) : fres (list fstmt) :=
    match fresh_ids (ung_init (map fid a)) b with
    | None => FOutOfFuel
    | Some news => match relabel news news b with
                   | FOk b' => FOk (a ++ b')
                   | e => e
                   end
    end.

  (* disambiguate_identifiers: the substitution *)
  Definition subst_of (pred : var -> bool) (clash : list var) (a b : list fstmt) : option smap :=
    disamb pred (ung_init (idents a ++ idents b)) clash [].

  (* disambiguate_and_fuse(a, b, pred) followed (sw_guard / sw_loopv) by the renaming of guards and loop variables *)
  Definition fuse_stmts (pred : var -> bool) (clash : list var) (a b : list fstmt) : fres (list fstmt) :=
    match subst_of pred clash a b with
    | None => FOutOfFuel
    | Some m =>
        if existsb stmt_has_none b then FValueError VForeignNone
        else fuse_streams a (map (rename_stmt (sub m)) b)
    end.

  (* dagrt.transform.fuse_two_phases *)
  Definition fuse_two_phases (pname : string) (p : option (var -> bool)) (clash : list var)
             (p1 p2 : option fphase) : fres fphase :=
    match p1, p2 with
    | Some a, Some b =>
        if negb (String.eqb (ph_next a) (ph_next b)) then FValueError (VNextPhase pname)
        else match fuse_stmts (eff_pred p) clash (ph_stmts a) (ph_stmts b) with
             | FOk l => FOk {| ph_name := ph_name a; ph_next := ph_next a; ph_stmts := l |}
             | FValueError w => FValueError w
             | FKeyError k => FKeyError k
             | FOutOfFuel => FOutOfFuel
             end
    | Some a, None => FOk a
    | None, Some b => FOk b
    | None, None => FValueError VBothNone
    end.

  Fixpoint pget (k : string) (l : list (string * fphase)) : option fphase :=
    match l with
    | [] => None
    | (k', v) :: r => if String.eqb k k' then Some v else pget k r
    end.
  Fixpoint pset (k : string) (v : fphase) (l : list (string * fphase)) : list (string * fphase) :=
    match l with
    | [] => [(k, v)]
    | (k', v') :: r => if String.eqb k k' then (k, v) :: r else (k', v') :: pset k v r
    end.
  Fixpoint oget (k : string) (l : list (string * list var)) : list var :=
    match l with
    | [] => []
    | (k', v) :: r => if String.eqb k k' then v else oget k r
    end.

  (* the loop of fuse_two_dags over the phase names *)
  Fixpoint fuse_phases (p : option (var -> bool)) (clashes : list (string * list var))
           (d1 d2 : fdag) (names : list string) (acc : list (string * fphase)) : fres (list (string * fphase)) :=
    match names with
    | [] => FOk acc
    | n :: r =>
        match fuse_two_phases n (if sw_thread then p else None) (oget n clashes)
                              (pget n (d_phases d1)) (pget n (d_phases d2)) with
        | FOk ph => fuse_phases p clashes d1 d2 r (pset n ph acc)
        | FValueError w => FValueError w
        | FKeyError k => FKeyError k
        | FOutOfFuel => FOutOfFuel
        end
    end.

  (* dagrt.transform.fuse_two_dags(dag1, dag2, phase_correspondences, should_disambiguate_name);
     phase_correspondences is never looked at *)
  Definition fuse_two_dags (p : option (var -> bool)) (phase_order : list string)
             (clashes : list (string * list var)) (d1 d2 : fdag) : fres fdag :=
    match fuse_phases p clashes d1 d2 phase_order [] with
    | FOk phs =>
        if negb (String.eqb (d_init d1) (d_init d2)) then FValueError VInitialPhase
        else FOk {| d_phases := phs; d_init := d_init d1 |}
    | FValueError w => FValueError w
    | FKeyError k => FKeyError k
    | FOutOfFuel => FOutOfFuel
    end.
End Fuse.

(* ------------------------------------------------------------------ vocabulary of the theorems *)
(* the clash order handed to the model enumerates id_a & id_b *)
Definition clash_enum (ida idb order : list var) : Prop :=
  NoDup order /\ forall x, In x order <-> In x ida /\ In x idb.

(* l is an interleaving of l1 and l2 (each keeps its own order) *)
Inductive merge {A : Type} : list A -> list A -> list A -> Prop :=
| merge_nil : merge [] [] []
| merge_l x l1 l2 l : merge l1 l2 l -> merge (x :: l1) l2 (x :: l)
| merge_r x l1 l2 l : merge l1 l2 l -> merge l1 (x :: l2) (x :: l).

(* function symbols called by an expression / a statement *)
Fixpoint funsyms (e : expr) : list string :=
  match e with
  | ENot a => funsyms a
  | EIf c t e => funsyms c ++ funsyms t ++ funsyms e
  | EBin _ a b => funsyms a ++ funsyms b
  | ENary o l => match o with NCall f _ => [f] | _ => [] end ++ flat_map funsyms l
  | _ => []
  end.
Definition kind_funsyms (k : skind) : list string :=
  match k with
  | KAssign _ sb rhs loops =>
      match sb with Some ie => funsyms ie | None => [] end ++ funsyms rhs
      ++ flat_map (fun l => funsyms (snd (fst l)) ++ funsyms (snd l)) loops
  | KCall _ f args kw => f :: flat_map funsyms args ++ flat_map (fun p => funsyms (snd p)) kw
  | KYield _ _ time e => funsyms time ++ funsyms e
  | _ => []
  end.
Definition stmt_funsyms (st : fstmt) : list string := funsyms (fcond st) ++ kind_funsyms (fkd st).
