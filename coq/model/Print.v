(* C19 -- model of the printer side: the expression language of the property, the token
   alphabet of pymbolic's lexer, pymbolic's StringifyMapper (pymbolic/mapper/stringifier.py,
   what str(e) runs for every dagrt expression) producing a TOKEN LIST, the string of a token
   list, and the specification-level notions the theorems talk about (variables, value over Z,
   the parser's normal form of an expression, the class of printable expressions).
   Definitions only.  Precedence numbers come from coq/gen/GenC19.v. *)
From Coq Require Import List ZArith NArith String Ascii Bool Arith DecimalString.
Import ListNotations.
From Dagrt Require Import GenC19.
Open Scope string_scope.
Open Scope nat_scope.

(* ------------------------------------------------------------------ expressions *)

Inductive cmpop := CLt | CLe | CGt | CGe | CEq | CNe.
(* n-ary nodes Sum, Product, LogicalAnd, LogicalOr; binary Quotient, FloorDiv, Remainder, Power,
   Comparison *)
Inductive nop := NSum | NProd | NAnd | NOr.
Inductive bop := BQuot | BFloorDiv | BRem | BPow | BCmp (c : cmpop).

Inductive expr :=
| EInt (z : Z)                       (* Python int constant *)
| EBool (b : bool)                   (* True / False *)
| EVar (x : string)                  (* Variable(name), the name includes a tag such as <state> *)
| ENary (o : nop) (l : list expr)
| EBin (o : bop) (a b : expr)
| ENot (a : expr)                    (* LogicalNot *)
| EIf (c t e : expr)                 (* If(condition, then, else_) *)
| ECall (f : expr) (args : list expr) (kw : list (string * expr))
                                     (* Call (kw = []) / CallWithKwargs; kw in dict order *)
| ESub (a : expr) (i : expr)         (* Subscript; the index is an expression or a tuple *)
| ETuple (l : list expr).            (* a Python tuple (subscript index, or what the parser makes
                                        of commas) *)

Definition cmpop_eqb (a b : cmpop) : bool :=
  match a, b with
  | CLt, CLt | CLe, CLe | CGt, CGt | CGe, CGe | CEq, CEq | CNe, CNe => true
  | _, _ => false
  end.
Definition nop_eqb (a b : nop) : bool :=
  match a, b with
  | NSum, NSum | NProd, NProd | NAnd, NAnd | NOr, NOr => true
  | _, _ => false
  end.
Definition bop_eqb (a b : bop) : bool :=
  match a, b with
  | BQuot, BQuot | BFloorDiv, BFloorDiv | BRem, BRem | BPow, BPow => true
  | BCmp c, BCmp d => cmpop_eqb c d
  | _, _ => false
  end.

Fixpoint expr_eqb (e1 e2 : expr) {struct e1} : bool :=
  let leq := fix leq (l1 l2 : list expr) {struct l1} : bool :=
               match l1, l2 with
               | [], [] => true
               | x :: r, y :: s => expr_eqb x y && leq r s
               | _, _ => false
               end in
  match e1, e2 with
  | EInt a, EInt b => Z.eqb a b
  | EBool a, EBool b => Bool.eqb a b
  | EVar a, EVar b => String.eqb a b
  | ENary o l, ENary o' l' => nop_eqb o o' && leq l l'
  | EBin o a b, EBin o' a' b' => bop_eqb o o' && expr_eqb a a' && expr_eqb b b'
  | ENot a, ENot a' => expr_eqb a a'
  | EIf c t e, EIf c' t' e' => expr_eqb c c' && expr_eqb t t' && expr_eqb e e'
  | ECall f l k, ECall f' l' k' =>
      expr_eqb f f' && leq l l'
      && (fix kws (k1 k2 : list (string * expr)) {struct k1} : bool :=
            match k1, k2 with
            | [], [] => true
            | (n, v) :: r, (n', v') :: s => String.eqb n n' && expr_eqb v v' && kws r s
            | _, _ => false
            end) k k'
  | ESub a i, ESub a' i' => expr_eqb a a' && expr_eqb i i'
  | ETuple l, ETuple l' => leq l l'
  | _, _ => false
  end.

(* ------------------------------------------------------------------ tokens *)

(* The token classes of pymbolic's lex_table that the expression language uses (floats, `.`,
   `:`, bitwise operators and shifts are outside the model: the lexer answers Unsupported). *)
Inductive token :=
| TSp                       (* a run of blanks, dropped before parsing *)
| TInt (n : N) | TId (s : string)
| TCmp (c : cmpop) | TAssign
| TAnd | TOr | TNot | TIf | TElse
| TPlus | TMinus | TPow | TTimes | TFloorDiv | TOver | TMod
| TLPar | TRPar | TLBrk | TRBrk | TTrue | TFalse | TComma.

Definition token_eqb (a b : token) : bool :=
  match a, b with
  | TSp, TSp | TAssign, TAssign | TAnd, TAnd | TOr, TOr | TNot, TNot | TIf, TIf | TElse, TElse
  | TPlus, TPlus | TMinus, TMinus | TPow, TPow | TTimes, TTimes | TFloorDiv, TFloorDiv
  | TOver, TOver | TMod, TMod | TLPar, TLPar | TRPar, TRPar | TLBrk, TLBrk | TRBrk, TRBrk
  | TTrue, TTrue | TFalse, TFalse | TComma, TComma => true
  | TInt n, TInt m => N.eqb n m
  | TId s, TId t => String.eqb s t
  | TCmp c, TCmp d => cmpop_eqb c d
  | _, _ => false
  end.

Definition cmp_str (c : cmpop) : string :=
  match c with CLt => "<" | CLe => "<=" | CGt => ">" | CGe => ">=" | CEq => "==" | CNe => "!=" end.

Definition tok_str (t : token) : string :=
  match t with
  | TSp => " "
  | TInt n => NilZero.string_of_uint (N.to_uint n)
  | TId s => s
  | TCmp c => cmp_str c
  | TAssign => "="
  | TAnd => "and" | TOr => "or" | TNot => "not" | TIf => "if" | TElse => "else"
  | TPlus => "+" | TMinus => "-" | TPow => "**" | TTimes => "*" | TFloorDiv => "//"
  | TOver => "/" | TMod => "%"
  | TLPar => "(" | TRPar => ")" | TLBrk => "[" | TRBrk => "]"
  | TTrue => "True" | TFalse => "False" | TComma => ","
  end.

Fixpoint render (ts : list token) : string :=
  match ts with
  | [] => ""
  | t :: r => tok_str t ++ render r
  end.

Definition is_sp (t : token) : bool := match t with TSp => true | _ => false end.
Definition strip (ts : list token) : list token := filter (fun t => negb (is_sp t)) ts.

(* ------------------------------------------------------------------ the printer *)

(* first '>' of s:  s = t ++ ">" ++ u *)
Fixpoint split_gt (s : string) : option (string * string) :=
  match s with
  | EmptyString => None
  | String c r =>
    if Ascii.eqb c ">" then Some (EmptyString, r)
    else match split_gt r with
         | Some (t, u) => Some (String c t, u)
         | None => None
         end
  end.

(* map_variable returns the name; this is how pymbolic's lexer cuts a tagged name (the
   correspondence between the two is lemma/check `lex (render ..)`, for well-formed names) *)
Definition var_toks (x : string) : list token :=
  match x with
  | String c r =>
    if Ascii.eqb c "<" then
      match split_gt r with
      | Some (t, u) =>
        TCmp CLt :: TId t :: TCmp CGt :: (match u with EmptyString => [] | _ => [TId u] end)
      | None => [TId x]
      end
    else [TId x]
  | EmptyString => [TId x]
  end.

Definition paren (ts : list token) : list token := TLPar :: ts ++ [TRPar].
Definition paren_if (b : bool) (ts : list token) : list token := if b then paren ts else ts.

Fixpoint join (sep : list token) (l : list (list token)) : list token :=
  match l with
  | [] => []
  | x :: r => match r with [] => x | _ => x ++ sep ++ join sep r end
  end.

Definition is_qfr (e : expr) : bool :=      (* Quotient, FloorDiv, Remainder *)
  match e with EBin (BQuot | BFloorDiv | BRem) _ _ => true | _ => false end.
Definition is_mult (e : expr) : bool :=     (* StringifyMapper.multiplicative_primitives *)
  match e with ENary NProd _ => true | _ => is_qfr e end.

Definition nary_prec (o : nop) : nat :=
  match o with NSum => PR_SUM | NProd => PR_PRODUCT | NAnd => PR_LOGICAL_AND | NOr => PR_LOGICAL_OR end.
Definition nary_tok (o : nop) : token :=
  match o with NSum => TPlus | NProd => TTimes | NAnd => TAnd | NOr => TOr end.
(* " + ", "*", " and ", " or " *)
Definition nary_sep (sp : list token) (o : nop) : list token :=
  match o with NProd => [TTimes] | _ => sp ++ [nary_tok o] ++ sp end.
Definition bin_prec (o : bop) : nat :=
  match o with BPow => PR_POWER | BCmp _ => PR_COMPARISON | _ => PR_PRODUCT end.
Definition bin_tok (o : bop) : token :=
  match o with BQuot => TOver | BFloorDiv => TFloorDiv | BRem => TMod | BPow => TPow | BCmp c => TCmp c end.
(* " / ", " // ", " % ", "**", " < " *)
Definition bin_sep (sp : list token) (o : bop) : list token :=
  match o with BPow => [TPow] | _ => sp ++ [bin_tok o] ++ sp end.

(* my_prec of the node as used by parenthesize_if_needed; nodes that never get parentheses from
   it (variables, calls, non-negative constants) have a precedence above every enclosing one *)
Definition NOPAREN : nat := 1000.
Definition prec (e : expr) : nat :=
  match e with
  | EInt z => if (z <? 0)%Z then PR_SUM else NOPAREN
  | ENary o _ => nary_prec o
  | EBin o _ _ => bin_prec o
  | ENot _ => PR_UNARY
  | EIf _ _ _ => PR_IF
  | ESub _ _ => PR_CALL
  | _ => NOPAREN
  end.

(* sp = [TSp] gives the text; sp = [] the same tokens without blanks.  q = enclosing_prec. *)
Fixpoint print (sp : list token) (q : nat) (e : expr) {struct e} : list token :=
  match e with
  | EInt z =>
    if (z <? 0)%Z then paren_if (PR_SUM <? q) [TMinus; TInt (Z.to_N (- z))] else [TInt (Z.to_N z)]
  | EBool b => [if b then TTrue else TFalse]
  | EVar x => var_toks x
  | ENary o l =>
    paren_if (nary_prec o <? q)
      (join (nary_sep sp o)
         (map (fun c => match o with
                        | NProd => paren_if (is_qfr c) (print sp PR_PRODUCT c)
                        | _ => print sp (nary_prec o) c
                        end) l))
  | EBin o a b =>
    paren_if (bin_prec o <? q)
      (match o with
       | BPow | BCmp _ => print sp (bin_prec o) a ++ bin_sep sp o ++ print sp (bin_prec o) b
       | _ => paren_if (is_mult a) (print sp PR_PRODUCT a) ++ bin_sep sp o
              ++ paren_if (is_mult b) (print sp PR_PRODUCT b)
       end)
  | ENot a => paren_if (PR_UNARY <? q) (TNot :: sp ++ print sp PR_UNARY a)
  | EIf c t e =>
    paren_if (PR_IF <? q)
      (print sp PR_LOGICAL_OR t ++ sp ++ [TIf] ++ sp ++ print sp PR_LOGICAL_OR c
       ++ sp ++ [TElse] ++ sp ++ print sp PR_LOGICAL_OR e)
  | ECall f args kw =>
    print sp PR_CALL f ++ [TLPar]
    ++ join (TComma :: sp)
         (map (print sp PR_NONE) args
          ++ map (fun kv => TId (fst kv) :: TAssign :: print sp PR_NONE (snd kv)) kw)
    ++ [TRPar]
  | ESub a i =>
    paren_if (PR_CALL <? q)
      (print sp PR_CALL a ++ [TLBrk]
       ++ (match i with
           | ETuple l => join (TComma :: sp) (map (print sp PR_NONE) l)
           | _ => print sp PR_NONE i
           end)
       ++ [TRBrk])
  | ETuple l =>
    TLPar :: join (TComma :: sp) (map (print sp PR_NONE) l)
    ++ (match l with [_] => [TComma] | _ => [] end) ++ [TRPar]
  end.

(* str(e) *)
Definition print_string (e : expr) : string := render (print [TSp] PR_NONE e).
(* the tokens the parser gets to see *)
Definition print_toks (e : expr) : list token := print [] PR_NONE e.

(* ------------------------------------------------------------------ variables
   dagrt.utils.get_variables (DependencyMapper with include_calls="descend_args",
   include_subscripts=False): every Variable except the function position of a call; as a list
   in left-to-right order (the implementation returns the set) *)
Fixpoint vars (e : expr) : list string :=
  match e with
  | EInt _ | EBool _ => []
  | EVar x => [x]
  | ENary _ l => List.concat (map vars l)
  | EBin _ a b => vars a ++ vars b
  | ENot a => vars a
  | EIf c t e => vars c ++ vars t ++ vars e
  | ECall _ args kw => List.concat (map vars args) ++ List.concat (map (fun kv => vars (snd kv)) kw)
  | ESub a i => vars a ++ vars i
  | ETuple l => List.concat (map vars l)
  end.

(* ------------------------------------------------------------------ value over Z
   Python's conventions on ints (True = 1; `//`, `%` floor; `and`/`or` are all()/any() and
   short-circuit; If is lazy).  None = the evaluation raises.  What leaves Z or is supplied by the
   user is a parameter: user functions (by name, positional and keyword values), subscripting,
   true division and powers with a negative exponent. *)
Section Eval.
  Variable rho : string -> Z.
  Variable Ffun : string -> list Z -> list (string * Z) -> option Z.
  Variable Fsub : Z -> list Z -> option Z.
  Variable Fquot : Z -> Z -> option Z.
  Variable Fnegpow : Z -> Z -> option Z.

  Definition b2z (b : bool) : Z := if b then 1%Z else 0%Z.
  Definition cmp_int (o : cmpop) (a b : Z) : bool :=
    match o with
    | CLt => (a <? b)%Z | CLe => (a <=? b)%Z | CGt => (b <? a)%Z | CGe => (b <=? a)%Z
    | CEq => (a =? b)%Z | CNe => negb (a =? b)%Z
    end.

  Fixpoint sequence {A} (l : list (option A)) : option (list A) :=
    match l with
    | [] => Some []
    | None :: _ => None
    | Some a :: r => match sequence r with Some s => Some (a :: s) | None => None end
    end.

  (* all(...) / any(...) over already computed (pure) child values, left to right *)
  Fixpoint all_opt (l : list (option Z)) : option Z :=
    match l with
    | [] => Some 1%Z
    | None :: _ => None
    | Some v :: r => if (v =? 0)%Z then Some 0%Z else all_opt r
    end.
  Fixpoint any_opt (l : list (option Z)) : option Z :=
    match l with
    | [] => Some 0%Z
    | None :: _ => None
    | Some v :: r => if (v =? 0)%Z then any_opt r else Some 1%Z
    end.

  Definition eval_nary (o : nop) (vs : list (option Z)) : option Z :=
    match o with
    | NSum => option_map (fold_right Z.add 0%Z) (sequence vs)
    | NProd => option_map (fold_right Z.mul 1%Z) (sequence vs)
    | NAnd => all_opt vs
    | NOr => any_opt vs
    end.

  Definition eval_bin (o : bop) (x y : Z) : option Z :=
    match o with
    | BQuot => Fquot x y
    | BFloorDiv => if (y =? 0)%Z then None else Some (x / y)%Z
    | BRem => if (y =? 0)%Z then None else Some (x mod y)%Z
    | BPow => if (y <? 0)%Z then Fnegpow x y else Some (x ^ y)%Z
    | BCmp c => Some (b2z (cmp_int c x y))
    end.

  Fixpoint eval (e : expr) : option Z :=
    match e with
    | EInt z => Some z
    | EBool b => Some (b2z b)
    | EVar x => Some (rho x)
    | ENary o l => eval_nary o (map eval l)
    | EBin o a b =>
      match eval a, eval b with
      | Some x, Some y => eval_bin o x y
      | _, _ => None
      end
    | ENot a => option_map (fun v => b2z (v =? 0)%Z) (eval a)
    | EIf c t e =>
      match eval c with
      | Some v => if (v =? 0)%Z then eval e else eval t
      | None => None
      end
    | ECall f args kw =>
      match f with
      | EVar name =>
        match sequence (map eval args),
              sequence (map (fun kv => option_map (pair (fst kv)) (eval (snd kv))) kw) with
        | Some vs, Some kvs => Ffun name vs kvs
        | _, _ => None
        end
      | _ => None                           (* expr.function.name: AttributeError *)
      end
    | ESub a i =>
      match eval a, (match i with
                     | ETuple l => sequence (map eval l)
                     | _ => option_map (fun v => [v]) (eval i)
                     end) with
      | Some x, Some is_ => Fsub x is_
      | _, _ => None
      end
    | ETuple _ => None                      (* a tuple is not a number *)
    end.
End Eval.

(* ------------------------------------------------------------------ what the parser returns
   for the text of e: binary nodes; + and or nested to the left, * to the right *)

(* acc `o` c, where c is already in normal form: (acc o x) o y for c = x o y *)
Fixpoint lapp (o : nop) (acc c : expr) {struct c} : expr :=
  match c with
  | ENary o' (x :: y :: nil) =>
    if nop_eqb o' o then ENary o [lapp o acc x; y] else ENary o [acc; c]
  | _ => ENary o [acc; c]
  end.

(* c * acc, where c is already in normal form: x * (y * acc) for c = x * y *)
Fixpoint rapp (c acc : expr) {struct c} : expr :=
  match c with
  | ENary NProd (x :: y :: nil) => ENary NProd [x; rapp y acc]
  | _ => ENary NProd [c; acc]
  end.

Fixpoint rnest (l : list expr) : expr :=
  match l with
  | [] => ENary NProd []
  | c :: r => match r with [] => c | _ => rapp c (rnest r) end
  end.

Definition renest (o : nop) (l : list expr) : expr :=
  match l with
  | c :: (_ :: _) as r => match o with NProd => rnest l | _ => fold_left (lapp o) r c end
  | _ => ENary o l
  end.

Fixpoint norm (e : expr) : expr :=
  match e with
  | ENary o l => renest o (map norm l)
  | EBin o a b => EBin o (norm a) (norm b)
  | ENot a => ENot (norm a)
  | EIf c t e => EIf (norm c) (norm t) (norm e)
  | ECall f args kw => ECall (norm f) (map norm args) (map (fun kv => (fst kv, norm (snd kv))) kw)
  | ESub a i => ESub (norm a) (match i with ETuple l => ETuple (map norm l) | _ => norm i end)
  | ETuple l => ETuple (map norm l)
  | _ => e
  end.

(* ------------------------------------------------------------------ printable expressions *)

Definition is_tuple (e : expr) : bool := match e with ETuple _ => true | _ => false end.
(* pymbolic.primitives.is_arithmetic_expression on what the model can build *)
Definition is_arith (e : expr) : bool := match e with EBool _ | ETuple _ => false | _ => true end.
Definition is_if (e : expr) : bool := match e with EIf _ _ _ => true | _ => false end.
Definition is_pow (e : expr) : bool := match e with EBin BPow _ _ => true | _ => false end.
Definition is_cmp (e : expr) : bool := match e with EBin (BCmp _) _ _ => true | _ => false end.

(* every element but the last *)
Fixpoint all_but_last {A} (f : A -> bool) (l : list A) : bool :=
  match l with
  | [] => true
  | x :: r => match r with [] => true | _ => f x && all_but_last f r end
  end.

Definition starts_bt (s : string) : bool := match s with String c _ => Ascii.eqb c "`" | _ => false end.
Fixpoint ends_bt (s : string) : bool :=
  match s with
  | EmptyString => false
  | String c EmptyString => Ascii.eqb c "`"
  | String _ r => ends_bt r
  end.
(* remove_backticks leaves the name alone *)
Definition no_bt (s : string) : bool := negb (starts_bt s && ends_bt s).

Fixpoint no_dup (l : list string) : bool :=
  match l with
  | [] => true
  | x :: r => negb (existsb (String.eqb x) r) && no_dup r
  end.

(* Structural sanity of an expression of the language: n-ary nodes have at least two children,
   tuples occur only as subscript index with at least two elements, keyword names are distinct,
   no name is a back-tick quotation.  (The characters of names matter for the LEXER only, see
   Parse.wf_names.) *)
Fixpoint wf_expr (e : expr) : bool :=
  match e with
  | EInt _ | EBool _ => true
  | EVar x => no_bt x
  | ENary _ l => (2 <=? List.length l) && forallb (fun c => wf_expr c && negb (is_tuple c)) l
  | EBin _ a b => wf_expr a && wf_expr b && negb (is_tuple a) && negb (is_tuple b)
  | ENot a => wf_expr a && negb (is_tuple a)
  | EIf c t e => wf_expr c && wf_expr t && wf_expr e
                 && negb (is_tuple c) && negb (is_tuple t) && negb (is_tuple e)
  | ECall f args kw =>
    wf_expr f && negb (is_tuple f)
    && forallb (fun c => wf_expr c && negb (is_tuple c)) args
    && forallb (fun kv => wf_expr (snd kv) && negb (is_tuple (snd kv))) kw
    && no_dup (map fst kw)
  | ESub a i =>
    wf_expr a && negb (is_tuple a)
    && match i with
       | ETuple l => (2 <=? List.length l) && forallb (fun c => wf_expr c && negb (is_tuple c)) l
       | _ => wf_expr i
       end
  | ETuple _ => false
  end.

(* The four shapes whose text pymbolic's parser reads differently (each is refuted separately):
   - a Power as the base of a Power            (a**b)**c      printed  a**b**c
   - a Comparison as right operand of a Comparison   a < (b == c)  printed  a < b == c
   - an If followed by a comma (argument / index that is not the last one)
                                               f(x if c else y, z)
   - a bool constant as operand of + * / // % **     a + True  (the parser asserts) *)
Fixpoint no_defect (e : expr) : bool :=
  match e with
  | EInt _ | EBool _ | EVar _ => true
  | ENary o l =>
    forallb no_defect l
    && match o with NSum | NProd => forallb is_arith l | _ => true end
  | EBin o a b =>
    no_defect a && no_defect b
    && match o with
       | BPow => negb (is_pow a) && is_arith a && is_arith b
       | BCmp _ => negb (is_cmp b)
       | _ => is_arith a && is_arith b
       end
  | ENot a => no_defect a
  | EIf c t e => no_defect c && no_defect t && no_defect e
  | ECall f args kw =>
    no_defect f && forallb no_defect args && forallb (fun kv => no_defect (snd kv)) kw
    && all_but_last (fun c => negb (is_if c)) (args ++ map snd kw)
  | ESub a i =>
    no_defect a
    && match i with
       | ETuple l => forallb no_defect l && all_but_last (fun c => negb (is_if c)) l
       | _ => no_defect i
       end
  | ETuple l => forallb no_defect l
  end.

Definition printable (e : expr) : bool := wf_expr e && no_defect e.
