(* C01, call argument binding -- definitions only.

   The interpreter executes a call as the Python call  func( *parameters, **kw_parameters )
   (dagrt/exec_numpy.py exec_AssignFunctionCall, dagrt/expression.py EvaluationMapper.map_generic_call):
   Python's own binding of positional and keyword arguments to the parameter names of the
   implementation.  `py_bind` below is a specification of that rule for  def f(p1, ..., pn)  with
   defaults for some parameters (positional-or-keyword parameters only, no *args / **kwargs), in the order
   in which CPython's frame set-up detects the errors.

   Generated code for a built-in resolves the call when the code is generated, with
   dagrt.utils.resolve_args(arg_names, default_dict, arg_dict): `resolve_args_dict` mirrors that function
   statement by statement (harness/tr/bind.py pins its text), over a model of the dict `arg_dict`
   (insertion-ordered association list, keys = position numbers or names).  `mk_arg_dict` is the dict
   every caller builds: {0: p0, ..., k-1: p(k-1), name: value, ...}. *)
From Coq Require Import List String Bool Arith.
Import ListNotations.
Open Scope string_scope.
Open Scope list_scope.

Inductive res (E A : Type) : Type := Ok (a : A) | Err (e : E).
Arguments Ok {E A} a.
Arguments Err {E A} e.

(* what is left of a result when the message of the TypeError is forgotten *)
Definition forget {E A : Type} (r : res E A) : option A :=
  match r with Ok a => Some a | Err _ => None end.

(* keys of arg_dict *)
Inductive key : Type := KPos (i : nat) | KName (s : string).

Definition key_eqb (a b : key) : bool :=
  match a, b with
  | KPos i, KPos j => Nat.eqb i j
  | KName s, KName t => String.eqb s t
  | _, _ => false
  end.

(* the three `raise TypeError` of resolve_args.  RBothPosKw: the message is built with
   "'%d' ..." % arg_names[i]  with a str operand, which itself raises TypeError before the intended
   TypeError is constructed -- the class is the same *)
Inductive rerr : Type :=
| RBothPosKw (name : string)
| RNotSpecified (name : string)
| RLeftover (keys : list key).

(* the TypeErrors of a Python call, as CPython words them *)
Inductive perr : Type :=
| PUnexpectedKeyword (name : string)      (* got an unexpected keyword argument *)
| PMultipleValues (name : string)         (* got multiple values for argument *)
| PTooManyPositional (given : nat)        (* takes n positional arguments but m were given *)
| PMissing (names : list string).         (* missing k required positional arguments *)

Section Bind.
Context {V : Type}.

(* name-keyed dicts (default_dict, the keyword arguments) *)
Fixpoint lookup (n : string) (l : list (string * V)) : option V :=
  match l with
  | [] => None
  | (k, v) :: r => if String.eqb n k then Some v else lookup n r
  end.

(* ------------------------------------------------------------------ dagrt.utils.resolve_args *)

Definition dict : Type := list (key * V).

(* k in d *)
Definition d_mem (k : key) (d : dict) : bool := existsb (fun p => key_eqb k (fst p)) d.

(* d.pop(k): the value and the dict without the entry (order of the others kept); None iff k not in d *)
Fixpoint d_pop (k : key) (d : dict) : option (V * dict) :=
  match d with
  | [] => None
  | (k', v) :: r =>
      if key_eqb k k' then Some (v, r)
      else match d_pop k r with
           | Some (w, r') => Some (w, (k', v) :: r')
           | None => None
           end
  end.

(*  for i, name in enumerate(arg_names):
        if i in arg_dict:
            args.append(arg_dict.pop(i))
            if name in arg_dict:
                raise TypeError(...)
        elif name in arg_dict:
            args.append(arg_dict.pop(name))
        else:
            if name in default_dict:
                args.append(default_dict[name])
            else:
                raise TypeError(...)                                                    *)
Fixpoint resolve_loop (i : nat) (arg_names : list string) (default_dict : list (string * V))
         (arg_dict : dict) (args : list V) : res rerr (list V * dict) :=
  match arg_names with
  | [] => Ok (args, arg_dict)
  | name :: rest =>
      match d_pop (KPos i) arg_dict with
      | Some (v, d1) =>
          if d_mem (KName name) d1 then Err (RBothPosKw name)
          else resolve_loop (S i) rest default_dict d1 (args ++ [v])
      | None =>
          match d_pop (KName name) arg_dict with
          | Some (v, d1) => resolve_loop (S i) rest default_dict d1 (args ++ [v])
          | None =>
              match lookup name default_dict with
              | Some v => resolve_loop (S i) rest default_dict arg_dict (args ++ [v])
              | None => Err (RNotSpecified name)
              end
          end
      end
  end.

(*  if arg_dict: raise TypeError("leftover ...");  return tuple(args)  *)
Definition resolve_finish (r : res rerr (list V * dict)) : res rerr (list V) :=
  match r with
  | Err e => Err e
  | Ok (args, []) => Ok args
  | Ok (_, d) => Err (RLeftover (map fst d))
  end.

Definition resolve_args_dict (arg_names : list string) (default_dict : list (string * V)) (arg_dict : dict)
  : res rerr (list V) :=
  resolve_finish (resolve_loop 0 arg_names default_dict arg_dict []).

(* the dict the callers build (dagrt/codegen/expressions.py map_generic_call, dagrt/data.py
   _get_arg_dict_from_call_stmt): positions 0.. first, then the keywords in their order *)
Fixpoint pos_entries (i : nat) (positional : list V) : dict :=
  match positional with
  | [] => []
  | v :: r => (KPos i, v) :: pos_entries (S i) r
  end.

Definition kw_entries (keywords : list (string * V)) : dict :=
  map (fun p => (KName (fst p), snd p)) keywords.

Definition mk_arg_dict (positional : list V) (keywords : list (string * V)) : dict :=
  pos_entries 0 positional ++ kw_entries keywords.

Definition resolve_args (arg_names : list string) (default_dict : list (string * V))
           (positional : list V) (keywords : list (string * V)) : res rerr (list V) :=
  resolve_args_dict arg_names default_dict (mk_arg_dict positional keywords).

(* ------------------------------------------------------------------ Python's call binding *)

Fixpoint index_of (k : string) (names : list string) : option nat :=
  match names with
  | [] => None
  | n :: r => if String.eqb k n then Some 0 else option_map S (index_of k r)
  end.

(* the keyword arguments, in call order, after the positional ones have been put into the first
   `npos` slots: the name must be a parameter, and its slot must still be empty *)
Fixpoint kw_check (params : list string) (npos : nat) (keywords : list (string * V)) : option perr :=
  match keywords with
  | [] => None
  | (k, _) :: r =>
      match index_of k params with
      | None => Some (PUnexpectedKeyword k)
      | Some j => if Nat.ltb j npos then Some (PMultipleValues k) else kw_check params npos r
      end
  end.

(* the slot of every parameter: positional value, else keyword value, else default, else empty *)
Fixpoint slots (params : list string) (positional : list V) (keywords defaults : list (string * V))
  : list (string * option V) :=
  match params with
  | [] => []
  | n :: rest =>
      match positional with
      | v :: pos' => (n, Some v) :: slots rest pos' keywords defaults
      | [] => (n, match lookup n keywords with
                  | Some v => Some v
                  | None => lookup n defaults
                  end) :: slots rest [] keywords defaults
      end
  end.

Fixpoint missing (sl : list (string * option V)) : list string :=
  match sl with
  | [] => []
  | (n, None) :: r => n :: missing r
  | (_, Some _) :: r => missing r
  end.

Fixpoint values (sl : list (string * option V)) : list V :=
  match sl with
  | [] => []
  | (_, None) :: r => values r
  | (_, Some v) :: r => v :: values r
  end.

Definition py_bind (params : list string) (defaults : list (string * V))
           (positional : list V) (keywords : list (string * V)) : res perr (list V) :=
  match kw_check params (List.length positional) keywords with
  | Some e => Err e
  | None =>
      if Nat.ltb (List.length params) (List.length positional) then Err (PTooManyPositional (List.length positional))
      else
        let sl := slots params positional keywords defaults in
        match missing sl with
        | [] => Ok (values sl)
        | m => Err (PMissing m)
        end
  end.

(* when a call is well formed, said without reference to either algorithm *)
Definition call_ok (params : list string) (defaults : list (string * V))
           (positional : list V) (keywords : list (string * V)) : Prop :=
  List.length positional <= List.length params /\
  (forall k, In k (map fst keywords) -> In k (skipn (List.length positional) params)) /\
  (forall n, In n (skipn (List.length positional) params) ->
             In n (map fst keywords) \/ In n (map fst defaults)).

End Bind.

(* ------------------------------------------------------------------ the table of built-ins
   (rows generated by harness/tr/bind.py into gen/GenBind.v) *)

(* the text the Python generator emits for a call of the built-in *)
Inductive py_pattern : Type :=
| PSelfBuiltin (impl : string)        (* "self._builtin_X({args})": the copy of builtins_python.builtin_X *)
| PPositionalOnly (text : string).    (* e.g. "{numpy}.size({args})": another callable, called positionally *)

Record builtin_row : Type := {
  b_id : string;                              (* Function.identifier *)
  b_class : string;                           (* class in dagrt/function_registry.py *)
  b_arg_names : list string;                  (* what iterating Function.arg_names gives *)
  b_defaults : list (string * string);        (* Function.default_dict, values as source text *)
  b_pattern : py_pattern;                     (* second component of the pair in _make_bfr *)
  b_interp_impl : string;                     (* builtins_python.builtins[identifier]: the interpreter's callee *)
  b_impl_params : list string;                (* its parameter names *)
  b_impl_defaults : list (string * string)    (* its parameter defaults, as source text *)
}.

(* the built-ins of the language documentation (docstring of dagrt/function_registry.py) *)
Definition documented_builtins : list string :=
  ["<builtin>norm_1"; "<builtin>norm_2"; "<builtin>norm_inf"; "<builtin>elementwise_abs";
   "<builtin>dot_product"; "<builtin>len"; "<builtin>isnan"; "<builtin>array"; "<builtin>matmul";
   "<builtin>transpose"; "<builtin>linear_solve"; "<builtin>svd"; "<builtin>print"].

Fixpoint str_list_eqb (a b : list string) : bool :=
  match a, b with
  | [], [] => true
  | x :: a', y :: b' => String.eqb x y && str_list_eqb a' b'
  | _, _ => false
  end.

Fixpoint str_pairs_eqb (a b : list (string * string)) : bool :=
  match a, b with
  | [], [] => true
  | (x, u) :: a', (y, w) :: b' => String.eqb x y && String.eqb u w && str_pairs_eqb a' b'
  | _, _ => false
  end.

Fixpoint str_mem (x : string) (l : list string) : bool :=
  match l with [] => false | y :: r => String.eqb x y || str_mem x r end.

Fixpoint str_nodup (l : list string) : bool :=
  match l with [] => true | x :: r => negb (str_mem x r) && str_nodup r end.

(* a row is consistent: the declared names are what the interpreter's callee takes, in the same
   order, with the same defaults; a "self._builtin_X" pattern names the interpreter's callee *)
Definition row_ok (r : builtin_row) : bool :=
  str_nodup (b_arg_names r) &&
  str_list_eqb (b_arg_names r) (b_impl_params r) &&
  str_pairs_eqb (b_defaults r) (b_impl_defaults r) &&
  match b_pattern r with
  | PSelfBuiltin impl => String.eqb impl (b_interp_impl r)
  | PPositionalOnly _ => true
  end.

(* default_dict with its values (source text in the table) evaluated by `ev` *)
Definition eval_defaults {V : Type} (ev : string -> V) (d : list (string * string)) : list (string * V) :=
  map (fun p => (fst p, ev (snd p))) d.
