(* Model of dagrt/data.py: SymbolKindTable.set (181-204), KindInferenceMapper restricted
   to constants / variables / sums / products / quotients / comparisons (300-352, 404),
   and the SymbolKindFinder work-list iteration (482-611).  Definitions only.

   Mirrors what the code does, defects included:
   * `set`: the first kind of a name is stored; later kinds are unified in
     (`unify(kind, tbl[name])`); a failing unification is printed and ignored
     (switch c_set_raises: re-raised); inserting a NEW name does not set the change flag
     (switch c_ins_changed: it does).
   * the mapper object is created BEFORE the loop variables of the statement are set, with
     `result.per_phase_table.get(phase_name, {})`: if the phase has no table yet, the mapper
     keeps a detached empty dict and does not see what `set` creates afterwards (lookup_kim).
   * statements are popped from the END of the queue; deferred statements go to a push
     buffer that becomes the queue when the queue is empty; "no progress" => diagnostics
     (AssertionError if a left-over statement can now be inferred) and RuntimeError.
   * a subscripted assignment only sets its loop variables and is dropped (`continue`),
     which does not count as progress.
   * loop variables are registered only when their statement is popped (switch
     c_loops_prepass: also up front, for all statements, right after the forced kinds).
   * the closing consistency loop evaluates every `stmt.expression` (not flattened) once more
     with check=False (make_kim ignores its `check` argument) and lets exceptions escape.

   `flatten` (pymbolic) is external: a statement carries both `stmt.expression` (b_raw) and
   `flatten(stmt.expression)` (b_flat, computed by the real pymbolic in the harness); the
   theorems hold for arbitrary pairs. *)
From Coq Require Import List String Bool Arith.
Import ListNotations.
From Dagrt Require Import Unify.

Record cfg := {
  c_ut_int : bool;             (* unify: UserType branch accepts Integer *)
  c_arr_int : bool;            (* unify: Array branch accepts Integer *)
  c_ins_changed : bool;        (* set: inserting a new name sets _changed *)
  c_set_raises : bool;         (* set: a failing unification is re-raised *)
  c_loops_prepass : bool;      (* finder: loop variables are registered before the work-list loop *)
  c_is_state : string -> bool; (* dagrt.utils.is_state_variable *)
  c_init_global : list string  (* names preset to Scalar(is_real_valued=True) in SymbolKindTable.__init__ *)
}.

Definition U (c : cfg) := unify (c_ut_int c) (c_arr_int c).

(* dagrt.utils.is_state_variable, from its two literal tuples (GenC14.v) *)
Definition is_state_variable (exact prefixes : list string) (x : string) : bool :=
  existsb (String.eqb x) exact || existsb (fun p => String.prefix p x) prefixes.

(* ------------------------------------------------------------------ expressions *)

Inductive expr :=
| EConst (is_real : bool)        (* numeric constant; complex => false *)
| EVar (x : string)
| ESum (l : list expr)
| EProd (l : list expr)
| EQuot (n d : expr)
| ECmp (a b : expr).

Inductive ires :=
| IOk (k : okind)
| IUnable                        (* raise UnableToInferKind *)
| IErr (e : err).

(* map_sum with check=False: children that cannot be inferred are skipped (last_exc is
   remembered); `if kind is None: raise last_exc` -- with last_exc = None that is a TypeError *)
Fixpoint sum_fold (c : cfg) (rs : list ires) (kind : okind) (exc : bool) : ires :=
  match rs with
  | [] => match kind with
          | None => if exc then IUnable else IErr TypeError
          | Some _ => IOk kind
          end
  | r :: rest =>
      match r with
      | IUnable => sum_fold c rest kind true
      | IErr e => IErr e
      | IOk k => match U c kind k with
                 | Ok k' => sum_fold c rest k' exc
                 | Err e => IErr e
                 end
      end
  end.

(* map_product_like *)
Fixpoint prod_fold (c : cfg) (rs : list ires) (kind : okind) : ires :=
  match rs with
  | [] => IOk kind
  | r :: rest =>
      match r with
      | IUnable => IUnable
      | IErr e => IErr e
      | IOk k => match U c kind k with
                 | Ok k' => prod_fold c rest k'
                 | Err e => IErr e
                 end
      end
  end.

Fixpoint infer (c : cfg) (lk : string -> option okind) (e : expr) : ires :=
  match e with
  | EConst r => IOk (Some (KScalar r))
  | EVar x => match lk x with Some k => IOk k | None => IUnable end
  | ESum l => sum_fold c (map (infer c lk) l) None false
  | EProd l => prod_fold c (map (infer c lk) l) None
  | EQuot n d => prod_fold c [infer c lk n; infer c lk d] None
  | ECmp _ _ => IOk (Some KBool)
  end.

(* ------------------------------------------------------------------ the table *)

(* (None, x): global_table[x];  (Some p, x): per_phase_table[p][x] *)
Definition key := (option string * string)%type.

Definition key_eqb (a b : key) : bool :=
  match fst a, fst b with
  | None, None => true
  | Some p, Some q => String.eqb p q
  | _, _ => false
  end && String.eqb (snd a) (snd b).

Definition table := list (key * okind).

Fixpoint tfind (t : table) (k : key) : option okind :=
  match t with
  | [] => None
  | (k', v) :: r => if key_eqb k k' then Some v else tfind r k
  end.

Fixpoint tupd (t : table) (k : key) (v : okind) : table :=
  match t with
  | [] => []
  | (k', v') :: r => if key_eqb k k' then (k', v) :: r else (k', v') :: tupd r k v
  end.

Record tstate := { tbl : table; changed : bool; swallowed : bool }.

Definition key_of (c : cfg) (p x : string) : key :=
  if c_is_state c x then (None, x) else (Some p, x).

(* SymbolKindTable.set *)
Definition tset (c : cfg) (st : tstate) (p x : string) (k : okind) : res tstate :=
  let ky := key_of c p x in
  match tfind (tbl st) ky with
  | Some old =>
      if okind_eqb old k then Ok st
      else match U c k old with
           | Err e => if c_set_raises c then Err e
                      else Ok {| tbl := tbl st; changed := changed st; swallowed := true |}
           | Ok k' => if okind_eqb old k' then Ok st
                      else Ok {| tbl := tupd (tbl st) ky k'; changed := true; swallowed := swallowed st |}
           end
  | None => Ok {| tbl := app (tbl st) [(ky, k)];
                  changed := if c_ins_changed c then true else changed st;
                  swallowed := swallowed st |}
  end.

(* KindInferenceMapper.map_variable on the two dicts the mapper holds *)
Definition lookup (t : table) (p x : string) : option okind :=
  match tfind t (None, x) with
  | Some k => Some k
  | None => tfind t (Some p, x)
  end.

Definition has_phase (t : table) (p : string) : bool :=
  existsb (fun e => match fst (fst e) with Some q => String.eqb p q | None => false end) t.

(* the mapper made by make_kim when the table was t0, used when the table is t *)
Definition lookup_kim (t0 t : table) (p x : string) : option okind :=
  match tfind t (None, x) with
  | Some k => Some k
  | None => if has_phase t0 p then tfind t (Some p, x) else None
  end.

(* ------------------------------------------------------------------ statements *)

Record bstmt := {
  b_lhs : string;            (* stmt.assignee *)
  b_sub : bool;              (* bool(stmt.assignee_subscript) *)
  b_loops : list string;     (* [ident for ident, _, _ in stmt.loops] *)
  b_flat : expr;             (* flatten(stmt.expression) *)
  b_raw : expr               (* stmt.expression *)
}.

Definition qitem := (string * bstmt)%type.   (* (phase_name, stmt) *)

Fixpoint set_loops (c : cfg) (st : tstate) (p : string) (l : list string) : res tstate :=
  match l with
  | [] => Ok st
  | i :: r => match tset c st p i (Some KInt) with
              | Ok st' => set_loops c st' p r
              | Err e => Err e
              end
  end.

Inductive pres :=
| PErr (e : err)
| PDone (st : tstate)        (* subscripted assignment: `continue` *)
| PDefer (st : tstate)       (* UnableToInferKind: appended to the push buffer *)
| PProgress (st : tstate).   (* made_progress = True *)

(* body of the inner loop for one popped (phase_name, stmt) *)
Definition process (c : cfg) (st : tstate) (it : qitem) : pres :=
  let p := fst it in let s := snd it in
  match set_loops c st p (b_loops s) with
  | Err e => PErr e
  | Ok st1 =>
      if b_sub s then PDone st1
      else match infer c (lookup_kim (tbl st) (tbl st1) p) (b_flat s) with
           | IUnable => PDefer st1
           | IErr e => PErr e
           | IOk k => match tset c st1 p (b_lhs s) k with
                      | Ok st2 => PProgress st2
                      | Err e => PErr e
                      end
           end
  end.

Inductive fres :=
| FOk (st : tstate)
| FErr (e : err)
| FOutOfFuel.

(* "Left-over statements in kind inference": push buffer in append order, stmt.expression
   (not flattened); then RuntimeError("failed to infer kinds") *)
Fixpoint diagnostics (c : cfg) (t : table) (l : list qitem) : err :=
  match l with
  | [] => RuntimeError
  | it :: r => match infer c (lookup t (fst it)) (b_raw (snd it)) with
               | IUnable => diagnostics c t r
               | IOk _ => AssertionError
               | IErr e => e
               end
  end.

(* queue: head = next element popped (Python pops from the end of its list);
   buf: push buffer, head = last appended *)
Fixpoint inner (c : cfg) (fuel : nat) (st : tstate) (queue buf : list qitem) (progress : bool) : fres :=
  match fuel with
  | 0 => FOutOfFuel
  | S f =>
      match queue with
      | [] => match buf with
              | [] => FOk st
              | _ :: _ => if progress then inner c f st buf [] false
                          else FErr (diagnostics c (tbl st) (rev buf))
              end
      | it :: q =>
          match process c st it with
          | PErr e => FErr e
          | PDone st' => inner c f st' q buf progress
          | PDefer st' => inner c f st' q (it :: buf) progress
          | PProgress st' => inner c f st' q buf true
          end
      end
  end.

(* closing consistency loop *)
Fixpoint final_check (c : cfg) (t : table) (l : list qitem) : option err :=
  match l with
  | [] => None
  | it :: r => match infer c (lookup t (fst it)) (b_raw (snd it)) with
               | IOk _ => final_check c t r
               | IUnable => Some UnableToInferKind
               | IErr e => Some e
               end
  end.

Inductive outcome :=
| OTable (t : table) (printed : bool)   (* printed: some "trying to derive 'kind'" line was printed *)
| OErr (e : err)
| OOutOfFuel.

(* `while True:` ... `if not result.is_changed(): break` *)
Fixpoint outer (c : cfg) (fuel : nat) (st : tstate) (all : list qitem) : outcome :=
  match fuel with
  | 0 => OOutOfFuel
  | S f =>
      match inner c (S (List.length all) * S (S (List.length all)))
                  {| tbl := tbl st; changed := false; swallowed := swallowed st |}
                  (rev all) [] false with
      | FOutOfFuel => OOutOfFuel
      | FErr e => OErr e
      | FOk st' =>
          if changed st' then outer c f st' all
          else match final_check c (tbl st') all with
               | Some e => OErr e
               | None => OTable (tbl st') (swallowed st')
               end
      end
  end.

Fixpoint set_forced (c : cfg) (st : tstate) (l : list (string * string * okind)) : res tstate :=
  match l with
  | [] => Ok st
  | (p, x, k) :: r => match tset c st p x k with
                      | Ok st' => set_forced c st' r
                      | Err e => Err e
                      end
  end.

Definition init_state (c : cfg) : tstate :=
  {| tbl := map (fun x => ((None, x), Some (KScalar true))) (c_init_global c);
     changed := false; swallowed := false |}.

(* switch c_loops_prepass: `for phase_name, phase in zip(names, phases): for stmt in phase:
   ... for ident, _, _ in stmt.loops: result.set(phase_name, ident, kind=Integer())` *)
Fixpoint prepass (c : cfg) (st : tstate) (l : list qitem) : res tstate :=
  match l with
  | [] => Ok st
  | it :: r => match set_loops c st (fst it) (b_loops (snd it)) with
               | Ok st' => prepass c st' r
               | Err e => Err e
               end
  end.

(* SymbolKindFinder.__call__ on the flat list of (phase_name, stmt) in program order *)
Definition run_queue (c : cfg) (fuel : nat) (forced : list (string * string * okind))
                     (all : list qitem) : outcome :=
  match set_forced c (init_state c) forced with
  | Err e => OErr e
  | Ok st =>
      match (if c_loops_prepass c then prepass c st all else Ok st) with
      | Err e => OErr e
      | Ok st' => outer c fuel st' all
      end
  end.

Definition queue_of (phases : list (string * list bstmt)) : list qitem :=
  flat_map (fun np => map (pair (fst np)) (snd np)) phases.

Definition find_kinds (c : cfg) (fuel : nat) (forced : list (string * string * okind))
                      (phases : list (string * list bstmt)) : outcome :=
  run_queue c fuel forced (queue_of phases).

(* ------------------------------------------------------------------ comparing outcomes *)

(* dict equality: same keys, same values (insertion order is not compared) *)
Definition table_equiv (t t' : table) : Prop := forall k, tfind t k = tfind t' k.

Definition subtable (t t' : table) : bool :=
  forallb (fun e => match tfind t' (fst e) with Some v => okind_eqb v (snd e) | None => false end) t.
Definition table_eqb (t t' : table) : bool := subtable t t' && subtable t' t.

(* both fail, or both return equal tables *)
Definition outcome_sim (a b : outcome) : Prop :=
  match a, b with
  | OTable t _, OTable t' _ => table_equiv t t'
  | OErr _, OErr _ => True
  | _, _ => False
  end.

Definition outcome_simb (a b : outcome) : bool :=
  match a, b with
  | OTable t _, OTable t' _ => table_eqb t t'
  | OErr _, OErr _ => true
  | _, _ => false
  end.

(* exact comparison used by the correspondence check (error class, table, printed flag) *)
Definition outcome_eqb (a b : outcome) : bool :=
  match a, b with
  | OTable t x, OTable t' y => table_eqb t t' && Bool.eqb x y
  | OErr e, OErr f => err_eqb e f
  | _, _ => false
  end.
