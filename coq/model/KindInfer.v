(* Model of dagrt/data.py: SymbolKindTable.set, KindInferenceMapper restricted to constants /
   variables / sums / products / quotients / comparisons / function calls, the SymbolKindFinder
   work-list iteration, the DAGCode front end infer_kinds, and of the result kinds of the
   functions of dagrt/function_registry.py (get_result_kinds with check=False, which is what
   SymbolKindFinder.make_kim hard-wires; dagrt/utils.py resolve_args).  Definitions only.

   Mirrors what the code does, defects included:
   * `set`: the first kind of a name is stored; later kinds are unified in
     (`unify(kind, tbl[name])`); a failing unification is printed and ignored
     (switch c_set_raises: re-raised); inserting a NEW name does not set the change flag
     (switch c_ins_changed: it does).
   * the mapper object is created BEFORE the loop variables of the statement are set, with
     `result.per_phase_table.get(phase_name, {})`: if the phase has no table yet, the mapper
     keeps a detached empty dict and does not see what `set` creates afterwards (lookup_kim).
   * statements are popped from the END of the queue; deferred statements go to a push
     buffer that becomes the queue when the queue is empty; "no progress" => diagnostics
     (AssertionError if a left-over statement can now be inferred) and RuntimeError
     (switch c_restart: only if the table did not change during this pass; otherwise the
     next pass over all statements is started).
   * a subscripted assignment only sets its loop variables and is dropped (`continue`),
     which does not count as progress.
   * loop variables are registered only when their statement is popped (switch
     c_loops_prepass: also up front, for all statements, right after the forced kinds).
   * the closing consistency loop evaluates every `stmt.expression` (not flattened) once more
     with check=False (make_kim ignores its `check` argument) and lets exceptions escape.
   * map_generic_call: the registry lookup comes first (FunctionNotFound escapes), an argument
     that cannot be inferred is passed as None, ANY exception of get_result_kinds (wrong
     arguments for resolve_args, tuple unpacking, AttributeError on `.is_real_valued`, ...)
     becomes UnableToInferKind; in an expression the function must return exactly one value.
   * matmul / transpose / linear_solve / svd read `a_kind.is_real_valued` of whatever kind they
     are given: a Scalar is accepted, Integer/Boolean/UserType end in AttributeError = unable
     (switch c_arr_only: unable unless the matrix arguments are arrays).

   `flatten` (pymbolic) is external: an Assign carries both `stmt.expression` (raw) and
   `flatten(stmt.expression)` (flat, computed by the real pymbolic in the harness); the
   theorems hold for arbitrary pairs. *)
From Coq Require Import List String Bool Arith.
Import ListNotations.
From Dagrt Require Import Unify.

(* ------------------------------------------------------------------ functions *)

(* which get_result_kinds a registered function uses *)
Inductive rkind :=
| RNorm | RAbs | RDot | RLen | RIsNan | RArray | RMatMul | RTranspose | RLinSolve | RSvd | RPrint
| RRhs (out : string)          (* _ODERightHandSide: UserType(output_type_id) *)
| RFixed (ks : list kind).     (* FixedResultKindsFunction: result_kinds, arguments not looked at *)

Record fsig := {
  f_args : list string;        (* arg_names *)
  f_nres : nat;                (* len(result_names) *)
  f_rk : rkind
}.

Definition registry := list (string * fsig).

Fixpoint rlookup (reg : registry) (f : string) : option fsig :=
  match reg with
  | [] => None
  | (n, s) :: r => if String.eqb n f then Some s else rlookup r f
  end.

Fixpoint alookup {A} (l : list (string * A)) (x : string) : option A :=
  match l with
  | [] => None
  | (n, v) :: r => if String.eqb n x then Some v else alookup r x
  end.

Fixpoint aremove {A} (l : list (string * A)) (x : string) : list (string * A) :=
  match l with
  | [] => []
  | (n, v) :: r => if String.eqb n x then aremove r x else (n, v) :: aremove r x
  end.

(* dagrt/utils.py resolve_args with an empty default_dict: None = TypeError *)
Fixpoint resolve {A} (names : list string) (pos : list A) (kw : list (string * A)) : option (list A) :=
  match names with
  | [] => match pos, kw with [], [] => Some [] | _, _ => None end
  | n :: names' =>
      match pos with
      | p :: pos' =>
          match alookup kw n with
          | Some _ => None
          | None => match resolve names' pos' kw with Some r => Some (p :: r) | None => None end
          end
      | [] =>
          match alookup kw n with
          | Some v => match resolve names' [] (aremove kw n) with Some r => Some (v :: r) | None => None end
          | None => None
          end
      end
  end.

(* the LAST [length kwn] values are keyword arguments with these names *)
Definition split_args {A} (vals : list A) (kwn : list string) : list A * list (string * A) :=
  let npos := List.length vals - List.length kwn in
  (firstn npos vals, combine kwn (skipn npos vals)).

(* `x_kind.is_real_valued`: None = AttributeError *)
Definition realness (k : okind) : option bool :=
  match k with
  | Some (KScalar r) | Some (KArray r) => Some r
  | _ => None
  end.

(* transpose / svd: realness of the result, None = an exception *)
Definition mat1 (arr_only : bool) (x : okind) : option bool :=
  if arr_only then match x with Some (KArray r) => Some r | _ => None end
  else match x with None => None | _ => realness x end.

(* matmul / linear_solve; `a_kind.is_real_valued and b_kind.is_real_valued` short-circuits *)
Definition mat2 (arr_only : bool) (x y : okind) : option bool :=
  if arr_only then
    match x, y with
    | Some (KArray rx), Some (KArray ry) => Some (rx && ry)
    | _, _ => None
    end
  else
    match x, y with
    | None, _ | _, None => None
    | _, _ => match realness x with
              | None => None
              | Some false => Some false
              | Some true => realness y
              end
    end.

(* get_result_kinds(arg_kinds, check=False) after resolve_args; None = an exception *)
Definition result_kinds (arr_only : bool) (rk : rkind) (a : list okind) : option (list kind) :=
  match rk, a with
  | RNorm, [_] => Some [KScalar true]
  | RAbs, [x] =>
      match x with
      | Some (KUser i) => Some [KUser i]
      | Some (KArray _) => Some [KArray true]
      | Some (KScalar _) => Some [KScalar true]
      | _ => None
      end
  | RDot, [_; _] => Some [KScalar false]
  | RLen, [_] => Some [KScalar true]
  | RIsNan, [_] => Some [KBool]
  | RArray, [_] => Some [KArray true]
  | RMatMul, [x; y; _; _] | RLinSolve, [x; y; _; _] =>
      match mat2 arr_only x y with Some r => Some [KArray r] | None => None end
  | RTranspose, [x; _] =>
      match mat1 arr_only x with Some r => Some [KArray r] | None => None end
  | RSvd, [x; _] =>
      match mat1 arr_only x with Some r => Some [KArray r; KArray r; KArray r] | None => None end
  | RPrint, [_] => Some []
  | RRhs out, _ => Some [KUser out]
  | _, _ => None
  end.

(* func.get_result_kinds(arg_kinds, False) including resolve_args *)
Definition call_kinds (arr_only : bool) (s : fsig) (vals : list okind) (kwn : list string)
  : option (list kind) :=
  match f_rk s with
  | RFixed ks => Some ks
  | rk => let (pos, kw) := split_args vals kwn in
          match resolve (f_args s) pos kw with
          | None => None
          | Some a => result_kinds arr_only rk a
          end
  end.

(* ------------------------------------------------------------------ configuration *)

Record cfg := {
  c_ut_int : bool;             (* unify: UserType branch accepts Integer *)
  c_arr_int : bool;            (* unify: Array branch accepts Integer *)
  c_ins_changed : bool;        (* set: inserting a new name sets _changed *)
  c_set_raises : bool;         (* set: a failing unification is re-raised *)
  c_loops_prepass : bool;      (* finder: loop variables are registered before the work-list loop *)
  c_restart : bool;            (* finder: no progress, but the table changed in this pass => next pass *)
  c_arr_only : bool;           (* registry: matrix built-ins are unable unless given arrays *)
  c_reg : registry;            (* the function registry handed to SymbolKindFinder *)
  c_is_state : string -> bool; (* dagrt.utils.is_state_variable *)
  c_init_global : list string  (* names preset to Scalar(is_real_valued=True) in SymbolKindTable.__init__ *)
}.

Definition U (c : cfg) := unify (c_ut_int c) (c_arr_int c).

(* dagrt.utils.is_state_variable, from its two literal tuples (GenC14.v) *)
Definition is_state_variable (exact prefixes : list string) (x : string) : bool :=
  existsb (String.eqb x) exact || existsb (fun p => String.prefix p x) prefixes.

(* ------------------------------------------------------------------ expressions *)

Inductive expr :=
| EConst (is_real : bool)        (* numeric constant; complex => false *)
| EVar (x : string)
| ESum (l : list expr)
| EProd (l : list expr)
| EQuot (n d : expr)
| ECmp (a b : expr)
| ECall (f : string) (args : list expr) (kwn : list string).
   (* Call / CallWithKwargs of the function symbol f; the LAST [length kwn] arguments are the
      keyword arguments with these names (dict(enumerate(parameters)) then kw_parameters) *)

Inductive ires :=
| IOk (k : okind)
| IUnable                        (* raise UnableToInferKind *)
| IErr (e : err).

(* result of map_generic_call(..., single_return_only=False) *)
Inductive mres :=
| MOk (ks : list okind)
| MUnable
| MErr (e : err).

(* map_sum with check=False: children that cannot be inferred are skipped (last_exc is
   remembered); `if kind is None: raise last_exc` -- with last_exc = None that is a TypeError *)
Fixpoint sum_fold (c : cfg) (rs : list ires) (kind : okind) (exc : bool) : ires :=
  match rs with
  | [] => match kind with
          | None => if exc then IUnable else IErr TypeError
          | Some _ => IOk kind
          end
  | r :: rest =>
      match r with
      | IUnable => sum_fold c rest kind true
      | IErr e => IErr e
      | IOk k => match U c kind k with
                 | Ok k' => sum_fold c rest k' exc
                 | Err e => IErr e
                 end
      end
  end.

(* map_product_like *)
Fixpoint prod_fold (c : cfg) (rs : list ires) (kind : okind) : ires :=
  match rs with
  | [] => IOk kind
  | r :: rest =>
      match r with
      | IUnable => IUnable
      | IErr e => IErr e
      | IOk k => match U c kind k with
                 | Ok k' => prod_fold c rest k'
                 | Err e => IErr e
                 end
      end
  end.

(* map_generic_call: `try: arg_kinds[key] = self.rec(val) except UnableToInferKind: ... = None`,
   in the order of the argument dict; any other exception escapes *)
Fixpoint arg_kinds (rs : list ires) : res (list okind) :=
  match rs with
  | [] => Ok []
  | r :: rest =>
      match r with
      | IErr e => Err e
      | IUnable => match arg_kinds rest with Ok l => Ok (None :: l) | Err e => Err e end
      | IOk k => match arg_kinds rest with Ok l => Ok (k :: l) | Err e => Err e end
      end
  end.

(* map_generic_call on the results of the arguments *)
Definition call_res (c : cfg) (f : string) (rs : list ires) (kwn : list string) : mres :=
  match rlookup (c_reg c) f with
  | None => MErr FunctionNotFound
  | Some sg =>
      match arg_kinds rs with
      | Err e => MErr e
      | Ok aks => match call_kinds (c_arr_only c) sg aks kwn with
                  | None => MUnable
                  | Some ks => MOk (map (@Some kind) ks)
                  end
      end
  end.

(* single_return_only=True *)
Definition single (m : mres) : ires :=
  match m with
  | MOk [k] => IOk k
  | MOk _ => IErr RuntimeError
  | MUnable => IUnable
  | MErr e => IErr e
  end.

Fixpoint infer (c : cfg) (lk : string -> option okind) (e : expr) : ires :=
  match e with
  | EConst r => IOk (Some (KScalar r))
  | EVar x => match lk x with Some k => IOk k | None => IUnable end
  | ESum l => sum_fold c (map (infer c lk) l) None false
  | EProd l => prod_fold c (map (infer c lk) l) None
  | EQuot n d => prod_fold c [infer c lk n; infer c lk d] None
  | ECmp _ _ => IOk (Some KBool)
  | ECall f args kwn => single (call_res c f (map (infer c lk) args) kwn)
  end.

(* ------------------------------------------------------------------ the table *)

(* (None, x): global_table[x];  (Some p, x): per_phase_table[p][x] *)
Definition key := (option string * string)%type.

Definition key_eqb (a b : key) : bool :=
  match fst a, fst b with
  | None, None => true
  | Some p, Some q => String.eqb p q
  | _, _ => false
  end && String.eqb (snd a) (snd b).

Definition table := list (key * okind).

Fixpoint tfind (t : table) (k : key) : option okind :=
  match t with
  | [] => None
  | (k', v) :: r => if key_eqb k k' then Some v else tfind r k
  end.

Fixpoint tupd (t : table) (k : key) (v : okind) : table :=
  match t with
  | [] => []
  | (k', v') :: r => if key_eqb k k' then (k', v) :: r else (k', v') :: tupd r k v
  end.

Record tstate := { tbl : table; changed : bool; swallowed : bool }.

Definition key_of (c : cfg) (p x : string) : key :=
  if c_is_state c x then (None, x) else (Some p, x).

(* SymbolKindTable.set *)
Definition tset (c : cfg) (st : tstate) (p x : string) (k : okind) : res tstate :=
  let ky := key_of c p x in
  match tfind (tbl st) ky with
  | Some old =>
      if okind_eqb old k then Ok st
      else match U c k old with
           | Err e => if c_set_raises c then Err e
                      else Ok {| tbl := tbl st; changed := changed st; swallowed := true |}
           | Ok k' => if okind_eqb old k' then Ok st
                      else Ok {| tbl := tupd (tbl st) ky k'; changed := true; swallowed := swallowed st |}
           end
  | None => Ok {| tbl := app (tbl st) [(ky, k)];
                  changed := if c_ins_changed c then true else changed st;
                  swallowed := swallowed st |}
  end.

(* KindInferenceMapper.map_variable on the two dicts the mapper holds *)
Definition lookup (t : table) (p x : string) : option okind :=
  match tfind t (None, x) with
  | Some k => Some k
  | None => tfind t (Some p, x)
  end.

Definition has_phase (t : table) (p : string) : bool :=
  existsb (fun e => match fst (fst e) with Some q => String.eqb p q | None => false end) t.

(* the mapper made by make_kim when the table was t0, used when the table is t *)
Definition lookup_kim (t0 t : table) (p x : string) : option okind :=
  match tfind t (None, x) with
  | Some k => Some k
  | None => if has_phase t0 p then tfind t (Some p, x) else None
  end.

(* ------------------------------------------------------------------ statements *)

Inductive rhs :=
| RExpr (flat raw : expr)      (* Assign: flatten(stmt.expression), stmt.expression *)
| RCall (f : string) (args : list expr) (kwn : list string).
                               (* AssignFunctionCall: function_id, parameters then kw_parameters *)

Record bstmt := {
  b_lhs : list string;       (* [stmt.assignee] / stmt.assignees *)
  b_sub : bool;              (* bool(stmt.assignee_subscript) (Assign only) *)
  b_loops : list string;     (* [ident for ident, _, _ in stmt.loops] (Assign only) *)
  b_rhs : rhs
}.

Definition qitem := (string * bstmt)%type.   (* (phase_name, stmt) *)

Definition lift1 (r : ires) : mres :=
  match r with IOk k => MOk [k] | IUnable => MUnable | IErr e => MErr e end.

(* what the work-list loop evaluates: kim(flatten(stmt.expression)) resp. kim.map_generic_call *)
Definition eval_work (c : cfg) (lk : string -> option okind) (s : bstmt) : mres :=
  match b_rhs s with
  | RExpr flat _ => lift1 (infer c lk flat)
  | RCall f args kwn => call_res c f (map (infer c lk) args) kwn
  end.

(* what the diagnostics and the closing loop evaluate: kim(stmt.expression) *)
Definition eval_check (c : cfg) (lk : string -> option okind) (s : bstmt) : mres :=
  match b_rhs s with
  | RExpr _ raw => lift1 (infer c lk raw)
  | RCall f args kwn => call_res c f (map (infer c lk) args) kwn
  end.

Fixpoint set_loops (c : cfg) (st : tstate) (p : string) (l : list string) : res tstate :=
  match l with
  | [] => Ok st
  | i :: r => match tset c st p i (Some KInt) with
              | Ok st' => set_loops c st' p r
              | Err e => Err e
              end
  end.

(* `for assignee, kind in zip(stmt.assignees, kinds): result.set(phase_name, assignee, kind=kind)` *)
Fixpoint set_many (c : cfg) (st : tstate) (p : string) (xs : list string) (ks : list okind) : res tstate :=
  match xs, ks with
  | x :: xs', k :: ks' => match tset c st p x k with
                          | Ok st' => set_many c st' p xs' ks'
                          | Err e => Err e
                          end
  | _, _ => Ok st
  end.

Inductive pres :=
| PErr (e : err)
| PDone (st : tstate)        (* subscripted assignment: `continue` *)
| PDefer (st : tstate)       (* UnableToInferKind: appended to the push buffer *)
| PProgress (st : tstate).   (* made_progress = True *)

(* body of the inner loop for one popped (phase_name, stmt) *)
Definition process (c : cfg) (st : tstate) (it : qitem) : pres :=
  let p := fst it in let s := snd it in
  match set_loops c st p (b_loops s) with
  | Err e => PErr e
  | Ok st1 =>
      if b_sub s then PDone st1
      else match eval_work c (lookup_kim (tbl st) (tbl st1) p) s with
           | MUnable => PDefer st1
           | MErr e => PErr e
           | MOk ks => match set_many c st1 p (b_lhs s) ks with
                       | Ok st2 => PProgress st2
                       | Err e => PErr e
                       end
           end
  end.

Inductive fres :=
| FOk (st : tstate)
| FErr (e : err)
| FOutOfFuel.

(* "Left-over statements in kind inference": push buffer in append order, stmt.expression
   (not flattened); then RuntimeError("failed to infer kinds") *)
Fixpoint diagnostics (c : cfg) (t : table) (l : list qitem) : err :=
  match l with
  | [] => RuntimeError
  | it :: r => match eval_check c (lookup t (fst it)) (snd it) with
               | MUnable => diagnostics c t r
               | MOk _ => AssertionError
               | MErr e => e
               end
  end.

(* queue: head = next element popped (Python pops from the end of its list);
   buf: push buffer, head = last appended.  Returning FOk with the change flag set makes the
   outer loop start its next pass: that is what `break` does in the c_restart shape. *)
Fixpoint inner (c : cfg) (fuel : nat) (st : tstate) (queue buf : list qitem) (progress : bool) : fres :=
  match fuel with
  | 0 => FOutOfFuel
  | S f =>
      match queue with
      | [] => match buf with
              | [] => FOk st
              | _ :: _ => if progress then inner c f st buf [] false
                          else if c_restart c && changed st then FOk st
                          else FErr (diagnostics c (tbl st) (rev buf))
              end
      | it :: q =>
          match process c st it with
          | PErr e => FErr e
          | PDone st' => inner c f st' q buf progress
          | PDefer st' => inner c f st' q (it :: buf) progress
          | PProgress st' => inner c f st' q buf true
          end
      end
  end.

(* one statement of the closing consistency loop; for a call statement also
   `len(func.result_names) != len(stmt.assignees)` => ValueError *)
Definition check_item (c : cfg) (t : table) (it : qitem) : option err :=
  match eval_check c (lookup t (fst it)) (snd it) with
  | MUnable => Some UnableToInferKind
  | MErr e => Some e
  | MOk _ =>
      match b_rhs (snd it) with
      | RExpr _ _ => None
      | RCall f _ _ =>
          match rlookup (c_reg c) f with
          | None => Some FunctionNotFound
          | Some sg => if Nat.eqb (f_nres sg) (List.length (b_lhs (snd it))) then None
                       else Some ValueError
          end
      end
  end.

(* closing consistency loop *)
Fixpoint final_check (c : cfg) (t : table) (l : list qitem) : option err :=
  match l with
  | [] => None
  | it :: r => match check_item c t it with
               | None => final_check c t r
               | Some e => Some e
               end
  end.

Inductive outcome :=
| OTable (t : table) (printed : bool)   (* printed: some "trying to derive 'kind'" line was printed *)
| OErr (e : err)
| OOutOfFuel.

(* `while True:` ... `if not result.is_changed(): break` *)
Fixpoint outer (c : cfg) (fuel : nat) (st : tstate) (all : list qitem) : outcome :=
  match fuel with
  | 0 => OOutOfFuel
  | S f =>
      match inner c (S (List.length all) * S (S (List.length all)))
                  {| tbl := tbl st; changed := false; swallowed := swallowed st |}
                  (rev all) [] false with
      | FOutOfFuel => OOutOfFuel
      | FErr e => OErr e
      | FOk st' =>
          if changed st' then outer c f st' all
          else match final_check c (tbl st') all with
               | Some e => OErr e
               | None => OTable (tbl st') (swallowed st')
               end
      end
  end.

Fixpoint set_forced (c : cfg) (st : tstate) (l : list (string * string * okind)) : res tstate :=
  match l with
  | [] => Ok st
  | (p, x, k) :: r => match tset c st p x k with
                      | Ok st' => set_forced c st' r
                      | Err e => Err e
                      end
  end.

Definition init_state (c : cfg) : tstate :=
  {| tbl := map (fun x => ((None, x), Some (KScalar true))) (c_init_global c);
     changed := false; swallowed := false |}.

(* switch c_loops_prepass: `for phase_name, phase in zip(names, phases): for stmt in phase:
   ... for ident, _, _ in stmt.loops: result.set(phase_name, ident, kind=Integer())` *)
Fixpoint prepass (c : cfg) (st : tstate) (l : list qitem) : res tstate :=
  match l with
  | [] => Ok st
  | it :: r => match set_loops c st (fst it) (b_loops (snd it)) with
               | Ok st' => prepass c st' r
               | Err e => Err e
               end
  end.

(* SymbolKindFinder.__call__ on the flat list of (phase_name, stmt) in program order *)
Definition run_queue (c : cfg) (fuel : nat) (forced : list (string * string * okind))
                     (all : list qitem) : outcome :=
  match set_forced c (init_state c) forced with
  | Err e => OErr e
  | Ok st =>
      match (if c_loops_prepass c then prepass c st all else Ok st) with
      | Err e => OErr e
      | Ok st' => outer c fuel st' all
      end
  end.

Definition queue_of (phases : list (string * list bstmt)) : list qitem :=
  flat_map (fun np => map (pair (fst np)) (snd np)) phases.

(* SymbolKindFinder.__call__(names, phases, forced_kinds): `zip(names, phases)` *)
Definition find_kinds (c : cfg) (fuel : nat) (forced : list (string * string * okind))
                      (names : list string) (phases : list (list bstmt)) : outcome :=
  run_queue c fuel forced (queue_of (combine names phases)).

(* dagrt.data.infer_kinds(dag, function_registry): dag.phases is a dict phase name -> phase, here
   the association list in the dict's iteration order.
     kind_finder = SymbolKindFinder(function_registry)
     names = list(dag.phases)
     phases = [phase.statements for phase in dag.phases.values()]
     return kind_finder(names, phases) *)
Definition infer_kinds (c : cfg) (fuel : nat) (dag : list (string * list bstmt)) : outcome :=
  find_kinds c fuel [] (map fst dag) (map snd dag).

(* ------------------------------------------------------------------ comparing outcomes *)

(* dict equality: same keys, same values (insertion order is not compared) *)
Definition table_equiv (t t' : table) : Prop := forall k, tfind t k = tfind t' k.

Definition subtable (t t' : table) : bool :=
  forallb (fun e => match tfind t' (fst e) with Some v => okind_eqb v (snd e) | None => false end) t.
Definition table_eqb (t t' : table) : bool := subtable t t' && subtable t' t.

(* both fail, or both return equal tables *)
Definition outcome_sim (a b : outcome) : Prop :=
  match a, b with
  | OTable t _, OTable t' _ => table_equiv t t'
  | OErr _, OErr _ => True
  | _, _ => False
  end.

Definition outcome_simb (a b : outcome) : bool :=
  match a, b with
  | OTable t _, OTable t' _ => table_eqb t t'
  | OErr _, OErr _ => true
  | _, _ => false
  end.

(* exact comparison used by the correspondence check (error class, table, printed flag) *)
Definition outcome_eqb (a b : outcome) : bool :=
  match a, b with
  | OTable t x, OTable t' y => table_eqb t t' && Bool.eqb x y
  | OErr e, OErr f => err_eqb e f
  | _, _ => false
  end.
