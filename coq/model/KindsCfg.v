(* The configuration of the Kinds model for the working tree: the six shape switches and the
   name tables read off the source by harness/tr/c09.py (coq/gen/GenC09.v).  Definitions only. *)
From Coq Require Import List String.
Import ListNotations.
Open Scope string_scope.
From Dagrt Require Import GenC09 Kinds.

Definition cfg0 : cfg :=
  mkCfg c09_power_returns_kind c09_new_entry_marks c09_isnan_any c09_conflict_raises
        c09_finder_restarts c09_matrix_need_arrays c09_state_exact c09_state_prefixes.

(* NumpyInterpreter.run_single_step keeps exactly these names from one step to the next *)
Definition keep0 : string -> bool := keep_of c09_keep_exact c09_keep_prefixes.
