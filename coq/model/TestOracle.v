(* The deterministic test oracle for user functions used by the correspondence
   checks; mirrors harness/lang.py test_F.  Definitions only. *)
From Coq Require Import List ZArith String Ascii Bool Arith.
Import ListNotations.
From Dagrt Require Import Lang.
Open Scope Z_scope.

Definition has_sub (sub s : string) : bool :=
  match String.index 0 sub s with Some _ => true | None => false end.

Fixpoint last_char (s : string) : option ascii :=
  match s with
  | EmptyString => None
  | String c EmptyString => Some c
  | String _ r => last_char r
  end.

Definition nres_of (f : string) : nat :=
  match last_char f with
  | Some c => let n := nat_of_ascii c in
              if andb (Nat.leb 48 n) (Nat.leb n 57) then (n - 48)%nat else 1%nat
  | None => 1%nat
  end.

Fixpoint zseq (start : Z) (n : nat) : list Z :=
  match n with O => [] | S k => start :: zseq (start + 1) k end.

Definition test_F (f : string) (pos : list val) (kw : list (string * val)) : option (list val) :=
  if has_sub "len" f then
    match pos with
    | VArr l :: _ => Some [VInt (Z.of_nat (List.length l))]
    | _ => None
    end
  else
    match as_ints pos, as_ints (map snd kw) with
    | Some ps, Some ks =>
        let h0 := fold_left (fun a z => a * 3 + z) ps (Z.of_nat (String.length f)) in
        let h := fold_left (fun a p => a + Z.of_nat (String.length (fst p)) * snd p)
                           (combine (map fst kw) ks) h0 in
        if has_sub "raise" f && (h mod 3 =? 0) then None
        else if has_sub "arr" f then Some [VArr (zseq h (Z.to_nat (h mod 3 + 1)))]
        else Some (map VInt (zseq h (nres_of f)))
    | _, _ => None
    end.
