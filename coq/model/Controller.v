(* Model of dagrt/language.py ExecutionController (reset, update_plan, __call__),
   ExecutionPhase.depends_on / id_to_stmt, and the reset/update_plan/run sequence
   of dagrt/exec_numpy.py NumpyInterpreter.run_single_step.
   Definitions only (no proofs) so that the model still evaluates when a proof
   breaks.  Mirrors the Python line by line; see design/C04.md.

   Statement ids are naturals.  A statement is its id and the iteration order
   of its `depends_on` frozenset (an explicit list: the theorems quantify over
   it).  Python sets are lists used only through membership. *)
From Coq Require Import List Arith Bool Relations.
Import ListNotations.

Record stmt := mkStmt { sid : nat; sdeps : list nat }.
Definition phase := list stmt.          (* ExecutionPhase.statements *)

Definition mem (x : nat) (l : list nat) : bool := existsb (Nat.eqb x) l.

(* Python set operations on lists-as-sets *)
Definition set_add (x : nat) (s : list nat) : list nat := if mem x s then s else x :: s.
Definition set_remove (x : nat) (s : list nat) : list nat := filter (fun y => negb (Nat.eqb x y)) s.
Definition set_update (l s : list nat) : list nat := fold_left (fun s x => set_add x s) l s.

Definition ids (ph : phase) : list nat := map sid ph.

(* id_to_stmt = {stmt.id: stmt for stmt in statements}: the last statement with a given id wins *)
Fixpoint lookup (ph : phase) (i : nat) : option stmt :=
  match ph with
  | [] => None
  | s :: r => match lookup r i with
              | Some t => Some t
              | None => if Nat.eqb (sid s) i then Some s else None
              end
  end.

(* ExecutionPhase.depends_on: ids which no statement of the phase depends on (a set;
   its iteration order is an argument of run_single_step) *)
Definition depended_on (ph : phase) (i : nat) : bool := existsb (fun s => mem i (sdeps s)) ph.
Definition roots (ph : phase) : list nat := filter (fun i => negb (depended_on ph i)) (ids ph).

Inductive exc := KeyError | AssertionError.
Inductive res (A : Type) := Ok (a : A) | Raise (e : exc) | OutOfFuel.
Arguments Ok {A} a.
Arguments Raise {A} e.
Arguments OutOfFuel {A}.

Record cstate := mkState { plan : list nat; planned : list nat; executed : list nat }.

Definition reset (st : cstate) : cstate := mkState [] [] [].

(* ---- update_plan ---- *)
Section UpdatePlan.
  Variable ph : phase.
  Variable ex pl : list nat.          (* self.executed_ids, self.plan_id_set: not changed by the DFS *)

  (* add_with_deps(id_to_stmt[x]) with the local list early_plan threaded through.
     fuel bounds the recursion depth; running out corresponds to Python's RecursionError
     (only on cyclic phases, see AddWithDeps adequacy in the proofs). *)
  Fixpoint add_with_deps (fuel : nat) (x : nat) (early : list nat) : res (list nat) :=
    match fuel with
    | 0 => OutOfFuel
    | S f =>
      match lookup ph x with
      | None => Raise KeyError                          (* id_to_stmt[dep_id] *)
      | Some s =>
        if mem x ex then Ok early else                  (* already done *)
        if mem x pl then Ok early else                  (* already in plan *)
        if mem x early then Ok early else               (* already in early_plan *)
        match fold_left (fun r d => match r with Ok e => add_with_deps f d e | o => o end)
                        (sdeps s) (Ok early) with
        | Ok e => if mem x pl then Raise AssertionError   (* assert stmt_id not in self.plan_id_set *)
                  else Ok (e ++ [x])                      (* early_plan.append(stmt_id) *)
        | o => o
        end
      end
    end.

  Definition add_all (fuel : nat) (xs : list nat) (early : list nat) : res (list nat) :=
    fold_left (fun r x => match r with Ok e => add_with_deps fuel x e | o => o end) xs (Ok early).
End UpdatePlan.

Definition dfs_fuel (ph : phase) : nat := length ph + 1.

(* returns the early plan (for the log) and the new state; on an exception the state is unchanged *)
Definition update_plan (ph : phase) (st : cstate) (req : list nat) : res (list nat * cstate) :=
  match add_all ph (executed st) (planned st) (dfs_fuel ph) req [] with
  | Ok early => Ok (early, mkState (early ++ plan st) (set_update early (planned st)) (executed st))
  | Raise e => Raise e
  | OutOfFuel => OutOfFuel
  end.

(* ---- the target object (abstract) ----
   What evaluate_condition(stmt) / getattr(target, stmt.exec_method)(stmt) and the consumer
   of the generator may do for one popped statement. *)
Inductive response :=
| RGuardRaise                       (* evaluate_condition raised *)
| RGuardFalse                       (* evaluate_condition returned a false value: `continue` *)
| RExecRaise                        (* exec_* raised (FailStep, SwitchPhase, Raise, user error) *)
| RExecNone                         (* exec_* returned None *)
| RExec (event : bool)              (* exec_* returned (event, new_deps); event is not None *)
        (abandon : bool)            (* the consumer closes the generator at the yield of that event *)
        (new_deps : option (list nat)).   (* None, or the iteration order of new_deps *)

Inductive log_entry :=
| LCond (i : nat)                   (* evaluate_condition(stmt i) was called *)
| LExec (i : nat)                   (* exec_*(stmt i) was called *)
| LYield (i : nat)                  (* the event returned for i was yielded *)
| LSplice (i : nat) (early : list nat).  (* update_plan(phase, new_deps) put `early` in front of the plan *)

Inductive status :=
| Finished                          (* plan empty *)
| CutShort                          (* target raised, or consumer closed the generator *)
| Failed (e : exc)                  (* the controller itself raised *)
| DfsOutOfFuel                      (* RecursionError in add_with_deps *)
| LoopOutOfFuel.                    (* model artefact: never with adequate fuel *)

Record outcome := mkOut { o_log : list log_entry; o_state : cstate; o_status : status }.
Definition emit (l : list log_entry) (o : outcome) : outcome :=
  mkOut (l ++ o_log o) (o_state o) (o_status o).

Section Run.
  Variable ph : phase.
  (* the answer may depend on everything visited before in this run (stateful targets) *)
  Variable target : list nat -> nat -> response.

  Fixpoint run (fuel : nat) (st : cstate) (hist : list nat) : outcome :=
    match fuel with
    | 0 => mkOut [] st LoopOutOfFuel
    | S f =>
      match plan st with
      | [] => mkOut [] st Finished                                  (* while self.plan *)
      | i :: rest =>                                                (* self.plan.pop(0) *)
        if negb (mem i (planned st))                                (* plan_id_set.remove(i) *)
        then mkOut [] (mkState rest (planned st) (executed st)) (Failed KeyError)
        else
        let st1 := mkState rest (set_remove i (planned st)) (set_add i (executed st)) in
        match lookup ph i with
        | None => mkOut [] st1 (Failed KeyError)                    (* id_to_stmt[stmt_id] *)
        | Some _ =>
          let hist' := hist ++ [i] in
          match target hist i with
          | RGuardRaise => mkOut [LCond i] st1 CutShort
          | RGuardFalse => emit [LCond i] (run f st1 hist')
          | RExecRaise => mkOut [LCond i; LExec i] st1 CutShort
          | RExecNone => emit [LCond i; LExec i] (run f st1 hist')
          | RExec ev ab nd =>
            let pre := [LCond i; LExec i] ++ (if ev then [LYield i] else []) in
            if ev && ab then mkOut pre st1 CutShort else
            match nd with
            | None => emit pre (run f st1 hist')
            | Some req =>
              match update_plan ph st1 req with
              | Ok (early, st2) => emit (pre ++ [LSplice i early]) (run f st2 hist')
              | Raise e => mkOut pre st1 (Failed e)
              | OutOfFuel => mkOut pre st1 DfsOutOfFuel
              end
            end
          end
        end
      end
    end.
End Run.

Definition run_fuel (ph : phase) (st : cstate) : nat := length (plan st) + length ph + 1.

(* NumpyInterpreter.run_single_step: reset(); update_plan(phase, phase.depends_on); run.
   root_order = iteration order of the set phase.depends_on. *)
Definition run_single_step (st : cstate) (ph : phase) (root_order : list nat)
                           (target : list nat -> nat -> response) : outcome :=
  let st0 := reset st in
  match update_plan ph st0 root_order with
  | Ok (_, st1) => run ph target (run_fuel ph st1) st1 []
  | Raise e => mkOut [] st0 (Failed e)
  | OutOfFuel => mkOut [] st0 DfsOutOfFuel
  end.

(* ---- observables ---- *)
Definition visited (l : list log_entry) : list nat :=
  flat_map (fun e => match e with LCond i => [i] | _ => [] end) l.
Definition execd (l : list log_entry) : list nat :=
  flat_map (fun e => match e with LExec i => [i] | _ => [] end) l.

Definition guard_holds (target : list nat -> nat -> response) (hist : list nat) (i : nat) : bool :=
  match target hist i with RGuardRaise | RGuardFalse => false | _ => true end.
(* the sub-list of vis whose guard held, each asked with the history it was visited with *)
Fixpoint guarded (target : list nat -> nat -> response) (hist vis : list nat) : list nat :=
  match vis with
  | [] => []
  | i :: r => (if guard_holds target hist i then [i] else []) ++ guarded target (hist ++ [i]) r
  end.

(* ---- specification vocabulary ---- *)
Definition deps_of (ph : phase) (i : nat) : list nat :=
  match lookup ph i with Some s => sdeps s | None => [] end.
Definition edge (ph : phase) (a b : nat) : Prop := In b (deps_of ph a).
Definition reach (ph : phase) : nat -> nat -> Prop := clos_refl_trans nat (edge ph).
Definition acyclic (ph : phase) : Prop := forall x, ~ clos_trans nat (edge ph) x x.
Definition deps_closed (ph : phase) : Prop :=
  forall s d, In s ph -> In d (sdeps s) -> In d (ids ph).
(* well-formed phase: unique ids, every dependency names a statement of the phase, no cycle *)
Definition phase_wf (ph : phase) : Prop := NoDup (ids ph) /\ deps_closed ph /\ acyclic ph.

Definition same_members (a b : list nat) : Prop := forall x, In x a <-> In x b.
(* every element comes after all of its dependencies *)
Definition respects_deps (ph : phase) (l : list nat) : Prop :=
  forall l1 x l2, l = l1 ++ x :: l2 -> incl (deps_of ph x) l1.

(* a target that never cuts a step short and only requests statements of the phase *)
Definition never_stops (ph : phase) (target : list nat -> nat -> response) : Prop :=
  forall h i, match target h i with
              | RGuardRaise | RExecRaise => False
              | RGuardFalse | RExecNone => True
              | RExec ev ab nd => (ev && ab = false) /\
                                  (forall req, nd = Some req -> incl req (ids ph))
              end.

(* decidable sufficient condition for phase_wf, used for examples and by the harness:
   unique ids and every dependency is a smaller id that is in the phase *)
Fixpoint nodupb (l : list nat) : bool :=
  match l with [] => true | x :: r => negb (mem x r) && nodupb r end.
Definition wf_decreasing (ph : phase) : bool :=
  nodupb (ids ph) &&
  forallb (fun s => forallb (fun d => Nat.ltb d (sid s) && mem d (ids ph)) (sdeps s)) ph.
