(* Boolean comparison functions for the C07 correspondence check (definitions only). *)
From Coq Require Import List ZArith String Bool Arith.
Import ListNotations.
From Dagrt Require Import Lang TestOracle LangCheck Sched SchedCheck Transform TransformSem TransformSide.

Definition str_set_eqb (a b : list string) : bool :=
  forallb (fun x => smem x b) a && forallb (fun x => smem x a) b.

Definition tstmt_eqb (a b : tstmt) : bool :=
  String.eqb (tid a) (tid b) && str_set_eqb (tdeps a) (tdeps b)
  && expr_eqb (tcond a) (tcond b) && skind_eqb (tkd a) (tkd b).

Fixpoint tree_eqb (a b : tree) {struct a} : bool :=
  match a, b with
  | TLeaf s, TLeaf s' => tstmt_eqb s s'
  | TNull, TNull => true
  | TBlock l, TBlock m =>
      (fix go (l m : list tree) : bool :=
         match l, m with
         | [], [] => true
         | x :: l', y :: m' => tree_eqb x y && go l' m'
         | _, _ => false
         end) l m
  | TIf c t, TIf c' t' => expr_eqb c c' && tree_eqb t t'
  | TIfElse c t e, TIfElse c' t' e' => expr_eqb c c' && tree_eqb t t' && tree_eqb e e'
  | TFor x lo hi b, TFor x' lo' hi' b' =>
      String.eqb x x' && expr_eqb lo lo' && expr_eqb hi hi' && tree_eqb b b'
  | _, _ => false
  end.

Definition terr_eqb (a b : terr) : bool :=
  match a, b with
  | EValueError, EValueError | ETypeError, ETypeError | EIndexError, EIndexError
  | EAssertionError, EAssertionError | EOutOfFuel, EOutOfFuel | EBadOrder, EBadOrder
  | EUnmodelled, EUnmodelled => true
  | _, _ => false
  end.

Definition call_eqb (a b : call) : bool :=
  String.eqb (fst (fst a)) (fst (fst b)) && list_eqb val_eqb (snd (fst a)) (snd (fst b))
  && list_eqb (fun p q => String.eqb (fst p) (fst q) && val_eqb (snd p) (snd q)) (snd a) (snd b).

(* what the real tree executor recorded *)
Inductive xrun :=
| XTRun (vals : list (option val)) (evs : list event) (log : list call)
| XTStop (vals : list (option val)) (evs : list event) (log : list call) (w : stop)
| XTCrashed.

Definition run_matches (univ : list var) (r : trun) (x : xrun) : bool :=
  match r, x with
  | TRun s e l, XTRun vals xe xl =>
      list_eqb (opt_eqb val_eqb) (map s univ) vals && list_eqb event_eqb e xe && list_eqb call_eqb l xl
  | TStop s e l w, XTStop vals xe xl xw =>
      list_eqb (opt_eqb val_eqb) (map s univ) vals && list_eqb event_eqb e xe && list_eqb call_eqb l xl
      && stop_eqb w xw
  | TCrash _, XTCrashed => true
  | _, _ => false
  end.

(* what the real passes returned *)
Inductive xout := XTree (t : tree) | XErr (e : terr).

(* one selection of passes applied to the tree of the case *)
Record sel7 := {
  k_passes : list string;                  (* the passes applied, in order *)
  k_out : xout;
  k_outruns : list (option xrun)           (* run of the output from each store of the case *)
}.

Record case7 := {
  k_tree : tree;
  k_ords : list (string * list var);       (* observed iteration orders of read & written sets *)
  k_univ : list var;
  k_stores : list store;
  k_inruns : list xrun;                    (* run of the input from each store *)
  k_sels : list sel7
}.

Section Chk.
  Variables del_guarded lhs_sub_reads loop_bound_reads seed_node_vars sd_sorted fci_passes_cond ite_flag_first : bool.

  Fixpoint all2 {A B} (f : A -> B -> bool) (a : list A) (b : list B) : bool :=
    match a, b with
    | [], [] => true
    | x :: a', y :: b' => f x y && all2 f a' b'
    | _, _ => false
    end.

  Definition chk_sel (c : case7) (s : sel7) : bool :=
    match run_passes lhs_sub_reads loop_bound_reads seed_node_vars sd_sorted fci_passes_cond ite_flag_first
                     (k_ords c) (k_passes s) (k_tree c), k_out s with
    | TOk t', XTree t'' =>
        tree_eqb t' t''
        && all2 (fun st r => match r with
                             | Some x => run_matches (k_univ c) (run test_F del_guarded t' st) x
                             | None => true
                             end) (k_stores c) (k_outruns s)
    | TErr e, XErr e' => terr_eqb e e'
    | _, _ => false
    end.

  Definition chk7 (c : case7) : bool :=
    all2 (fun st x => run_matches (k_univ c) (run test_F del_guarded (k_tree c) st) x) (k_stores c) (k_inruns c)
    && forallb (chk_sel c) (k_sels c).

  (* ---- the side conditions of the theorems (props/C07.v) on this case ---- *)
  Definition all_leaf (p : tstmt -> bool) (t : tree) : bool := forallb p (tstmts t).

  (* the input meets the side conditions of all four per-pass theorems *)
  Definition hyp7 (c : case7) : bool :=
    all_leaf sd_leaf (k_tree c) && all_leaf fai_leaf (k_tree c)
    && all_leaf fci_leaf (k_tree c) && all_leaf ite_leaf (k_tree c).

  Definition after (c : case7) (names : list string) : tres tree :=
    run_passes lhs_sub_reads loop_bound_reads seed_node_vars sd_sorted fci_passes_cond ite_flag_first
               (k_ords c) names (k_tree c).

  (* for the pipeline the call isolator also sees the arguments that the argument isolator turned into
     assignments of their own: no call in a conditionally evaluated position of ANY statement kind *)
  Definition pipe_leaf (s : tstmt) : bool :=
    sd_leaf s && fai_leaf s && ite_leaf s && forallb (fun e => fci_ok e && arity_ok e) (kexprs (tkd s)).
  Definition hypp7 (c : case7) : bool := all_leaf pipe_leaf (k_tree c).

  (* ... then the three intermediate trees of the pipeline `order` meet the side conditions of the
     pass applied to them (hypotheses of C07_pipeline_partial; that the passes preserve them is not proved) *)
  Definition pres7 (order : list string) (c : case7) : bool :=
    if hypp7 c then
      match order with
      | [p1; p2; p3; _] =>
          match after c [p1], after c [p1; p2], after c [p1; p2; p3] with
          | TOk t1, TOk t2, TOk t3 => all_leaf fai_leaf t1 && all_leaf fci_leaf t2 && all_leaf ite_leaf t3
          | _, _, _ => true
          end
      | _ => true
      end
    else true.
End Chk.
