(* Boolean comparison functions used by the correspondence checks on Lang.v. *)
From Coq Require Import List ZArith String Bool Arith.
Import ListNotations.
From Dagrt Require Import Lang TestOracle.

Fixpoint list_eqb {A} (eqb : A -> A -> bool) (a b : list A) : bool :=
  match a, b with
  | [], [] => true
  | x :: a', y :: b' => eqb x y && list_eqb eqb a' b'
  | _, _ => false
  end.
Definition opt_eqb {A} (eqb : A -> A -> bool) (a b : option A) : bool :=
  match a, b with
  | None, None => true
  | Some x, Some y => eqb x y
  | _, _ => false
  end.
Definition val_eqb (a b : val) : bool :=
  match a, b with
  | VInt x, VInt y => Z.eqb x y
  | VBool x, VBool y => Bool.eqb x y
  | VNone, VNone => true
  | VArr x, VArr y => list_eqb Z.eqb x y
  | _, _ => false
  end.
Definition event_eqb (a b : event) : bool :=
  match a, b with
  | EvYield c1 t1 tm1 v1, EvYield c2 t2 tm2 v2 =>
      String.eqb c1 c2 && String.eqb t1 t2 && val_eqb tm1 tm2 && val_eqb v1 v2
  end.
Definition access_eqb (a b : access) : bool :=
  match a, b with
  | Rd x, Rd y | Wr x, Wr y | Dl x, Dl y => String.eqb x y
  | _, _ => false
  end.

Definition mem (x : string) (l : list string) : bool := existsb (String.eqb x) l.
Definition subset (a b : list string) : bool := forallb (fun x => mem x b) a.
Definition set_eqb (a b : list string) : bool := subset a b && subset b a.

(* expected outcome as recorded from the implementation *)
Inductive xout :=
| XNext (vals : list (option val)) (ev : option event)
| XFail | XSwitch (p : string) | XRaise (k : string) | XUser | XCrash.

Definition out_matches (univ : list var) (o : outcome) (x : xout) : bool :=
  match o, x with
  | ONext s ev, XNext vals xev =>
      list_eqb (opt_eqb val_eqb) (map s univ) vals && opt_eqb event_eqb ev xev
  | OFail, XFail => true
  | OSwitch p, XSwitch q => String.eqb p q
  | ORaise k, XRaise j => String.eqb k j
  | OUserExn, XUser => true
  | OCrash, XCrash => true
  | _, _ => false
  end.

Record case8 := {
  c_store : store; c_stmt : stmt; c_univ : list var;
  c_out : xout; c_acc : option (list access);
  c_reads : list var; c_writes : list var }.

Section Chk.
  Variables del_guarded lhs_sub_reads loop_bound_reads : bool.
  Definition chk8 (c : case8) : bool :=
    let (acc, o) := exec_stmt test_F del_guarded (c_store c) (c_stmt c) in
    out_matches (c_univ c) o (c_out c)
    && match c_acc c with Some a => list_eqb access_eqb acc a | None => true end
    && set_eqb (reads lhs_sub_reads loop_bound_reads (c_stmt c)) (c_reads c)
    && set_eqb (writes (c_stmt c)) (c_writes c).
End Chk.
