(* Model of dagrt/codegen/dag_ast.py: simplify_ast and its three passes.
   Definitions only (no proofs) so that the model still evaluates when a
   proof breaks.  Mirrors the Python line by line; see DESIGN.md C06. *)
From Coq Require Import List Arith Bool.
Import ListNotations.

(* Conditions: flags (atoms, compared by ==), negations, constants. *)
Inductive cond :=
| CTrue | CFalse
| CNot (c : cond)
| CAtom (n : nat).

Fixpoint cond_eqb (a b : cond) : bool :=
  match a, b with
  | CTrue, CTrue => true
  | CFalse, CFalse => true
  | CNot x, CNot y => cond_eqb x y
  | CAtom n, CAtom m => Nat.eqb n m
  | _, _ => false
  end.

Inductive ast :=
| Leaf (n : nat)                       (* StatementWrapper *)
| Null                                 (* NullASTNode *)
| Block (l : list ast)
| IfT (c : cond) (t : ast)             (* IfThen *)
| IfTE (c : cond) (t e : ast)          (* IfThenElse *)
| For (x : nat) (body : ast).          (* ForLoop; x names (variable, bounds) *)

Fixpoint ast_eqb (a b : ast) {struct a} : bool :=
  match a, b with
  | Leaf n, Leaf m => Nat.eqb n m
  | Null, Null => true
  | Block l, Block m =>
      (fix go (l m : list ast) : bool :=
         match l, m with
         | [], [] => true
         | x :: l', y :: m' => ast_eqb x y && go l' m'
         | _, _ => false
         end) l m
  | IfT c t, IfT d u => cond_eqb c d && ast_eqb t u
  | IfTE c t e, IfTE d u f => cond_eqb c d && ast_eqb t u && ast_eqb e f
  | For x b, For y c => Nat.eqb x y && ast_eqb b c
  | _, _ => false
  end.

(* ---- guarded trace: the observable of the property ---- *)
Fixpoint evalc (v : nat -> bool) (c : cond) : bool :=
  match c with
  | CTrue => true | CFalse => false
  | CNot c => negb (evalc v c)
  | CAtom n => v n
  end.

Fixpoint repeat_app {A} (n : nat) (l : list A) : list A :=
  match n with 0 => [] | S k => l ++ repeat_app k l end.

Fixpoint trace (v : nat -> bool) (trips : nat -> nat) (t : ast) : list nat :=
  match t with
  | Leaf n => [n]
  | Null => []
  | Block l => flat_map (trace v trips) l
  | IfT c t => if evalc v c then trace v trips t else []
  | IfTE c t e => if evalc v c then trace v trips t else trace v trips e
  | For x b => repeat_app (trips x) (trace v trips b)
  end.

Fixpoint size (t : ast) : nat :=
  match t with
  | Leaf _ | Null => 1
  | Block l => S (fold_right (fun x n => size x + n) 0 l)
  | IfT _ t => S (size t)
  | IfTE _ t e => S (size t + size e)
  | For _ b => S (size b)
  end.
Definition size_list (l : list ast) : nat := fold_right (fun x n => size x + n) 0 l.

(* ---- pass 1: ASTPreSimplifyMapper ---- *)
Fixpoint pre (t : ast) : ast :=
  match t with
  | Leaf n => Leaf n
  | Null => Null
  | Block l => Block (map pre l)
  | IfT c t => IfTE c (pre t) Null
  | IfTE c t e => IfTE c (pre t) (pre e)
  | For x b => For x (pre b)
  end.

(* ---- pass 2: ASTSimplifyMapper ---- *)
Inductive res (A : Type) :=
| Ok (a : A)
| IndexError        (* "pop from an empty deque" *)
| OutOfFuel.
Arguments Ok {A}. Arguments IndexError {A}. Arguments OutOfFuel {A}.

Definition is_null (t : ast) : bool := match t with Null => true | _ => false end.

(* flat_Block of a node list *)
Definition flat_block (nodes : list ast) : ast :=
  Block (flat_map (fun n => match n with
                            | Null => []
                            | Block ch => ch
                            | x => [x]
                            end) nodes).

(* while isinstance(condition, LogicalNot): strip and swap *)
Fixpoint strip_not (c : cond) (t e : ast) : cond * ast * ast :=
  match c with
  | CNot c' => strip_not c' e t
  | _ => (c, t, e)
  end.

Section Main.
  (* Shape switches read off the source by harness/translate.py (Generated.v):
     rev_expand  = true  <->  `children_queue.extendleft(next_child.children)`
                              (deque.extendleft reverses its argument)
     guard_empty = false <->  the `while isinstance(current_child, NullASTNode)`
                              loop pops without checking for an empty queue *)
  Variable rev_expand : bool.
  Variable guard_empty : bool.

  (* the `while children_queue:` loop; acc = `children` *)
  Fixpoint qloop (fuel : nat) (cur : ast) (q : list ast) (acc : list ast)
    : option (list ast) :=
    match fuel with
    | 0 => None
    | S f =>
      match q with
      | [] => Some (acc ++ [cur])
      | nx :: q' =>
        match nx with
        | Null => qloop f cur q' acc
        | Block ch => qloop f cur ((if rev_expand then rev ch else ch) ++ q') acc
        | IfTE c2 t2 e2 =>
            match cur with
            | IfTE c1 t1 e1 =>
                if cond_eqb c1 c2
                then qloop f (IfTE c1 (flat_block [t1; t2]) (flat_block [e1; e2])) q' acc
                else qloop f nx q' (acc ++ [cur])
            | _ => qloop f nx q' (acc ++ [cur])
            end
        | _ => qloop f nx q' (acc ++ [cur])
        end
      end
    end.

  (* current_child = popleft(); while Null: current_child = popleft() *)
  Fixpoint pop_nonnull (q : list ast) : option (ast * list ast) :=
    match q with
    | [] => None
    | Null :: q' => pop_nonnull q'
    | x :: q' => Some (x, q')
    end.

  Definition simp_block (orig : list ast) (q : list ast) : res ast :=
    match q with
    | [] => Ok (Block orig)              (* `if not children_queue: return expr` *)
    | _ =>
      match pop_nonnull q with
      | None => if guard_empty then Ok Null else IndexError
      | Some (cur, q') =>
        match qloop (S (size_list q')) cur q' [] with
        | None => OutOfFuel
        | Some [x] => Ok x
        | Some l => Ok (Block l)
        end
      end
    end.

  Definition simp_ite (c : cond) (t' e' : ast) : ast :=
    let '(c', t2, e2) := strip_not c t' e' in
    let t3 := match t2 with
              | IfTE d a _ => if cond_eqb c' d then a else t2
              | _ => t2 end in
    let e3 := match e2 with
              | IfTE d _ b => if cond_eqb c' d then b else e2
              | _ => e2 end in
    IfTE c' t3 e3.

  Definition rbind {A B} (r : res A) (f : A -> res B) : res B :=
    match r with Ok a => f a | IndexError => IndexError | OutOfFuel => OutOfFuel end.

  Fixpoint simp (t : ast) : res ast :=
    match t with
    | Leaf n => Ok (Leaf n)
    | Null => Ok Null
    | For x b => rbind (simp b) (fun b' => Ok (For x b'))
    | IfT c t => rbind (simp t) (fun t' => Ok (IfT c t'))
    | IfTE c t e =>
        match c with
        | CTrue => simp t
        | CFalse => simp e
        | _ => rbind (simp t) (fun t' => rbind (simp e) (fun e' => Ok (simp_ite c t' e')))
        end
    | Block l =>
        rbind ((fix go (l : list ast) : res (list ast) :=
                  match l with
                  | [] => Ok []
                  | x :: l' => rbind (simp x) (fun x' => rbind (go l') (fun r => Ok (x' :: r)))
                  end) l)
              (fun q => simp_block l q)
    end.
End Main.

(* ---- pass 3: ASTPostSimplifyMapper ---- *)
Fixpoint post (t : ast) : ast :=
  match t with
  | Leaf n => Leaf n
  | Null => Null
  | For x b => For x (post b)
  | IfT c t => IfT c (post t)
  | IfTE c t e =>
      let t' := post t in let e' := post e in
      match is_null t', is_null e' with
      | true, true => Null
      | true, false => IfT (CNot c) e'
      | false, true => IfT c t'
      | false, false => IfTE c t' e'
      end
  | Block l =>
      match filter (fun x => negb (is_null x)) (map post l) with
      | [] => Null
      | [x] => x
      | l' => Block l'
      end
  end.

Definition post_top (t : ast) : ast :=
  match post t with Null => Block [] | x => x end.

(* simplify_ast = reduce(apply_pass, (pre, main, post), ast) *)
Definition simplify (rev_expand guard_empty : bool) (t : ast) : res ast :=
  rbind (simp rev_expand guard_empty (pre t)) (fun t' => Ok (post_top t')).
