(* The configuration of the kind-inference model that corresponds to the working tree:
   shape switches and literal tables regenerated from /repo into coq/gen/GenC14.v.
   Definitions only. *)
From Coq Require Import List String Bool.
From Dagrt Require Import GenC14 Unify KindInfer.

Definition gen_cfg : cfg := {|
  c_ut_int := unify_usertype_accepts_int;
  c_arr_int := unify_array_accepts_int;
  c_ins_changed := set_insert_marks_changed;
  c_set_raises := set_reraises;
  c_loops_prepass := loop_variables_prepass;
  c_is_state := is_state_variable state_exact state_prefixes;
  c_init_global := init_global_names
|}.

(* the real unify of the working tree *)
Definition gen_unify := unify unify_usertype_accepts_int unify_array_accepts_int.
