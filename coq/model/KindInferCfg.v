(* The configuration of the kind-inference model that corresponds to the working tree:
   shape switches and literal tables regenerated from /repo into coq/gen/GenC14.v.
   Definitions only. *)
From Coq Require Import List String Bool.
Import ListNotations.
From Dagrt Require Import GenC14 Unify KindInfer.
Open Scope string_scope.

(* the class that provides get_result_kinds -> the model's mirror of that method; the translator
   rejects every class that is not listed here (harness/tr/c14.py RK_CLASSES) *)
Definition rk_of_class (s : string) : option rkind :=
  if s =? "_NormBase" then Some RNorm
  else if s =? "ElementwiseAbs" then Some RAbs
  else if s =? "DotProduct" then Some RDot
  else if s =? "Len" then Some RLen
  else if s =? "IsNaN" then Some RIsNan
  else if s =? "Array_" then Some RArray
  else if s =? "MatMul" then Some RMatMul
  else if s =? "Transpose" then Some RTranspose
  else if s =? "LinearSolve" then Some RLinSolve
  else if s =? "SVD" then Some RSvd
  else if s =? "Print" then Some RPrint
  else None.

(* dagrt.function_registry.base_function_registry; an entry with an unknown class is dropped
   (the function is then "not found" in the model and the correspondence check reports it) *)
Definition registry_of (facts : list (string * (list string * nat) * string)) : registry :=
  flat_map (fun f => match rk_of_class (snd f) with
                     | Some rk => [(fst (fst f), {| f_args := fst (snd (fst f));
                                                     f_nres := snd (snd (fst f)); f_rk := rk |})]
                     | None => []
                     end) facts.

Definition base_registry : registry := registry_of builtin_facts.

(* register_ode_rhs(reg, output_type_id, identifier, input_type_ids, input_names): arg_names are
   ("t",) + input_names; one result *)
Definition rhs_sig (out : string) (input_names : list string) : fsig :=
  {| f_args := "t" :: input_names; f_nres := 1; f_rk := RRhs out |}.

(* register_function(reg, identifier, arg_names, result_names=..., result_kinds=...) *)
Definition fixed_sig (arg_names : list string) (nres : nat) (ks : list kind) : fsig :=
  {| f_args := arg_names; f_nres := nres; f_rk := RFixed ks |}.

(* the model of SymbolKindFinder(base_function_registry extended by `extra`); FunctionRegistry.
   register refuses an identifier that is already there, so the order does not matter *)
Definition cfg_of (ut_int arr_int ins_changed set_raises prepass restart arr_only : bool)
                  (extra : registry) : cfg := {|
  c_ut_int := ut_int;
  c_arr_int := arr_int;
  c_ins_changed := ins_changed;
  c_set_raises := set_raises;
  c_loops_prepass := prepass;
  c_restart := restart;
  c_arr_only := arr_only;
  c_reg := List.app base_registry extra;
  c_is_state := is_state_variable state_exact state_prefixes;
  c_init_global := init_global_names
|}.

Definition gen_cfg_with (extra : registry) : cfg :=
  cfg_of unify_usertype_accepts_int unify_array_accepts_int set_insert_marks_changed set_reraises
         loop_variables_prepass finder_restarts_after_change builtins_require_arrays extra.

Definition gen_cfg : cfg := gen_cfg_with [].

(* the real unify of the working tree *)
Definition gen_unify := unify unify_usertype_accepts_int unify_array_accepts_int.
