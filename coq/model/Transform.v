(* Model of dagrt/codegen/transform.py:43-423: the statement-rewriting framework
   (ASTStatementRewriter, apply_statement_rewriter, id / name generators seeded from the
   statements of the tree), the four passes (eliminate_self_dependencies,
   isolate_function_arguments, isolate_function_calls, expand_IfThenElse), map_expressions of
   every statement class (dagrt/language.py), pytools.UniqueNameGenerator, the tree classes of
   dagrt/codegen/dag_ast.py, and the order in which dagrt/codegen/fortran.py applies the passes.
   Also: a traced semantics (values + log of the calls of user functions) of structured trees
   whose leaves are Lang statements.  Definitions only (no proofs).  See design/C07.md.

   Representation decisions (each tied by the correspondence check, harness/c07.py):
   * leaves are `tstmt`: a Lang statement kind + guard with STRING ids / dependency lists
     (generated ids are observable); `to_stmt` projects to Lang.stmt;
   * a call CallWithKwargs(f, pos, {k: v}) is Lang's `ENary (NCall f ks) (pos ++ vs)`, keyword
     names in dict order; `Call` and a CallWithKwargs without keywords are not distinguished;
   * frozenset-valued fields (depends_on) are lists compared as sets; the one observable
     frozenset ITERATION (read & written variables in SelfDependencyEliminator) is an input
     (`ords`), checked to be a duplicate-free enumeration of the computed set;
   * every expression of a leaf must be a fixed point of pymbolic.flatten (Assign.__init__
     flattens every right-hand side it is given); otherwise the model answers EUnmodelled;
   * names are ASCII without line breaks (Python's \w, \d and `$` are modelled on ASCII). *)
From Coq Require Import List ZArith NArith String Ascii Bool Arith DecimalString.
Import ListNotations.
From Dagrt Require Import Lang Sched.
Open Scope string_scope.
Open Scope list_scope.

(* ------------------------------------------------------------------------------------ *)
(* strings                                                                               *)

Definition smem (x : string) (l : list string) : bool := existsb (String.eqb x) l.

Definition decN (n : N) : string := NilZero.string_of_uint (N.to_uint n).

Definition is_digit (c : ascii) : bool :=
  let n := nat_of_ascii c in (48 <=? n)%nat && (n <=? 57)%nat.
Definition is_word (c : ascii) : bool :=
  let n := nat_of_ascii c in
  is_digit c || ((65 <=? n)%nat && (n <=? 90)%nat) || ((97 <=? n)%nat && (n <=? 122)%nat) || (n =? 95)%nat.

Fixpoint all_chars (p : ascii -> bool) (s : string) : bool :=
  match s with EmptyString => true | String c r => p c && all_chars p r end.
Definition nonempty (s : string) : bool := match s with EmptyString => false | _ => true end.

(* s = a ++ "_" ++ b with no "_" in b *)
Fixpoint rsplit (s : string) : option (string * string) :=
  match s with
  | EmptyString => None
  | String c r =>
      match rsplit r with
      | Some (a, b) => Some (String c a, b)
      | None => if (nat_of_ascii c =? 95)%nat then Some (EmptyString, r) else None
      end
  end.

(* int("0042") *)
Fixpoint parse_digits (acc : N) (s : string) : N :=
  match s with
  | EmptyString => acc
  | String c r => parse_digits (acc * 10 + N.of_nat (nat_of_ascii c - 48)) r
  end.

(* pytools.UNIQUE_NAME_GEN_COUNTER_RE = ^(?P<based_on>\w+)_(?P<counter>\d+)$ *)
Definition counter_match (s : string) : option (string * N) :=
  match rsplit s with
  | Some (a, b) =>
      if nonempty a && all_chars is_word a && nonempty b && all_chars is_digit b
      then Some (a, parse_digits 0 b) else None
  | None => None
  end.

(* var_name.replace("<", "_").replace(">", "_") *)
Fixpoint sanitize (s : string) : string :=
  match s with
  | EmptyString => EmptyString
  | String c r =>
      String (if ((nat_of_ascii c =? 60) || (nat_of_ascii c =? 62))%nat then "_"%char else c) (sanitize r)
  end.

(* ------------------------------------------------------------------------------------ *)
(* pytools.UniqueNameGenerator (forced_prefix = forced_suffix = "")                      *)

Record ung := { ex : list string;                 (* existing_names *)
                ctr : list (string * N) }.        (* prefix_to_counter *)

Fixpoint assoc {A} (k : string) (l : list (string * A)) : option A :=
  match l with
  | [] => None
  | (k', v) :: r => if String.eqb k k' then Some v else assoc k r
  end.
Fixpoint set_assoc {A} (k : string) (v : A) (l : list (string * A)) : list (string * A) :=
  match l with
  | [] => [(k, v)]
  | (k', v') :: r => if String.eqb k k' then (k, v) :: r else (k', v') :: set_assoc k v r
  end.

(* generate_numbered_unique_names(prefix, num) from num on: prefix_num, prefix_(num+1), ...;
   the counter paired with a name is the number of the NEXT name *)
Fixpoint search (fuel : nat) (e : list string) (prefix : string) (num : N) : option (N * string) :=
  match fuel with
  | O => None
  | S f =>
      let name := (prefix ++ "_" ++ decN num)%string in
      if smem name e then search f e prefix (N.succ num) else Some (N.succ num, name)
  end.

(* num = None: the bare prefix is tried first (counter 0) *)
Definition search0 (e : list string) (prefix : string) (num : option N) : option (N * string) :=
  match num with
  | None => if smem prefix e then search (S (List.length e)) e prefix 0%N else Some (0%N, prefix)
  | Some n => search (S (List.length e)) e prefix n
  end.

(* UniqueNameGenerator.__call__(based_on); None = fuel exhausted (proofs: never) *)
Definition gen (g : ung) (based_on : string) : option (string * ung) :=
  let '(b, c) :=
    match assoc based_on (ctr g) with
    | Some c => (based_on, Some c)
    | None =>
        match counter_match based_on with
        | Some (b, c) => (b, Some c)
        | None => (based_on, None)
        end
    end in
  match search0 (ex g) b c with
  | None => None
  | Some (c', name) => Some (name, {| ex := name :: ex g; ctr := set_assoc b c' (ctr g) |})
  end.

(* ------------------------------------------------------------------------------------ *)
(* trees                                                                                 *)

Record tstmt := mkT { tid : string; tdeps : list string; tcond : expr; tkd : skind }.
Definition to_stmt (s : tstmt) : stmt := {| sid := 0; sdeps := []; scond := tcond s; skd := tkd s |}.

Inductive tree :=
| TLeaf (s : tstmt)                        (* StatementWrapper *)
| TNull                                    (* NullASTNode *)
| TBlock (l : list tree)
| TIf (c : expr) (t : tree)                (* IfThen *)
| TIfElse (c : expr) (t e : tree)          (* IfThenElse *)
| TFor (x : var) (lo hi : expr) (b : tree).

(* get_statements_in_ast: ValueError (None) on a NullASTNode *)
Fixpoint leaves (t : tree) : option (list tstmt) :=
  match t with
  | TLeaf s => Some [s]
  | TNull => None
  | TBlock l =>
      (fix go (l : list tree) : option (list tstmt) :=
         match l with
         | [] => Some []
         | x :: r => match leaves x, go r with
                     | Some a, Some b => Some (a ++ b)
                     | _, _ => None
                     end
         end) l
  | TIf _ t => leaves t
  | TIfElse _ t e => match leaves t, leaves e with Some a, Some b => Some (a ++ b) | _, _ => None end
  | TFor _ _ _ b => leaves b
  end.

(* loop counters and the variables of guards / loop bounds held by the tree nodes *)
Fixpoint node_vars (t : tree) : list var :=
  match t with
  | TLeaf _ | TNull => []
  | TBlock l => flat_map node_vars l
  | TIf c t => vars c ++ node_vars t
  | TIfElse c t e => vars c ++ node_vars t ++ node_vars e
  | TFor x lo hi b => x :: vars lo ++ vars hi ++ node_vars b
  end.

(* ------------------------------------------------------------------------------------ *)
(* results                                                                               *)

Inductive terr :=
| EValueError        (* get_statements_in_ast on a NullASTNode *)
| ETypeError         (* mapper method called with too few arguments *)
| EIndexError        (* new_statements[0] on an empty list *)
| EAssertionError
| EOutOfFuel
| EBadOrder          (* the supplied iteration order is not an enumeration of the computed set *)
| EUnmodelled.       (* input outside the modelled fragment *)
Inductive tres (A : Type) := TOk (a : A) | TErr (e : terr).
Arguments TOk {A}. Arguments TErr {A}.

Record gst := { gids : ung; gvars : ung }.     (* stmt_id_gen, var_name_gen *)

Definition M (A : Type) := gst -> tres (A * gst).
Definition ret {A} (a : A) : M A := fun st => TOk (a, st).
Definition bind {A B} (m : M A) (f : A -> M B) : M B :=
  fun st => match m st with TOk (a, st1) => f a st1 | TErr e => TErr e end.

Definition genv (b : string) : M string := fun st =>
  match gen (gvars st) b with
  | Some (n, g) => TOk (n, {| gids := gids st; gvars := g |})
  | None => TErr EOutOfFuel
  end.
Definition geni (b : string) : M string := fun st =>
  match gen (gids st) b with
  | Some (n, g) => TOk (n, {| gids := g; gvars := gvars st |})
  | None => TErr EOutOfFuel
  end.

(* expression mappers: result, statements appended to new_statements, ids appended to the
   extra_deps list handed in, generator state *)
Definition MW (A : Type) := gst -> tres (A * list tstmt * list string * gst).
Definition retw {A} (a : A) : MW A := fun st => TOk (a, [], [], st).
Definition failw {A} (e : terr) : MW A := fun _ => TErr e.
Definition bindw {A B} (m : MW A) (f : A -> MW B) : MW B :=
  fun st =>
    match m st with
    | TErr e => TErr e
    | TOk (a, ns, xs, st1) =>
        match f a st1 with
        | TErr e => TErr e
        | TOk (b, ns2, xs2, st2) => TOk (b, ns ++ ns2, xs ++ xs2, st2)
        end
    end.
Fixpoint seqw {A} (l : list (MW A)) : MW (list A) :=
  match l with
  | [] => retw []
  | m :: r => bindw m (fun a => bindw (seqw r) (fun r' => retw (a :: r')))
  end.

(* ------------------------------------------------------------------------------------ *)
(* map_expressions(mapper, include_lhs) of every statement class, in the order in which
   Python applies the mapper (no class maps `condition`)                                  *)

Definition call_expr (fn : string) (args : list expr) (kw : list (string * expr)) : expr :=
  ENary (NCall fn (map fst kw)) (args ++ map snd kw).

Definition map_kind_w (include_lhs : bool) (f : expr -> MW expr) (k : skind) : MW skind :=
  match k with
  | KAssign x sub rhs loops =>
      (* AssignBase: lhs (if include_lhs), rhs; then Assign: the loop bounds *)
      bindw (match sub with
             | Some ie => if include_lhs then bindw (f ie) (fun ie' => retw (Some ie')) else retw sub
             | None => retw None
             end)
        (fun sub' =>
           bindw (f rhs)
             (fun rhs' =>
                bindw (seqw (map (fun l => bindw (f (snd (fst l)))
                                              (fun lo => bindw (f (snd l)) (fun hi => retw (fst (fst l), lo, hi))))
                                 loops))
                  (fun loops' => retw (KAssign x sub' rhs' loops'))))
  | KCall xs fn args kw =>
      (* AssignFunctionCall: mapper(self.as_expression()), assert it is a CallWithKwargs *)
      bindw (f (call_expr fn args kw))
        (fun r =>
           match r with
           | ENary (NCall fn' kw') l' =>
               let (p, kv) := split_at (List.length l' - List.length kw') l' in
               retw (KCall xs fn' p (combine kw' kv))
           | _ => failw EAssertionError
           end)
  | KYield comp tid time e =>
      bindw (f e) (fun e' => bindw (f time) (fun time' => retw (KYield comp tid time' e')))
  | k => retw k
  end.

(* ------------------------------------------------------------------------------------ *)
(* the rewriter framework                                                                *)

Section Rewriter.
  Variable ms : tstmt -> M (list tstmt).       (* map_statement *)

  Fixpoint rewrite_tree (t : tree) : M tree :=
    match t with
    | TLeaf s =>
        bind (ms s) (fun l =>
          match l with
          | [] => fun _ => TErr EIndexError
          | [x] => ret (TLeaf x)
          | _ => ret (TBlock (map TLeaf l))
          end)
    | TNull => ret TNull
    | TBlock l =>
        bind ((fix go (l : list tree) : M (list tree) :=
                 match l with
                 | [] => ret []
                 | x :: r => bind (rewrite_tree x) (fun x' => bind (go r) (fun r' => ret (x' :: r')))
                 end) l)
             (fun l' => ret (TBlock l'))
    | TIf c t => bind (rewrite_tree t) (fun t' => ret (TIf c t'))
    | TIfElse c t e =>
        bind (rewrite_tree t) (fun t' => bind (rewrite_tree e) (fun e' => ret (TIfElse c t' e')))
    | TFor x lo hi b => bind (rewrite_tree b) (fun b' => ret (TFor x lo hi b'))
    end.
End Rewriter.

Section Passes.
  (* shape switches *)
  Variable lhs_sub_reads loop_bound_reads : bool.   (* gen/GenLang.v *)
  Variable seed_node_vars : bool.   (* get_var_name_generator also sees loop counters, guards, loop bounds *)
  Variable fci_passes_cond : bool.  (* isolate_call hands base_condition to the inherited mapper method *)
  Variable ite_flag_first : bool.   (* map_if emits the flag assignment before the statements of its branches *)

  Definition sreads (s : tstmt) : list var := reads lhs_sub_reads loop_bound_reads (to_stmt s).
  Definition swrites (s : tstmt) : list var := writes (to_stmt s).

  (* get_stmt_id_generator / get_var_name_generator *)
  Definition seed (t : tree) (ss : list tstmt) : gst :=
    {| gids := {| ex := map tid ss; ctr := [] |};
       gvars := {| ex := flat_map (fun s => swrites s ++ sreads s) ss
                         ++ (if seed_node_vars then node_vars t else []);
                   ctr := [] |} |}.

  Definition apply_rewriter (ms : tstmt -> M (list tstmt)) (t : tree) : tres (tree * gst) :=
    match leaves t with
    | None => TErr EValueError
    | Some ss => rewrite_tree ms t (seed t ss)
    end.

  (* ---------------- eliminate_self_dependencies ---------------- *)

  Fixpoint dedup (l : list string) : list string :=
    match l with
    | [] => []
    | x :: r => if smem x r then dedup r else x :: dedup r
    end.
  (* stmt.get_read_variables() & stmt.get_written_variables(), some enumeration *)
  Definition read_and_written (s : tstmt) : list var :=
    dedup (filter (fun x => smem x (swrites s)) (sreads s)).

  Definition subset (a b : list string) : bool := forallb (fun x => smem x b) a.
  Fixpoint nodupb (l : list string) : bool :=
    match l with [] => true | x :: r => negb (smem x r) && nodupb r end.

  (* sorted(<set of str>): insertion sort (String.leb is Python's order on ASCII names) *)
  Fixpoint sinsert (x : string) (l : list string) : list string :=
    match l with
    | [] => [x]
    | y :: r => if String.leb x y then x :: l else y :: sinsert x r
    end.
  Definition ssort (l : list string) : list string := fold_right sinsert [] l.

  (* shape switch: `for var_name in sorted(read_and_written)` (true) or the frozenset itself (false) *)
  Variable sd_sorted : bool.
  (* iteration order of that frozenset, as observed on the real object (used when not sorted) *)
  Variable ords : list (string * list var).
  Definition rw_order (s : tstmt) : option (list var) :=
    let c := read_and_written s in
    if sd_sorted then Some (ssort c)
    else
      match assoc (tid s) ords with
      | None => Some c
      | Some o => if subset o c && subset c o && nodupb o then Some o else None
      end.

  (* pymbolic.substitute(expr, dict(substs)): variables by name -- the function symbol of a
     call is a Variable too *)
  Definition subst_name (sb : list (string * string)) (x : string) : string :=
    match assoc x sb with Some y => y | None => x end.
  Fixpoint subst (sb : list (string * string)) (e : expr) : expr :=
    match e with
    | EVar x => EVar (subst_name sb x)
    | ENot a => ENot (subst sb a)
    | EIf c t f => EIf (subst sb c) (subst sb t) (subst sb f)
    | EBin o a b => EBin o (subst sb a) (subst sb b)
    | ENary (NCall f kw) l => ENary (NCall (subst_name sb f) kw) (map (subst sb) l)
    | ENary o l => ENary o (map (subst sb) l)
    | e => e
    end.

  (* the `for var_name in read_and_written` loop *)
  Fixpoint sd_loop (s : tstmt) (vs : list var) : M (list (string * string) * list string * list tstmt) :=
    match vs with
    | [] => ret ([], [], [])
    | v :: r =>
        bind (genv ("temp_" ++ sanitize v)%string) (fun name =>
        bind (geni "temp") (fun id =>
        bind (sd_loop s r) (fun '(sb, ids, ns) =>
          ret ((v, name) :: sb, id :: ids,
               mkT id (tdeps s) (tcond s) (KAssign name None (EVar v) []) :: ns))))
    end.

  Definition ms_sd (s : tstmt) : M (list tstmt) :=
    match rw_order s with
    | None => fun _ => TErr EBadOrder
    | Some [] => ret [s]
    | Some vs =>
        bind (sd_loop s vs) (fun '(sb, ids, ns) =>
          fun st =>
            match map_kind_w false (fun e => retw (subst sb e)) (tkd s) st with
            | TErr e => TErr e
            | TOk (k', _, _, st') => TOk (ns ++ [mkT (tid s) (tdeps s ++ ids) (tcond s) k'], st')
            end)
    end.

  (* ---------------- isolate_function_arguments ---------------- *)

  (* sorted(expr.kw_parameters.items()): insertion sort on the keyword *)
  Fixpoint kw_insert {A} (x : string * A) (l : list (string * A)) : list (string * A) :=
    match l with
    | [] => [x]
    | y :: r => if String.leb (fst x) (fst y) then x :: l else y :: kw_insert x r
    end.
  Definition kw_sort {A} (l : list (string * A)) : list (string * A) := fold_right kw_insert [] l.

  Section Fai.
    Variable cond : expr.            (* base_condition *)
    Variable bdeps : list string.    (* base_deps *)

    (* isolate_arg; `rec` is self.rec(expr, ...) on this very argument *)
    Definition isolate_arg (a : expr) (rec : MW expr) : MW expr :=
      match a with
      | EVar _ => retw a
      | _ => fun st =>
          match genv "tmp" st with
          | TErr e => TErr e
          | TOk (name, st1) =>
            match geni "tmp" st1 with
            | TErr e => TErr e
            | TOk (id, st2) =>
              match rec st2 with
              | TErr e => TErr e
              | TOk (a', ns, xs, st3) =>
                  TOk (EVar name, ns ++ [mkT id (bdeps ++ xs) cond (KAssign name None a' [])], [id], st3)
              end
            end
          end
      end.

    Fixpoint fai (e : expr) : MW expr :=
      match e with
      | EInt _ | EBool _ | ENone | EVar _ => retw e
      | ENot a => bindw (fai a) (fun a' => retw (ENot a'))
      | EIf c t f =>
          bindw (fai c) (fun c' => bindw (fai t) (fun t' => bindw (fai f) (fun f' => retw (EIf c' t' f'))))
      | EBin o a b => bindw (fai a) (fun a' => bindw (fai b) (fun b' => retw (EBin o a' b')))
      | ENary (NCall f kw) l =>
          (* map_call / map_call_with_kwargs: positional parameters in order, then the keyword
             parameters in sorted order; the result carries the keywords sorted *)
          let cl := (fix go (l : list expr) : list (MW expr) :=
                       match l with [] => [] | a :: r => isolate_arg a (fai a) :: go r end) l in
          let (pos, kws) := split_at (List.length cl - List.length kw) cl in
          let skw := kw_sort (combine kw kws) in
          bindw (seqw pos) (fun pos' =>
          bindw (seqw (map snd skw)) (fun kws' =>
            retw (ENary (NCall f (map fst skw)) (pos' ++ kws'))))
      | ENary o l =>
          bindw (seqw ((fix go (l : list expr) : list (MW expr) :=
                          match l with [] => [] | a :: r => fai a :: go r end) l))
                (fun l' => retw (ENary o l'))
      end.
  End Fai.

  Definition ms_generic (mapper : expr -> list string -> expr -> MW expr) (s : tstmt) : M (list tstmt) :=
    fun st =>
      match map_kind_w true (mapper (tcond s) (tdeps s)) (tkd s) st with
      | TErr e => TErr e
      | TOk (k', ns, xs, st') => TOk (ns ++ [mkT (tid s) (tdeps s ++ xs) (tcond s) k'], st')
      end.

  Definition ms_fai : tstmt -> M (list tstmt) := ms_generic fai.

  (* ---------------- isolate_function_calls ---------------- *)

  Fixpoint has_call (e : expr) : bool :=
    match e with
    | ENot a => has_call a
    | EIf c t f => has_call c || has_call t || has_call f
    | EBin _ a b => has_call a || has_call b
    | ENary (NCall _ _) _ => true
    | ENary _ l => existsb has_call l
    | _ => false
    end.

  Section Fci.
    Variable cond : expr.
    Variable bdeps : list string.

    Fixpoint fci (e : expr) : MW expr :=
      match e with
      | EInt _ | EBool _ | ENone | EVar _ => retw e
      | ENot a => bindw (fci a) (fun a' => retw (ENot a'))
      | EIf c t f =>
          bindw (fci c) (fun c' => bindw (fci t) (fun t' => bindw (fci f) (fun f' => retw (EIf c' t' f'))))
      | EBin o a b => bindw (fci a) (fun a' => bindw (fci b) (fun b' => retw (EBin o a' b')))
      | ENary (NCall f kw) l =>
          (* isolate_call: names first, then super().map_call[_with_kwargs] on the parameters
             (positional in order, keywords in dict order) *)
          let recs := (fix go (l : list expr) : list (MW expr) :=
                         match l with [] => [] | a :: r => fci a :: go r end) l in
          fun st =>
            match genv "tmp" st with
            | TErr e => TErr e
            | TOk (name, st1) =>
              match geni "tmp" st1 with
              | TErr e => TErr e
              | TOk (id, st2) =>
                match (if fci_passes_cond then seqw recs
                       else if existsb has_call l then failw ETypeError else retw l) st2 with
                | TErr e => TErr e
                | TOk (l', ns, xs, st3) =>
                    let (p, kv) := split_at (List.length l' - List.length kw) l' in
                    TOk (EVar name,
                         ns ++ [mkT id (bdeps ++ xs) cond (KCall [name] f p (combine kw kv))],
                         [id], st3)
                end
              end
            end
      | ENary o l =>
          bindw (seqw ((fix go (l : list expr) : list (MW expr) :=
                          match l with [] => [] | a :: r => fci a :: go r end) l))
                (fun l' => retw (ENary o l'))
      end.
  End Fci.

  Definition ms_fci (s : tstmt) : M (list tstmt) :=
    match tkd s with
    | KAssign _ _ _ _ => ms_generic fci s
    | _ => ret [s]
    end.

  (* ---------------- expand_IfThenElse ---------------- *)

  Definition and_kids (e : expr) : list expr := match e with ENary NAnd l => l | _ => [e] end.
  Definition flat_and (a b : expr) : expr := ENary NAnd (and_kids a ++ and_kids b).

  Fixpoint ite (e : expr) (cond : expr) (bdeps : list string) {struct e} : MW expr :=
    match e with
    | EInt _ | EBool _ | ENone | EVar _ => retw e
    | ENot a => bindw (ite a cond bdeps) (fun a' => retw (ENot a'))
    | EBin o a b => bindw (ite a cond bdeps) (fun a' => bindw (ite b cond bdeps) (fun b' => retw (EBin o a' b')))
    | ENary o l =>
        bindw (seqw ((fix go (l : list expr) : list (MW expr) :=
                        match l with [] => [] | a :: r => ite a cond bdeps :: go r end) l))
              (fun l' => retw (ENary o l'))
    | EIf c t f => fun st =>
        match genv "<cond>ifthenelse_cond" st with TErr e => TErr e | TOk (flag, st1) =>
        match genv "ifthenelse_result" st1 with TErr e => TErr e | TOk (res, st2) =>
        match geni "ifthenelse_cond" st2 with TErr e => TErr e | TOk (i1, st3) =>
        match geni "ifthenelse_then" st3 with TErr e => TErr e | TOk (i2, st4) =>
        match geni "ifthenelse_else" st4 with TErr e => TErr e | TOk (i3, st5) =>
        match ite c cond bdeps st5 with TErr e => TErr e | TOk (c', nc, xc, st6) =>
        let tcnd := flat_and cond (EVar flag) in
        match ite t tcnd (bdeps ++ [i1]) st6 with TErr e => TErr e | TOk (t', nt, xt, st7) =>
        let fcnd := flat_and cond (ENot (EVar flag)) in
        match ite f fcnd (bdeps ++ [i1]) st7 with TErr e => TErr e | TOk (f', nf, xf, st8) =>
        let s1 := mkT i1 (bdeps ++ xc) cond (KAssign flag None c' []) in
        let s2 := mkT i2 (bdeps ++ xt ++ [i1]) tcnd (KAssign res None t' []) in
        let s3 := mkT i3 (bdeps ++ xf ++ [i1]) fcnd (KAssign res None f' []) in
        TOk (EVar res,
             (if ite_flag_first then nc ++ [s1] ++ nt ++ nf ++ [s2; s3]
              else nc ++ nt ++ nf ++ [s1; s2; s3]),
             [i2; i3], st8)
        end end end end end end end end
    end.

  Definition ms_ite : tstmt -> M (list tstmt) := ms_generic (fun c d e => ite e c d).

  (* ---------------- the modelled fragment ---------------- *)

  (* fixed points of pymbolic.flatten (conservative) and calls with one value per keyword *)
  Definition zero_lit (e : expr) : bool :=
    match e with EInt 0 | EBool false | ENone => true | _ => false end.
  Definition prod_lit (e : expr) : bool :=
    match e with EInt 0 | EInt 1 | EBool _ | ENone => true | _ => false end.
  Definition is_sum (e : expr) : bool := match e with ENary NSum _ => true | _ => false end.
  Definition is_prod (e : expr) : bool := match e with ENary NProd _ => true | _ => false end.

  Fixpoint modelled (e : expr) : bool :=
    match e with
    | ENot a => modelled a
    | EIf c t f => modelled c && modelled t && modelled f
    | EBin BFloorDiv a b | EBin BRem a b => negb (zero_lit a) && modelled a && modelled b
    | EBin _ a b => modelled a && modelled b
    | ENary o l =>
        forallb modelled l &&
        match o with
        | NSum => (2 <=? List.length l)%nat && forallb (fun x => negb (zero_lit x || is_sum x)) l
        | NProd => (2 <=? List.length l)%nat && forallb (fun x => negb (prod_lit x || is_prod x)) l
        | NCall _ kw => (List.length kw <=? List.length l)%nat
        | _ => true
        end
    | _ => true
    end.

  Definition modelled_kind (k : skind) : bool :=
    match k with
    | KAssign _ sub rhs loops =>
        match sub with Some ie => modelled ie | None => true end && modelled rhs
        && forallb (fun l => modelled (snd (fst l)) && modelled (snd l)) loops
    | KCall _ _ args kw => forallb modelled args && forallb (fun p => modelled (snd p)) kw
    | KYield _ _ time e => modelled time && modelled e
    | _ => true
    end.

  Definition modelled_tree (t : tree) : bool :=
    match leaves t with
    | Some ss => forallb (fun s => modelled_kind (tkd s)) ss
    | None => true
    end.

  Definition run_pass (ms : tstmt -> M (list tstmt)) (t : tree) : tres (tree * gst) :=
    if modelled_tree t then apply_rewriter ms t else TErr EUnmodelled.

  Definition eliminate_self_dependencies := run_pass ms_sd.
  Definition isolate_function_arguments := run_pass ms_fai.
  Definition isolate_function_calls := run_pass ms_fci.
  Definition expand_IfThenElse := run_pass ms_ite.
End Passes.

(* ------------------------------------------------------------------------------------ *)
(* the order in which dagrt/codegen/fortran.py (process_ast) applies the passes
   (names from gen/GenC07.v); every pass builds its generators afresh from its input tree  *)

Section Pipeline.
  Variable lhs_sub_reads loop_bound_reads seed_node_vars sd_sorted fci_passes_cond ite_flag_first : bool.
  Variable ords : list (string * list var).

  Definition pass_named (name : string) (t : tree) : tres (tree * gst) :=
    if String.eqb name "eliminate_self_dependencies"
    then eliminate_self_dependencies lhs_sub_reads loop_bound_reads seed_node_vars sd_sorted ords t
    else if String.eqb name "isolate_function_arguments"
    then isolate_function_arguments lhs_sub_reads loop_bound_reads seed_node_vars t
    else if String.eqb name "isolate_function_calls"
    then isolate_function_calls lhs_sub_reads loop_bound_reads seed_node_vars fci_passes_cond t
    else if String.eqb name "expand_IfThenElse"
    then expand_IfThenElse lhs_sub_reads loop_bound_reads seed_node_vars ite_flag_first t
    else TErr EUnmodelled.

  Fixpoint run_passes (names : list string) (t : tree) : tres tree :=
    match names with
    | [] => TOk t
    | n :: r => match pass_named n t with
                | TOk (t', _) => run_passes r t'
                | TErr e => TErr e
                end
    end.
End Pipeline.
