(* Model of dagrt.language.CodeBuilder: _add_statement (dependency edges and
   guards from call order), if_/else_, fresh_var_name.  Definitions only. *)
From Coq Require Import List ZArith String Bool Arith DecimalString.
Import ListNotations.
From Dagrt Require Import Lang BuilderCore.

(* one call on the builder *)
Inductive bcall :=
| BStmt (k : skind)            (* assign / yield_state / fail_step / raise_ / switch_phase *)
| BIf (c : expr) | BEndIf      (* with cb.if_(c): ... *)
| BElse | BEndElse             (* with cb.else_(): ... *)
| BFresh (prefix : string).    (* cb.fresh_var_name(prefix) *)

Definition dec (n : nat) : string := NilZero.string_of_uint (Nat.to_uint n).

(* pytools.generate_unique_names(prefix): prefix, prefix_0, prefix_1, ... *)
Definition candidate (prefix : string) (idx : nat) : string :=
  match idx with
  | O => prefix
  | S k => (prefix ++ "_" ++ dec k)%string
  end.

Definition mem (x : string) (l : list string) : bool := existsb (String.eqb x) l.

Fixpoint assoc (k : string) (l : list (string * nat)) : nat :=
  match l with
  | [] => O
  | (k', v) :: r => if String.eqb k k' then v else assoc k r
  end.

Record bstate := {
  b_stmts : list stmt;                 (* in the order added; sid = position *)
  b_core : bs var;                     (* _writer_map, _reader_map, depends_on lists *)
  b_xs : list (rw var);                (* ghost: extended read/write sets of each statement *)
  b_stack : list expr;                 (* _conditional_expression_stack, outermost first *)
  b_last_if : option expr;             (* _last_if_block_conditional_expression *)
  b_seen : list var;                   (* _seen_var_names *)
  b_gen : list (string * nat);         (* memoized name generators: next index per prefix *)
  b_names : list string                (* results of the fresh_var_name calls, in order *)
}.

Inductive bres := BOk (s : bstate) | BAssertionError | BIndexError | BOutOfFuel.

Section Builder.
  Variable lhs_sub_reads loop_bound_reads : bool.     (* shape switches of Lang.v *)
  Variable is_state : var -> bool.                    (* dagrt.utils.is_state_variable *)
  Variable exec_token : var.                          (* CodeBuilder._EXECUTION_STATE *)

  Definition is_barrier (k : skind) : bool :=
    match k with KAssign _ _ _ _ | KCall _ _ _ _ => false | _ => true end.

  Definition condition_of (stack : list expr) : expr :=
    match stack with
    | [] => EBool true
    | [c] => c
    | l => ENary NAnd l
    end.

  (* extended sets exactly as _add_statement computes them *)
  Definition ext_reads (seen : list var) (cond : expr) (k : skind) : list var :=
    kind_reads lhs_sub_reads loop_bound_reads k ++ [exec_token] ++ vars cond
    ++ (if is_barrier k then filter is_state seen else []).
  Definition ext_writes (k : skind) : list var :=
    kind_writes k ++ (if is_barrier k then [exec_token] else []).

  Definition add_statement (b : bstate) (k : skind) : bstate :=
    let cond := condition_of (b_stack b) in
    let r := ext_reads (b_seen b) cond k in
    let w := ext_writes k in
    let core' := add var string_dec (b_core b) (Build_rw r w) in
    let n := List.length (b_stmts b) in
    {| b_stmts := b_stmts b ++ [{| sid := n; sdeps := last (out core') []; scond := cond; skd := k |}];
       b_core := core';
       b_xs := b_xs b ++ [Build_rw r w];
       b_stack := b_stack b; b_last_if := b_last_if b;
       b_seen := b_seen b ++ r ++ w ++ loopvars k;   (* loop counters are names in use, too *)
       b_gen := b_gen b; b_names := b_names b |}.

  (* for var_name in generator: if var_name not in seen: ... return *)
  Fixpoint fresh_loop (fuel : nat) (prefix : string) (idx : nat) (seen : list var) : option (string * nat) :=
    match fuel with
    | O => None
    | S f => let c := candidate prefix idx in
             if mem c seen then fresh_loop f prefix (S idx) seen else Some (c, S idx)
    end.

  Fixpoint set_assoc (k : string) (v : nat) (l : list (string * nat)) : list (string * nat) :=
    match l with
    | [] => [(k, v)]
    | (k', v') :: r => if String.eqb k k' then (k, v) :: r else (k', v') :: set_assoc k v r
    end.

  Definition fresh (b : bstate) (prefix : string) : option (string * bstate) :=
    match fresh_loop (S (List.length (b_seen b))) prefix (assoc prefix (b_gen b)) (b_seen b) with
    | None => None
    | Some (name, next) =>
        Some (name, {| b_stmts := b_stmts b; b_core := b_core b; b_xs := b_xs b; b_stack := b_stack b;
                       b_last_if := b_last_if b; b_seen := b_seen b ++ [name];
                       b_gen := set_assoc prefix next (b_gen b); b_names := b_names b ++ [name] |})
    end.

  Definition set_stack (b : bstate) (stack : list expr) (last_if : option expr) : bstate :=
    {| b_stmts := b_stmts b; b_core := b_core b; b_xs := b_xs b; b_stack := stack; b_last_if := last_if;
       b_seen := b_seen b; b_gen := b_gen b; b_names := b_names b |}.

  Definition cond_prefix : string := "<cond>".

  Definition bstep (b : bstate) (c : bcall) : bres :=
    match c with
    | BStmt k => BOk (add_statement b k)
    | BFresh p => match fresh b p with Some (_, b') => BOk b' | None => BOutOfFuel end
    | BIf c =>
        match fresh b cond_prefix with
        | None => BOutOfFuel
        | Some (name, b1) =>
            let b2 := add_statement b1 (KAssign name None c []) in
            BOk (set_stack b2 (b_stack b2 ++ [EVar name]) (b_last_if b2))
        end
    | BEndIf =>
        match rev (b_stack b) with
        | [] => BIndexError
        | top :: rest => BOk (set_stack b (rev rest) (Some top))
        end
    | BElse =>
        match b_last_if b with
        | None => BAssertionError
        | Some c => BOk (set_stack b (b_stack b ++ [ENot c]) (b_last_if b))
        end
    | BEndElse =>
        match rev (b_stack b) with
        | [] => BIndexError
        | _ :: rest => BOk (set_stack b (rev rest) None)
        end
    end.

  Definition binit : bstate :=
    {| b_stmts := []; b_core := init; b_xs := []; b_stack := []; b_last_if := None;
       b_seen := [exec_token]; b_gen := []; b_names := [] |}.

  Fixpoint bfold (b : bstate) (p : list bcall) : bres :=
    match p with
    | [] => BOk b
    | c :: p' => match bstep b c with BOk b' => bfold b' p' | e => e end
    end.

  Definition build (p : list bcall) : bres := bfold binit p.
End Builder.

(* dagrt.utils.is_state_variable from the literal tuple and prefix list in the source *)
Definition is_state_of (exact prefixes : list string) (x : var) : bool :=
  mem x exact || existsb (fun p => String.prefix p x) prefixes.
