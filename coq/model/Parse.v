(* C19 -- model of the parser side: pytools.lex.lex over pymbolic's lex_table extended by
   dagrt.expression._hack_lex_table (back-tick identifiers), pymbolic.parser.Parser
   (parse_expression / parse_prefix / parse_postfix / parse_arglist: precedence climbing) with
   dagrt.expression._ExtendedParser.parse_terminal (<tag>name identifiers), and
   dagrt.expression.parse (removal of the back-ticks).  Definitions only.

   Loops become recursion on fuel; every Python exception that can come out is a constructor.
   Token classes outside the expression language (floats, `.`, `:`, `~ & | ^`, `<<`, `>>`, list
   literals, the wildcard `*`) make the model answer Unsupported instead of guessing. *)
From Coq Require Import List ZArith NArith String Ascii Bool Arith DecimalString DecimalN.
Import ListNotations.
From Dagrt Require Import GenC19 Print.
Open Scope string_scope.
Open Scope nat_scope.

Inductive res (A : Type) :=
| Ok (a : A)
| ParseError            (* pytools.lex.ParseError *)
| AssertionError        (* assert is_arithmetic_expression(...) *)
| TypeError             (* unary minus of a tuple *)
| InvalidTokenError     (* pytools.lex.InvalidTokenError *)
| Unsupported           (* outside the modelled token classes *)
| OutOfFuel.
Arguments Ok {A}. Arguments ParseError {A}. Arguments AssertionError {A}. Arguments TypeError {A}.
Arguments InvalidTokenError {A}. Arguments Unsupported {A}. Arguments OutOfFuel {A}.

Definition bind {A B} (r : res A) (f : A -> res B) : res B :=
  match r with
  | Ok a => f a
  | ParseError => ParseError | AssertionError => AssertionError | TypeError => TypeError
  | InvalidTokenError => InvalidTokenError | Unsupported => Unsupported | OutOfFuel => OutOfFuel
  end.

(* ------------------------------------------------------------------ lexer *)

Definition in_range (lo hi : nat) (c : ascii) : bool :=
  let n := nat_of_ascii c in (lo <=? n) && (n <=? hi).
Definition is_digit (c : ascii) : bool := in_range 48 57 c.
Definition is_alpha (c : ascii) : bool := in_range 65 90 c || in_range 97 122 c.
Definition is_word (c : ascii) : bool := is_alpha c || is_digit c || Ascii.eqb c "_".   (* \w *)
Definition is_id_start (c : ascii) : bool :=      (* [@$a-z_A-Z_] *)
  is_alpha c || Ascii.eqb c "_" || Ascii.eqb c "@" || Ascii.eqb c "$".
Definition is_id_char (c : ascii) : bool := is_id_start c || is_digit c.   (* [@$a-zA-Z_0-9] *)
Definition is_ws (c : ascii) : bool :=            (* [ \n\t] *)
  Ascii.eqb c " " || Ascii.eqb c "010" || Ascii.eqb c "009".
Definition is_bt_char (c : ascii) : bool :=
  existsb (Ascii.eqb c) (list_ascii_of_string backtick_alphabet).

Fixpoint span (f : ascii -> bool) (s : string) : string * string :=
  match s with
  | EmptyString => (EmptyString, EmptyString)
  | String c r => if f c then let (a, b) := span f r in (String c a, b) else (EmptyString, s)
  end.

(* s = p ++ rest *)
Fixpoint prefix_rest (p s : string) : option string :=
  match p with
  | EmptyString => Some s
  | String c p' =>
    match s with
    | String d s' => if Ascii.eqb c d then prefix_rest p' s' else None
    | EmptyString => None
    end
  end.

(* \b after a keyword *)
Definition boundary (r : string) : bool :=
  match r with EmptyString => true | String c _ => negb (is_word c) end.
Definition kw_rest (k s : string) : option string :=
  match prefix_rest k s with
  | Some r => if boundary r then Some r else None
  | None => None
  end.

Inductive step := SNext (t : token) (rest : string) | SInvalid | SUnsupported.

Definition digits_value (ds : string) : N :=
  match NilEmpty.uint_of_string ds with Some d => N.of_uint d | None => 0%N end.

(* first matching rule of the lex_table, in table order *)
Definition lex_step (s : string) : step :=
  match s with
  | EmptyString => SInvalid
  | String c r =>
    match prefix_rest "==" s with Some r1 => SNext (TCmp CEq) r1 | None =>
    match prefix_rest "!=" s with Some r1 => SNext (TCmp CNe) r1 | None =>
    match prefix_rest "<<" s with Some _ => SUnsupported | None =>
    match prefix_rest ">>" s with Some _ => SUnsupported | None =>
    match prefix_rest "<=" s with Some r1 => SNext (TCmp CLe) r1 | None =>
    match prefix_rest ">=" s with Some r1 => SNext (TCmp CGe) r1 | None =>
    if Ascii.eqb c "<" then SNext (TCmp CLt) r else
    if Ascii.eqb c ">" then SNext (TCmp CGt) r else
    if Ascii.eqb c "=" then SNext TAssign r else
    match kw_rest "and" s with Some r1 => SNext TAnd r1 | None =>
    match kw_rest "or" s with Some r1 => SNext TOr r1 | None =>
    match kw_rest "not" s with Some r1 => SNext TNot r1 | None =>
    match kw_rest "if" s with Some r1 => SNext TIf r1 | None =>
    match kw_rest "else" s with Some r1 => SNext TElse r1 | None =>
    if is_digit c then
      let (ds, r1) := span is_digit s in
      match r1 with
      | String d _ => if Ascii.eqb d "." || is_alpha d then SUnsupported   (* a float literal *)
                      else SNext (TInt (digits_value ds)) r1
      | EmptyString => SNext (TInt (digits_value ds)) r1
      end
    else if Ascii.eqb c "." then SUnsupported
    else if Ascii.eqb c "+" then SNext TPlus r
    else if Ascii.eqb c "-" then SNext TMinus r
    else match prefix_rest "**" s with Some r1 => SNext TPow r1 | None =>
    if Ascii.eqb c "*" then SNext TTimes r else
    match prefix_rest "//" s with Some r1 => SNext TFloorDiv r1 | None =>
    if Ascii.eqb c "/" then SNext TOver r else
    if Ascii.eqb c "%" then SNext TMod r else
    if Ascii.eqb c "&" || Ascii.eqb c "|" || Ascii.eqb c "~" || Ascii.eqb c "^" then SUnsupported else
    if Ascii.eqb c "(" then SNext TLPar r else
    if Ascii.eqb c ")" then SNext TRPar r else
    if Ascii.eqb c "[" then SNext TLBrk r else
    if Ascii.eqb c "]" then SNext TRBrk r else
    match prefix_rest "True" s with Some r1 => SNext TTrue r1 | None =>
    match prefix_rest "False" s with Some r1 => SNext TFalse r1 | None =>
    if is_id_start c then let (a, b) := span is_id_char s in SNext (TId a) b else
    let bt :=
      if Ascii.eqb c "`" then
        let (a, b) := span is_bt_char r in
        match b with
        | String d b' => if Ascii.eqb d "`" then Some (SNext (TId (String "`" (a ++ "`"))) b') else None
        | EmptyString => None
        end
      else None in
    match bt with
    | Some st => st
    | None =>
      if is_ws c then let (_, b) := span is_ws s in SNext TSp b else
      if Ascii.eqb c "," then SNext TComma r else
      if Ascii.eqb c ":" then SUnsupported else
      SInvalid
    end end end end end end end end end end end end end end end end
  end.

Fixpoint lex_go (fuel : nat) (s : string) : res (list token) :=
  match s with
  | EmptyString => Ok []
  | _ =>
    match fuel with
    | 0 => OutOfFuel
    | S f =>
      match lex_step s with
      | SNext t r => bind (lex_go f r) (fun ts => Ok (t :: ts))
      | SInvalid => InvalidTokenError
      | SUnsupported => Unsupported
      end
    end
  end.

Definition lex (s : string) : res (list token) := lex_go (String.length s) s.

(* ------------------------------------------------------------------ parser *)

Definition pres := res (expr * list token).

(* dagrt.expression._ExtendedParser.parse_terminal + Parser.parse_terminal *)
Definition parse_terminal (ts : list token) : pres :=
  match ts with
  | TCmp CLt :: r =>
    match r with
    | TId t :: r1 =>
      match r1 with
      | TCmp CGt :: r2 =>
        match r2 with
        | TId u :: r3 => Ok (EVar ("<" ++ t ++ ">" ++ u), r3)
        | _ => Ok (EVar ("<" ++ t ++ ">"), r2)
        end
      | _ => ParseError
      end
    | _ => ParseError
    end
  | TInt n :: r => Ok (EInt (Z.of_N n), r)
  | TTrue :: r => Ok (EBool true, r)
  | TFalse :: r => Ok (EBool false, r)
  | TId s :: r => Ok (EVar s, r)
  | TIf :: r => Ok (EVar "if", r)          (* deprecated: `if` as an identifier *)
  | _ => ParseError
  end.

(* Python's unary minus on what parse_expression returned *)
Definition neg (e : expr) : res expr :=
  match e with
  | EInt z => Ok (EInt (- z))
  | EBool b => Ok (EInt (- b2z b))
  | ETuple _ => TypeError
  | _ => Ok (ENary NProd [EInt (-1); e])   (* ExpressionNode.__neg__ = -1*self *)
  end.

(* parse_prefix; the bool says that the result is a FinalizedTuple *)
Definition prefix (rec : nat -> list token -> pres) (ts : list token)
  : res (expr * bool * list token) :=
  match ts with
  | [] => ParseError
  | TTimes :: _ | TLBrk :: _ => Unsupported
  | TPlus :: r => bind (rec PA_UNARY r) (fun x => Ok (fst x, false, snd x))
  | TMinus :: r => bind (rec PA_UNARY r) (fun x => bind (neg (fst x)) (fun e => Ok (e, false, snd x)))
  | TNot :: r => bind (rec PA_UNARY r) (fun x => Ok (ENot (fst x), false, snd x))
  | TLPar :: r =>
    match r with
    | TRPar :: r' => Ok (ETuple [], true, r')
    | _ => bind (rec 0 r) (fun x =>
             match snd x with
             | TRPar :: r'' => Ok (fst x, is_tuple (fst x), r'')
             | _ => ParseError
             end)
    end
  | _ => bind (parse_terminal ts) (fun x => Ok (fst x, false, snd x))
  end.

Fixpoint kw_set (kw : list (string * expr)) (k : string) (v : expr) : list (string * expr) :=
  match kw with
  | [] => [(k, v)]
  | (k', v') :: r => if String.eqb k' k then (k', v) :: r else (k', v') :: kw_set r k v
  end.

Definition ares := res (list expr * list (string * expr) * list token).

(* one step of the `while did_something` loop: None = nothing applies *)
Definition postfix (rec : nat -> list token -> pres) (argl : list token -> ares)
           (minp : nat) (left : expr) (fin : bool) (ts : list token)
  : res (option (expr * list token)) :=
  match ts with
  | TLPar :: r =>
    if minp <? PA_CALL then
      bind (argl r) (fun x => Ok (Some (ECall left (fst (fst x)) (snd (fst x)), snd x)))
    else Ok None
  | TLBrk :: r =>
    if minp <? PA_CALL then
      match r with
      | [] => ParseError
      | _ => bind (rec 0 r) (fun x =>
               match snd x with
               | TRBrk :: r2 => Ok (Some (ESub left (fst x), r2))
               | _ => ParseError
               end)
      end
    else Ok None
  | TIf :: r =>
    if minp <? PA_IF then
      match r with
      | [] => ParseError
      | _ => bind (rec PA_IF r) (fun x =>
               match snd x with
               | TElse :: r2 => bind (rec 0 r2) (fun y => Ok (Some (EIf (fst x) left (fst y), snd y)))
               | _ => ParseError
               end)
      end
    else Ok None
  | TPlus :: r =>
    if minp <? thr_plus then
      bind (rec rhs_plus r) (fun x =>
        if is_arith (fst x) && is_arith left then Ok (Some (ENary NSum [left; fst x], snd x))
        else AssertionError)
    else Ok None
  | TMinus :: r =>
    if minp <? thr_minus then
      bind (rec rhs_minus r) (fun x =>
        if is_arith (fst x) && is_arith left
        then bind (neg (fst x)) (fun nb => Ok (Some (ENary NSum [left; nb], snd x)))
        else AssertionError)
    else Ok None
  | TTimes :: r =>
    if minp <? thr_times then
      bind (rec rhs_times r) (fun x =>
        if is_arith (fst x) && is_arith left then Ok (Some (ENary NProd [left; fst x], snd x))
        else AssertionError)
    else Ok None
  | TFloorDiv :: r =>
    if minp <? thr_floordiv then
      if is_arith left then
        bind (rec rhs_floordiv r) (fun x =>
          if is_arith (fst x) then Ok (Some (EBin BFloorDiv left (fst x), snd x)) else AssertionError)
      else AssertionError
    else Ok None
  | TOver :: r =>
    if minp <? thr_over then
      if is_arith left then
        bind (rec rhs_over r) (fun x =>
          if is_arith (fst x) then Ok (Some (EBin BQuot left (fst x), snd x)) else AssertionError)
      else AssertionError
    else Ok None
  | TMod :: r =>
    if minp <? thr_modulo then
      if is_arith left then
        bind (rec rhs_modulo r) (fun x =>
          if is_arith (fst x) then Ok (Some (EBin BRem left (fst x), snd x)) else AssertionError)
      else AssertionError
    else Ok None
  | TPow :: r =>
    if minp <? thr_power then
      if is_arith left then
        bind (rec rhs_power r) (fun x =>
          if is_arith (fst x) then Ok (Some (EBin BPow left (fst x), snd x)) else AssertionError)
      else AssertionError
    else Ok None
  | TAnd :: r =>
    if minp <? thr_and then
      bind (rec rhs_and r) (fun x => Ok (Some (ENary NAnd [left; fst x], snd x)))
    else Ok None
  | TOr :: r =>
    if minp <? thr_or then
      bind (rec rhs_or r) (fun x => Ok (Some (ENary NOr [left; fst x], snd x)))
    else Ok None
  | TCmp c :: r =>
    if minp <? thr_cmp then
      bind (rec rhs_cmp r) (fun x => Ok (Some (EBin (BCmp c) left (fst x), snd x)))
    else Ok None
  | TComma :: r =>
    if minp <? PA_COMMA then
      match r with
      | [] | TRPar :: _ =>
        Ok (Some (if is_tuple left && negb fin then left else ETuple [left], r))
      | _ =>
        bind (rec PA_COMMA r) (fun x =>
          Ok (Some (match left with
                    | ETuple l => if fin then ETuple [left; fst x] else ETuple (l ++ [fst x])
                    | _ => ETuple [left; fst x]
                    end, snd x)))
      end
    else Ok None
  | _ => Ok None
  end.

(* one pass of the `while True` loop of parse_arglist; argl = the rest of the loop *)
Definition arglist_body (rec : nat -> list token -> pres)
           (argl : list expr -> list (string * expr) -> bool -> list token -> ares)
           (args : list expr) (kw : list (string * expr)) (comma_allowed : bool) (ts : list token) : ares :=
  match ts with
  | [] => ParseError
  | t :: r =>
    let sc := match t with TComma => true | _ => false end in
    if sc && negb comma_allowed then ParseError       (* comma not expected *)
    else
      let ts1 := if sc then r else ts in
      match ts1 with
      | [] => ParseError
      | TRPar :: r' => Ok (args, kw, r')
      | _ =>
        if negb sc && comma_allowed then ParseError   (* comma expected *)
        else
          match ts1 with
          | TId k :: TAssign :: r2 =>
            bind (rec PA_COMMA r2) (fun x => argl args (kw_set kw k (fst x)) true (snd x))
          | _ =>
            match kw with
            | [] => bind (rec PA_COMMA ts1) (fun x => argl (args ++ [fst x])%list kw true (snd x))
            | _ => ParseError                         (* positional after keyword argument *)
            end
          end
      end
  end.

(* the body of the `while did_something` loop of parse_expression; again = the next iteration *)
Definition loop_body (rec : nat -> list token -> pres) (argl : list token -> ares)
           (again : expr -> bool -> list token -> pres)
           (minp : nat) (left : expr) (fin : bool) (ts : list token) : pres :=
  match ts with
  | [] => Ok (left, [])
  | _ =>
    bind (postfix rec argl minp left fin ts) (fun o =>
      match o with
      | Some x => again (fst x) false (snd x)
      | None => Ok (left, ts)
      end)
  end.

Fixpoint parse_expr (fuel : nat) (minp : nat) (ts : list token) {struct fuel} : pres :=
  match fuel with
  | 0 => OutOfFuel
  | S f =>
    bind (prefix (parse_expr f) ts) (fun x => loop f minp (fst (fst x)) (snd (fst x)) (snd x))
  end
with loop (fuel : nat) (minp : nat) (left : expr) (fin : bool) (ts : list token) {struct fuel} : pres :=
  match fuel with
  | 0 => OutOfFuel
  | S f => loop_body (parse_expr f) (arglist f [] [] false) (loop f minp) minp left fin ts
  end
with arglist (fuel : nat) (args : list expr) (kw : list (string * expr)) (comma_allowed : bool)
             (ts : list token) {struct fuel} : ares :=
  match fuel with
  | 0 => OutOfFuel
  | S f => arglist_body (parse_expr f) (arglist f) args kw comma_allowed ts
  end.

(* Parser.__call__ on the tokens that are not whitespace *)
Definition parse_toks (ts : list token) : res expr :=
  bind (parse_expr (S (2 * List.length ts)) 0 ts) (fun x =>
    match snd x with [] => Ok (fst x) | _ => ParseError end).

(* dagrt.expression.parse: remove_backticks on every Variable *)
Definition strip_bt (s : string) : string :=
  if starts_bt s && ends_bt s then substring 1 (String.length s - 2) s else s.

(* descend = GenC19.unbt_descends_subscript: remove_backticks answers `expr` (not None) for a
   Subscript, which pymbolic's SubstitutionMapper takes as the replacement -- it then does not
   look inside the subscript at all *)
Fixpoint unbt (descend : bool) (e : expr) : expr :=
  match e with
  | EVar x => EVar (strip_bt x)
  | ENary o l => ENary o (map (unbt descend) l)
  | EBin o a b => EBin o (unbt descend a) (unbt descend b)
  | ENot a => ENot (unbt descend a)
  | EIf c t e => EIf (unbt descend c) (unbt descend t) (unbt descend e)
  | ECall f args kw =>
    ECall (unbt descend f) (map (unbt descend) args) (map (fun kv => (fst kv, unbt descend (snd kv))) kw)
  | ESub a i => if descend then ESub (unbt descend a) (unbt descend i) else e
  | ETuple l => ETuple (map (unbt descend) l)
  | _ => e
  end.

Definition parse_tokens (ts : list token) : res expr :=
  bind (parse_toks (strip ts)) (fun e => Ok (unbt unbt_descends_subscript e)).

Definition parse_string (s : string) : res expr := bind (lex s) parse_tokens.

(* ------------------------------------------------------------------ names the lexer returns whole *)

Fixpoint string_forallb (f : ascii -> bool) (s : string) : bool :=
  match s with EmptyString => true | String c r => f c && string_forallb f r end.

Definition kw_hit (s : string) : bool :=
  existsb (fun k => match kw_rest k s with Some _ => true | None => false end)
          ["and"; "or"; "not"; "if"; "else"].
Definition starts_with (p s : string) : bool :=
  match prefix_rest p s with Some _ => true | None => false end.

(* one identifier token: [@$a-zA-Z_][@$a-zA-Z_0-9]*, not cut short by a keyword rule or by the
   True/False rules (which have no \b) *)
Definition is_ident (s : string) : bool :=
  match s with
  | EmptyString => false
  | String c r => is_id_start c && string_forallb is_id_char r
  end
  && negb (kw_hit s) && negb (starts_with "True" s) && negb (starts_with "False" s).

Definition wf_name (x : string) : bool :=
  match x with
  | String c r =>
    if Ascii.eqb c "<" then
      match split_gt r with
      | Some (t, u) => is_ident t && (match u with EmptyString => true | _ => is_ident u end)
      | None => false
      end
    else is_ident x
  | EmptyString => false
  end.

Fixpoint wf_names (e : expr) : bool :=
  match e with
  | EInt _ | EBool _ => true
  | EVar x => wf_name x
  | ENary _ l => forallb wf_names l
  | EBin _ a b => wf_names a && wf_names b
  | ENot a => wf_names a
  | EIf c t e => wf_names c && wf_names t && wf_names e
  | ECall f args kw =>
    wf_names f && forallb wf_names args && forallb (fun kv => is_ident (fst kv) && wf_names (snd kv)) kw
  | ESub a i => wf_names a && wf_names i
  | ETuple l => forallb wf_names l
  end.
