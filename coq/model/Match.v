(* Model of dagrt/expression.py:234-379 (_ExtendedUnifier, match) on top of
   pymbolic/mapper/unifier.py (UnificationRecord, unify_many, UnifierBase,
   UnidirectionalUnifier.map_commut_assoc) and pymbolic's flatten /
   flattened_sum / flattened_product, restricted to the node types of property
   C17: variables, integer constants, n-ary sums and products, quotients,
   powers, calls f(args; kwargs).

   Definitions only (no proofs).  Mirrors the Python; see design/C17.md.

   All recursion is structural (on the template, on lists, on the number k of
   blocks of a partition), so no fuel and no OutOfFuel value is needed. *)
From Coq Require Import ZArith String List Bool Arith Permutation.
Import ListNotations.

(* ------------------------------------------------------------------ expressions *)

Inductive acop := OSum | OProd.

Definition acop_eqb (a b : acop) : bool :=
  match a, b with OSum, OSum => true | OProd, OProd => true | _, _ => false end.

Inductive expr :=
| EVar (x : string)                       (* pymbolic Variable (function symbols are Variables too) *)
| EInt (z : Z)                            (* Python int constant *)
| EAC (op : acop) (cs : list expr)        (* Sum / Product with a tuple of children *)
| EQuot (a b : expr)                      (* Quotient(numerator, denominator) *)
| EPow (a b : expr)                       (* Power(base, exponent) *)
| ECall (f : expr) (args : list expr) (kw : list (string * expr)).
    (* Call (kw = []) / CallWithKwargs (kw <> []); kw is the dict in insertion order *)

Notation ESum := (EAC OSum).
Notation EProd := (EAC OProd).

(* ------------------------------------------------------------------ dicts, small helpers *)

Definition is_nil {A} (l : list A) : bool := match l with [] => true | _ => false end.

Definition mem (x : string) (l : list string) : bool := existsb (String.eqb x) l.
Definition memn (x : nat) (l : list nat) : bool := existsb (Nat.eqb x) l.
Definition removen (x : nat) (l : list nat) : list nat := filter (fun y => negb (Nat.eqb x y)) l.
Definition diffn (l sub : list nat) : list nat := filter (fun y => negb (memn y sub)) l.

Fixpoint lookup {A} (m : list (string * A)) (k : string) : option A :=
  match m with
  | [] => None
  | (k', v) :: m' => if String.eqb k' k then Some v else lookup m' k
  end.

(* d[k] = v on a dict kept in insertion order *)
Fixpoint dict_set {A} (m : list (string * A)) (k : string) (v : A) : list (string * A) :=
  match m with
  | [] => [(k, v)]
  | (k', v') :: m' => if String.eqb k' k then (k, v) :: m' else (k', v') :: dict_set m' k v
  end.

(* sorted(d.items(), key=itemgetter(0)) : stable insertion sort by key (code point order) *)
Fixpoint kw_insert {A} (kv : string * A) (l : list (string * A)) : list (string * A) :=
  match l with
  | [] => [kv]
  | kv' :: l' => if String.leb (fst kv) (fst kv') then kv :: l else kv' :: kw_insert kv l'
  end.

Fixpoint sort_kw {A} (l : list (string * A)) : list (string * A) :=
  match l with
  | [] => []
  | kv :: l' => kw_insert kv (sort_kw l')
  end.

Fixpoint list_eqb {A} (eqb : A -> A -> bool) (l m : list A) : bool :=
  match l, m with
  | [], [] => true
  | x :: l', y :: m' => eqb x y && list_eqb eqb l' m'
  | _, _ => false
  end.

(* ------------------------------------------------------------------ equality of expressions *)

(* syntactic equality *)
Fixpoint expr_seqb (a b : expr) {struct a} : bool :=
  match a, b with
  | EVar x, EVar y => String.eqb x y
  | EInt x, EInt y => Z.eqb x y
  | EAC o l, EAC p m =>
      acop_eqb o p &&
      (fix go (l m : list expr) : bool :=
         match l, m with
         | [], [] => true
         | x :: l', y :: m' => expr_seqb x y && go l' m'
         | _, _ => false
         end) l m
  | EQuot a1 a2, EQuot b1 b2 => expr_seqb a1 b1 && expr_seqb a2 b2
  | EPow a1 a2, EPow b1 b2 => expr_seqb a1 b1 && expr_seqb a2 b2
  | ECall f l k, ECall g m k' =>
      expr_seqb f g &&
      (fix go (l m : list expr) : bool :=
         match l, m with
         | [], [] => true
         | x :: l', y :: m' => expr_seqb x y && go l' m'
         | _, _ => false
         end) l m &&
      (fix gok (l m : list (string * expr)) : bool :=
         match l, m with
         | [], [] => true
         | (kx, x) :: l', (ky, y) :: m' => String.eqb kx ky && expr_seqb x y && gok l' m'
         | _, _ => false
         end) k k'
  | _, _ => false
  end.

(* Python's == on CallWithKwargs compares the keyword dicts, i.e. ignores their
   order: canonical form = keyword arguments sorted by key at every call. *)
Fixpoint canon (e : expr) : expr :=
  match e with
  | EVar _ | EInt _ => e
  | EAC op cs => EAC op (map canon cs)
  | EQuot a b => EQuot (canon a) (canon b)
  | EPow a b => EPow (canon a) (canon b)
  | ECall f args kw =>
      ECall (canon f) (map canon args)
            (sort_kw (map (fun kv : string * expr => let (k, v) := kv in (k, canon v)) kw))
  end.

(* pymbolic expression equality (==, and hashing in sets of equations) *)
Definition expr_eqb (a b : expr) : bool := expr_seqb (canon a) (canon b).

(* ------------------------------------------------------------------ flattened_sum / flattened_product / flatten *)

Definition pym_ident (op : acop) : Z := match op with OSum => 0%Z | OProd => 1%Z end.

(* the terms the `while queue` loop of flattened_sum/flattened_product appends to `done`
   for one queued item: nested nodes of the same class are spliced, the neutral
   constant is dropped *)
Fixpoint ac_terms (op : acop) (e : expr) : list expr :=
  match e with
  | EAC op' cs => if acop_eqb op op' then flat_map (ac_terms op) cs else [e]
  | EInt z => if Z.eqb z (pym_ident op) then [] else [e]
  | _ => [e]
  end.

(* flattened_product returns 0 as soon as a literal zero is dequeued *)
Fixpoint prod_has_zero (e : expr) : bool :=
  match e with
  | EAC OProd cs => existsb prod_has_zero cs
  | EInt z => Z.eqb z 0
  | _ => false
  end.

Definition mk_ac (op : acop) (l : list expr) : expr :=
  if (match op with OProd => existsb prod_has_zero l | OSum => false end) then EInt 0
  else match flat_map (ac_terms op) l with
       | [] => EInt (pym_ident op)
       | [a] => a
       | l' => EAC op l'
       end.

Definition is_int (z : Z) (e : expr) : bool :=
  match e with EInt z' => Z.eqb z z' | _ => false end.

(* pymbolic.flatten = FlattenMapper (IdentityMapper elsewhere) *)
Fixpoint flatten (e : expr) : expr :=
  match e with
  | EVar _ | EInt _ => e
  | EAC op cs => mk_ac op (map flatten cs)
  | EQuot a b =>
      let a' := flatten a in let b' := flatten b in
      if is_int 0 a' then EInt 0 else if is_int 1 b' then a' else EQuot a' b'
  | EPow a b =>
      let a' := flatten a in let b' := flatten b in
      if is_int 1 b' then a' else EPow a' b'
  | ECall f args kw =>
      ECall (flatten f) (map flatten args) (map (fun kv : string * expr => let (k, v) := kv in (k, flatten v)) kw)
  end.

(* ------------------------------------------------------------------ UnificationRecord *)

Record urec := mkU {
  eqs : list (string * expr);     (* equations (Variable(name), rhs); a set in Python *)
  lmap : list (string * expr);    (* lhs variable name -> rhs *)
  rmap : list (string * string)   (* rhs variable name -> lhs variable name *)
}.

(* UnificationRecord(equations) with lmap/rmap derived in __init__ *)
Definition urec_of_eqs (l : list (string * expr)) : urec :=
  mkU l
      (fold_left (fun m p => dict_set m (fst p) (snd p)) l [])
      (fold_left (fun m p => match snd p with EVar y => dict_set m y (fst p) | _ => m end) l []).

Definition empty_rec : urec := urec_of_eqs [].
Definition single (x : string) (o : expr) : urec := urec_of_eqs [(x, o)].

(* unify_map(map1, map2) *)
Fixpoint unify_map_go {A} (veqb : A -> A -> bool) (m1 m2 result : list (string * A))
  : option (list (string * A)) :=
  match m2 with
  | [] => Some result
  | (n, v) :: m2' =>
      match lookup m1 n with
      | Some v1 => if veqb v1 v then unify_map_go veqb m1 m2' result else None
      | None => unify_map_go veqb m1 m2' (dict_set result n v)
      end
  end.

Definition unify_map {A} (veqb : A -> A -> bool) (m1 m2 : list (string * A)) :=
  unify_map_go veqb m1 m2 m1.

Definition eq_pair_eqb (p q : string * expr) : bool :=
  String.eqb (fst p) (fst q) && expr_eqb (snd p) (snd q).

(* set(self.equations) | set(other.equations): first representative of ==-equal
   equations is kept; the iteration order of the resulting set is not observable *)
Definition eqs_add (acc : list (string * expr)) (p : string * expr) : list (string * expr) :=
  if existsb (eq_pair_eqb p) acc then acc else acc ++ [p].

Definition eqs_union (a b : list (string * expr)) : list (string * expr) :=
  fold_left eqs_add b (fold_left eqs_add a []).

(* self.unify(other) *)
Definition rec_unify (r1 r2 : urec) : option urec :=
  match unify_map expr_eqb (lmap r1) (lmap r2) with
  | None => None
  | Some l =>
      match unify_map String.eqb (rmap r1) (rmap r2) with
      | None => None
      | Some rm => Some (mkU (eqs_union (eqs r1) (eqs r2)) l rm)
      end
  end.

(* unify_many(unis1, uni2) *)
Definition unify_many (us : list urec) (r2 : urec) : list urec :=
  flat_map (fun u => match rec_unify u r2 with Some r => [r] | None => [] end) us.

(* ------------------------------------------------------------------ subsets / partitions of map_commut_assoc *)

(* itertools.combinations(s, n) *)
Fixpoint combinations {A} (n : nat) (s : list A) : list (list A) :=
  match n with
  | 0 => [[]]
  | S n' => match s with
            | [] => []
            | x :: s' => map (cons x) (combinations n' s') ++ combinations n s'
            end
  end.

(* subsets(s, max_size) *)
Definition subsets {A} (s : list A) (max_size : nat) : list (list A) :=
  flat_map (fun size => combinations size s) (seq 1 max_size).

(* partitions(s, k); for k = 0 the Python recursion runs through negative k and
   yields nothing.  Sets of small ints iterate in increasing order in CPython,
   so `s` is kept as an increasing list. *)
Fixpoint partitions (k : nat) (s : list nat) : list (list (list nat)) :=
  match k with
  | 0 => []
  | S k' =>
      match k' with
      | 0 => [[s]]
      | S _ => flat_map (fun sub => map (cons sub) (partitions k' (diffn s sub)))
                        (subsets s (length s + 1 - k))
      end
  end.

Definition select (idx : list nat) (ocs : list expr) : list expr :=
  map (fun i => nth i ocs (EInt 0)) idx.

Definition ufun := expr -> list urec -> list urec.

Section CommutAssoc.
  Variable mk : list expr -> expr.      (* factory: flattened_sum / flattened_product *)
  Variable ocs : list expr.             (* other.children *)
  Variable us : list urec.              (* urecs *)
  Variable plain : list string.         (* plain_var_candidates *)
  Variable nv_nonempty : bool.          (* len(non_var_children) != 0 *)

  (* the for/else loop over zip(partition, plain_var_candidates) *)
  Fixpoint try_partition (acc : urec) (parts : list (list nat)) (vars : list string) : option urec :=
    match parts, vars with
    | p :: parts', x :: vars' =>
        match rec_unify acc (single x (mk (select p ocs))) with
        | Some r => try_partition r parts' vars'
        | None => None
        end
    | _, _ => Some acc
    end.

  Fixpoint plain_go (acc : urec) (parts : list (list (list nat))) : list urec :=
    match parts with
    | [] => []
    | p :: ps =>
        match try_partition acc p plain with
        | Some r => if nv_nonempty then [r]                     (* yield result; return *)
                    else unify_many us r ++ plain_go acc ps     (* yield from unify_many(urecs, result) *)
        | None => plain_go acc ps
        end
    end.

  (* match_plain_var_candidates(urec, other_leftovers) *)
  Definition match_plain (acc : urec) (left : list nat) : list urec :=
    if is_nil plain && is_nil left then [acc]
    else plain_go acc (partitions (length plain) left).

  (* match_children(urec, next_cand_idx, other_leftovers); cands = the not yet
     consumed suffix of unification_candidates *)
  Fixpoint match_children (cands : list (list (nat * list urec))) (acc : urec) (left : list nat)
    : list urec :=
    match cands with
    | [] => match_plain acc left
    | row :: cands' =>
        flat_map (fun jc =>
                    if memn (fst jc) left
                    then flat_map (fun cu => match_children cands' cu (removen (fst jc) left))
                                  (unify_many (snd jc) acc)
                    else [])
                 row
    end.

  Definition commut_assoc (cands : list (list (nat * list urec))) : list urec :=
    match_children cands empty_rec (seq 0 (length ocs)).
End CommutAssoc.

(* i_matches for one non-variable child whose unifier is f *)
Fixpoint cand_row (f : ufun) (j : nat) (ocs : list expr) (us : list urec) : list (nat * list urec) :=
  match ocs with
  | [] => []
  | oc :: ocs' =>
      match f oc us with
      | [] => cand_row f (S j) ocs' us
      | r => (j, r) :: cand_row f (S j) ocs' us
      end
  end.

(* ------------------------------------------------------------------ the unifier *)

Section Unifier.
  Variable free : list string.                  (* lhs_mapping_candidates *)
  Variable swap : string -> string -> bool.     (* iteration order of the 2-element Python set
                                                   `variables` in map_modulo_identity: swap x y = true
                                                   iff inserting x then y iterates y first *)
  Variable idel : acop -> Z.                    (* id_element passed by dagrt's map_sum / map_product *)

  Definition plain_name (c : expr) : option string :=
    match c with
    | EVar x => if mem x free then Some x else None
    | _ => None
    end.

  (* UnifierBase.map_variable *)
  Definition map_variable (x : string) (o : expr) (us : list urec) : list urec :=
    if mem x free then unify_many us (single x o)
    else match o with
         | EVar y => if String.eqb x y then us else []
         | _ => []
         end.

  (* UnifierBase.map_constant *)
  Definition map_constant (z : Z) (o : expr) (us : list urec) : list urec :=
    match o with
    | EInt z' => if Z.eqb z z' then us else []
    | _ => []
    end.

  Definition plain_of (cfs : list (expr * ufun)) : list string :=
    flat_map (fun cf => match plain_name (fst cf) with Some x => [x] | None => [] end) cfs.

  Definition nonvar_of (cfs : list (expr * ufun)) : list ufun :=
    flat_map (fun cf => match plain_name (fst cf) with Some _ => [] | None => [snd cf] end) cfs.

  (* UnidirectionalUnifier.map_sum / map_product -> map_commut_assoc *)
  Definition ac_mapper (op : acop) (cfs : list (expr * ufun)) (o : expr) (us : list urec) : list urec :=
    match o with
    | EAC op' ocs =>
        if acop_eqb op op' then
          let nvf := nonvar_of cfs in
          commut_assoc (mk_ac op) ocs us (plain_of cfs) (negb (is_nil nvf))
                       (map (fun f => cand_row f 0 ocs us) nvf)
        else []
    | _ => []
    end.

  Definition is_ac (o : expr) : bool := match o with EAC _ _ => true | _ => false end.

  (* the Python set {term for term in expr.children if free variable}, as the list it iterates as *)
  Fixpoint dedup_names (l : list string) : list string :=
    match l with
    | [] => []
    | x :: l' => if mem x l' then dedup_names l' else x :: dedup_names l'
    end.

  Definition var_set (names : list string) : list string :=
    match names with
    | [x; y] => if String.eqb x y then [x] else if swap x y then [y; x] else [x; y]
    | _ => dedup_names names
    end.

  (* _ExtendedUnifier.map_sum / map_product -> map_modulo_identity *)
  Definition ac_node (op : acop) (cfs : list (expr * ufun)) (o : expr) (us : list urec) : list urec :=
    if negb (Nat.eqb (length cfs) 2) || is_ac o then ac_mapper op cfs o us
    else flat_map (fun v => ac_mapper op cfs (EAC op [EInt (idel op); o])
                                      (unify_many us (single v (EInt (idel op)))))
                  (var_set (plain_of cfs)).

  (* for expr_param, other_param in zip(...): urecs = self.rec(...) *)
  Fixpoint thread (fs : list ufun) (os : list expr) (us : list urec) : list urec :=
    match fs, os with
    | f :: fs', o :: os' => thread fs' os' (f o us)
    | _, _ => us
    end.

  (* _ExtendedUnifier.map_call (= map_call_with_kwargs) *)
  Definition call_node (ff : ufun) (fargs : list ufun) (fkw : list (string * ufun))
             (o : expr) (us : list urec) : list urec :=
    match o with
    | ECall f' args' kw' =>
        if negb (Nat.eqb (length fargs) (length args')) then []
        else if negb (list_eqb String.eqb (map fst (sort_kw fkw)) (map fst (sort_kw kw'))) then []
        else ff f' (thread (fargs ++ map snd (sort_kw fkw)) (args' ++ map snd (sort_kw kw')) us)
    | _ => []
    end.

  (* map_quotient / map_power: second operand first *)
  Definition bin_node (is_quot : bool) (fa fb : ufun) (o : expr) (us : list urec) : list urec :=
    match o, is_quot with
    | EQuot a' b', true => fa a' (fb b' us)
    | EPow a' b', false => fa a' (fb b' us)
    | _, _ => []
    end.

  (* self.rec(expr, other, urecs), dispatch on the template *)
  Fixpoint unify (t : expr) : ufun :=
    match t with
    | EVar x => map_variable x
    | EInt z => map_constant z
    | EAC op cs => ac_node op (map (fun c => (c, unify c)) cs)
    | EQuot a b => bin_node true (unify a) (unify b)
    | EPow a b => bin_node false (unify a) (unify b)
    | ECall f args kw =>
        call_node (unify f) (map unify args) (map (fun kv : string * expr => let (k, v) := kv in (k, unify v)) kw)
    end.
End Unifier.

(* ------------------------------------------------------------------ match front end *)

(* get_variables(template, include_function_symbols=True) *)
Fixpoint vars_of (e : expr) : list string :=
  match e with
  | EVar x => [x]
  | EInt _ => []
  | EAC _ cs => flat_map vars_of cs
  | EQuot a b => vars_of a ++ vars_of b
  | EPow a b => vars_of a ++ vars_of b
  | ECall f args kw => vars_of f ++ flat_map vars_of args ++ flat_map (fun kv => vars_of (snd kv)) kw
  end.

Inductive merror :=
| ValueError_cannot_unify                              (* "Cannot unify expressions." *)
| ValueError_pre_match_not_candidate (x : string).     (* "'x' was given in 'pre_match' but is not a candidate ..." *)

Inductive mresult :=
| MOk (sigma : list (string * expr)) (ambiguous : bool)   (* ambiguous = the warning was issued *)
| MErr (e : merror).

Definition free_names (free_opt : option (list string)) (bound : list string) (tpl : expr) : list string :=
  match free_opt with
  | Some l => l
  | None => filter (fun x => negb (mem x bound)) (vars_of tpl)
  end.

Fixpoint pre_check (free : list string) (pre : list (string * expr)) : option string :=
  match pre with
  | [] => None
  | (x, _) :: pre' => if mem x free then pre_check free pre' else Some x
  end.

Definition initial_urecs (pre : option (list (string * expr))) : list urec :=
  match pre with
  | None => [empty_rec]
  | Some p => [urec_of_eqs p]
  end.

(* the list `records` of match() *)
Definition match_records (swap : string -> string -> bool) (idel : acop -> Z)
           (free : list string) (pre : option (list (string * expr))) (tpl tgt : expr) : list urec :=
  unify free swap idel (flatten tpl) (flatten tgt) (initial_urecs pre).

Definition match_model (swap : string -> string -> bool) (idel : acop -> Z)
           (free_opt : option (list string)) (bound : list string)
           (pre : option (list (string * expr))) (tpl tgt : expr) : mresult :=
  let free := free_names free_opt bound tpl in
  match pre_check free (match pre with Some p => p | None => [] end) with
  | Some x => MErr (ValueError_pre_match_not_candidate x)
  | None =>
      match match_records swap idel free pre tpl tgt with
      | [] => MErr ValueError_cannot_unify
      | r :: rest => MOk (eqs r) (negb (is_nil rest))
      end
  end.

(* ------------------------------------------------------------------ substitution, AC1 equivalence, semantics *)

Definition sigma_of (l : list (string * expr)) : string -> option expr := lookup l.

Fixpoint subst (s : string -> option expr) (e : expr) : expr :=
  match e with
  | EVar x => match s x with Some v => v | None => e end
  | EInt _ => e
  | EAC op cs => EAC op (map (subst s) cs)
  | EQuot a b => EQuot (subst s a) (subst s b)
  | EPow a b => EPow (subst s a) (subst s b)
  | ECall f args kw =>
      ECall (subst s f) (map (subst s) args) (map (fun kv : string * expr => let (k, v) := kv in (k, subst s v)) kw)
  end.

(* Equality modulo associativity, commutativity and the neutral element of sums
   and products, plus 0 * x = 0 (flattened_product folds a literal zero factor)
   and the order of keyword arguments.  Congruence is one position at a time. *)
Inductive AC1_equiv : expr -> expr -> Prop :=
| AC_refl e : AC1_equiv e e
| AC_sym a b : AC1_equiv a b -> AC1_equiv b a
| AC_trans a b c : AC1_equiv a b -> AC1_equiv b c -> AC1_equiv a c
| AC_cong op l1 a b l2 : AC1_equiv a b -> AC1_equiv (EAC op (l1 ++ a :: l2)) (EAC op (l1 ++ b :: l2))
| AC_quot_l a a' b : AC1_equiv a a' -> AC1_equiv (EQuot a b) (EQuot a' b)
| AC_quot_r a b b' : AC1_equiv b b' -> AC1_equiv (EQuot a b) (EQuot a b')
| AC_pow_l a a' b : AC1_equiv a a' -> AC1_equiv (EPow a b) (EPow a' b)
| AC_pow_r a b b' : AC1_equiv b b' -> AC1_equiv (EPow a b) (EPow a b')
| AC_call_fn f f' args kw : canon f = canon f' -> AC1_equiv (ECall f args kw) (ECall f' args kw)
| AC_call_arg f l1 a b l2 kw :
    AC1_equiv a b -> AC1_equiv (ECall f (l1 ++ a :: l2) kw) (ECall f (l1 ++ b :: l2) kw)
| AC_call_kw f args k1 n a b k2 :
    AC1_equiv a b -> AC1_equiv (ECall f args (k1 ++ (n, a) :: k2)) (ECall f args (k1 ++ (n, b) :: k2))
| AC_call_kwsort f args kw kw' :
    sort_kw kw = sort_kw kw' -> AC1_equiv (ECall f args kw) (ECall f args kw')
| AC_perm op l l' : Permutation l l' -> AC1_equiv (EAC op l) (EAC op l')
| AC_assoc op l1 m l2 : AC1_equiv (EAC op (l1 ++ EAC op m :: l2)) (EAC op (l1 ++ m ++ l2))
| AC_ident op l : AC1_equiv (EAC op (EInt (pym_ident op) :: l)) (EAC op l)
| AC_single op a : AC1_equiv (EAC op [a]) a
| AC_annih l : In (EInt 0) l -> AC1_equiv (EProd l) (EInt 0).

Section Semantics.
  Variable rho : string -> Z.                                     (* valuation of variables *)
  Variable F : expr -> list Z -> list (string * Z) -> Z.          (* interpretation of the function position
                                                                     (F (EVar f) interprets the symbol f) *)
  Variable Q P : Z -> Z -> Z.                                     (* interpretation of quotient and power *)

  Definition ac_fold (op : acop) (l : list Z) : Z :=
    match op with
    | OSum => fold_right Z.add 0%Z l
    | OProd => fold_right Z.mul 1%Z l
    end.

  Fixpoint eval (e : expr) : Z :=
    match e with
    | EVar x => rho x
    | EInt z => z
    | EAC op cs => ac_fold op (map eval cs)
    | EQuot a b => Q (eval a) (eval b)
    | EPow a b => P (eval a) (eval b)
    | ECall f args kw =>
        F (canon f) (map eval args) (sort_kw (map (fun kv : string * expr => let (k, v) := kv in (k, eval v)) kw))
    end.
End Semantics.

(* ------------------------------------------------------------------ well-formedness predicates used by the theorems *)

(* every call has a symbol (Variable) in function position *)
Fixpoint call_fn_is_symbol (e : expr) : bool :=
  match e with
  | EVar _ | EInt _ => true
  | EAC _ cs => forallb call_fn_is_symbol cs
  | EQuot a b => call_fn_is_symbol a && call_fn_is_symbol b
  | EPow a b => call_fn_is_symbol a && call_fn_is_symbol b
  | ECall f args kw =>
      match f with EVar _ => true | _ => false end
      && forallb call_fn_is_symbol args
      && forallb (fun kv : string * expr => call_fn_is_symbol (snd kv)) kw
  end.

(* no Sum(()) / Product(()) anywhere (flatten never produces one) *)
Fixpoint no_empty_ac (e : expr) : bool :=
  match e with
  | EVar _ | EInt _ => true
  | EAC _ cs => negb (is_nil cs) && forallb no_empty_ac cs
  | EQuot a b => no_empty_ac a && no_empty_ac b
  | EPow a b => no_empty_ac a && no_empty_ac b
  | ECall f args kw =>
      no_empty_ac f && forallb no_empty_ac args
      && forallb (fun kv : string * expr => no_empty_ac (snd kv)) kw
  end.

(* ------------------------------------------------------------------ helpers for the correspondence check *)

Definition idel_of (sum_id prod_id : Z) (op : acop) : Z :=
  match op with OSum => sum_id | OProd => prod_id end.

Definition swap_of (tbl : list (string * string)) (x y : string) : bool :=
  existsb (fun p => String.eqb (fst p) x && String.eqb (snd p) y) tbl.

Definition sigma_eqb (a b : list (string * expr)) : bool :=
  list_eqb eq_pair_eqb (sort_kw a) (sort_kw b).
