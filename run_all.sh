#!/bin/bash
# run every registered quick check sequentially on /repo and summarise (development helper)
cd "$(dirname "$0")"
for c in $(python3 -c "import json; print(' '.join(x['property_id'] for x in json.load(open('MANIFEST.json'))['checks']))"); do
  [ -n "$1" ] && [[ ! " $* " =~ " $c " ]] && continue
  s=$(date +%s)
  out=$(./check $c --tier quick 2>&1); rc=$?
  e=$(( $(date +%s) - s ))
  v=$(echo "$out" | grep -c "^VIOLATION"); k=$(echo "$out" | grep -c "^KNOWN-FINDING")
  echo "$c exit=$rc violations=$v known=$k ${e}s"
done
python3-vt - <<'PY'
import json,jsonschema,glob
s=json.load(open('/root/.vp/EVIDENCE.schema.json'))
for f in sorted(glob.glob('evidence/*.json')):
    try: jsonschema.validate(json.load(open(f)), s)
    except Exception as ex: print("INVALID", f, str(ex)[:100])
print("evidence validated")
PY
