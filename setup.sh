#!/bin/bash
# MANIFEST.setup_cmd: build the whole Coq development (full .vo build) from files on disk.
set -e
here="$(cd "$(dirname "$0")" && pwd)"
repo="${DAGRT_REPO:-/repo}"
cd "$here"
export PYTHONPATH="$repo:$here" PYTHONHASHSEED=0 PYTHONDONTWRITEBYTECODE=1
/venv/bin/python - <<'PY'
from harness import common
errs = common.translate()
for k, v in errs.items():
    print("translator %s: %s" % (k, v))
common.ensure_makefile()
PY
cd coq
timeout 3000 make -k -j16 2>&1 | grep -v "^COQC\|^COQDEP\|^CLEAN\|^Closed under" | tail -50
if [ "${PIPESTATUS[0]}" != 0 ]; then echo "WARNING: part of the Coq development did not build; the checks of the affected properties will report it"; fi
# hygiene: nothing admitted or axiomatised in the development
if grep -rnE '\b(Admitted|admit|Axiom|Parameter|Conjecture|Admit Obligations)\b|Unset Guard|bypass_check|type-in-type' --include='*.v' gen model proofs props | grep -v '(\*.*\*)'; then
  echo "forbidden construct in the Coq development" >&2; exit 1
fi
echo "setup ok"
