#!/bin/bash
# MANIFEST.setup_cmd: build the whole Coq development (full .vo build) from files on disk.
set -e
here="$(cd "$(dirname "$0")" && pwd)"
repo="${DAGRT_REPO:-/repo}"
cd "$here"
export PYTHONPATH="$repo:$here" PYTHONHASHSEED=0 PYTHONDONTWRITEBYTECODE=1
/venv/bin/python -m harness.translate "$repo" > coq/Generated.v.new
if ! cmp -s coq/Generated.v.new coq/Generated.v; then mv coq/Generated.v.new coq/Generated.v; else rm coq/Generated.v.new; fi
cd coq
coq_makefile -f _CoqProject -o Makefile > /dev/null
timeout 3000 make -j16 2>&1 | grep -v "^COQC\|^COQDEP\|^CLEAN" | tail -50
test "${PIPESTATUS[0]}" = 0
# hygiene: nothing admitted or axiomatised in the development
if grep -rnE '\b(Admitted|admit|Axiom|Parameter|Conjecture|Admit Obligations)\b|Unset Guard|bypass_check|type-in-type' --include='*.v' . | grep -v '^./cases/' | grep -v '(\*.*\*)'; then
  echo "forbidden construct in the Coq development" >&2; exit 1
fi
echo "setup ok"
