"""Confirm a seeded change and run the registered check against it.

usage: python -m harness.seedtest <src_dir> <PID> <name>
  src_dir holds patch.diff, demo.py, meta.json (written by an independent agent).
Creates a scratch worktree of /repo under /tmp, confirms: patch applies, the 116 tests pass with it,
the demo fails with it and passes without it; then runs ./check <PID> with DAGRT_REPO pointing at the
patched worktree (expects exit 1 + VIOLATION) and stores everything as /verif/seeded/<name>/.
"""
import json
import os
import shutil
import subprocess
import sys
import time

VERIF = os.path.dirname(os.path.dirname(os.path.abspath(__file__)))


def sh(cmd, cwd=None, env=None, timeout=3000):
    e = dict(os.environ)
    e.update(env or {})
    p = subprocess.run(cmd, shell=True, cwd=cwd, env=e, capture_output=True, text=True, timeout=timeout)
    return p.returncode, p.stdout + p.stderr


def main():
    src, pid, name = sys.argv[1:4]
    checks = sys.argv[4:] or [pid]
    wt = "/tmp/seedwt_%s" % name
    sh("git -C /repo worktree remove --force %s" % wt)
    shutil.rmtree(wt, ignore_errors=True)
    rc, out = sh("git -C /repo worktree add %s HEAD" % wt)
    assert rc == 0, out
    res = {"property": pid, "name": name}
    try:
        rc, out = sh("PYTHONPATH=. /venv/bin/python %s/demo.py" % src, cwd=wt)
        res["demo_without_change"] = {"exit": rc, "tail": out[-300:]}
        rc, out = sh("git apply %s/patch.diff" % src, cwd=wt)
        res["patch_applies"] = rc == 0
        if rc != 0:
            res["apply_error"] = out[-500:]
        else:
            rc, out = sh("/venv/bin/python -m pytest -q -p no:cacheprovider", cwd=wt)
            res["tests_with_change"] = out.strip().splitlines()[-1] if out.strip() else ""
            res["tests_pass"] = rc == 0 and "116 passed" in out
            rc, out = sh("PYTHONPATH=. /venv/bin/python %s/demo.py" % src, cwd=wt)
            res["demo_with_change"] = {"exit": rc, "tail": out[-600:]}
            res["checks"] = {}
            for c in checks:
                t0 = time.time()
                rc, out = sh("./check %s --tier quick" % c, cwd=VERIF,
                             env={"DAGRT_REPO": wt, "VERIF_EVIDENCE_DIR": "/tmp/seed_evidence"})
                lines = [l for l in out.splitlines() if l.startswith("VIOLATION")] + \
                        [l for l in out.splitlines() if l.startswith("KNOWN-FINDING")]     # violations first
                res["checks"][c] = {"exit": rc, "lines": lines[:6], "wall_s": round(time.time() - t0, 1)}
                # keep the first replay as illustration
                for l in lines:
                    if l.startswith("VIOLATION") and "replay=" in l:
                        rp = l.split("replay=")[1].split()[0]
                        try:
                            res["checks"][c]["replay_excerpt"] = open(os.path.join(VERIF, rp)).read()[:1500]
                        except OSError:
                            pass
                        break
    finally:
        sh("git -C /repo worktree remove --force %s" % wt)
        shutil.rmtree(wt, ignore_errors=True)
    dst = os.path.join(VERIF, "seeded", name)
    os.makedirs(dst, exist_ok=True)
    for f in ("patch.diff", "demo.py"):
        shutil.copy(os.path.join(src, f), os.path.join(dst, f))
    meta = {}
    try:
        meta = json.load(open(os.path.join(src, "meta.json")))
    except Exception:  # noqa: BLE001
        pass
    meta["confirmed"] = res
    meta["caught_by"] = [c for c, r in res.get("checks", {}).items() if r["exit"] == 1 and
                         any(l.startswith("VIOLATION") for l in r["lines"])]
    meta["what_was_run"] = ("scratch worktree of /repo HEAD; git apply patch.diff; pytest (116); demo.py with and "
                            "without the change; DAGRT_REPO=<worktree> ./check %s --tier quick" % " ".join(checks))
    with open(os.path.join(dst, "meta.json"), "w") as f:
        json.dump(meta, f, indent=1)
    print(json.dumps({k: meta["confirmed"].get(k) for k in ("patch_applies", "tests_pass")}),
          "demo without:", res.get("demo_without_change", {}).get("exit"),
          "with:", res.get("demo_with_change", {}).get("exit"),
          "caught_by:", meta["caught_by"],
          {c: r["lines"][:2] for c, r in res.get("checks", {}).items()})


if __name__ == "__main__":
    main()
