"""C02: the dependencies recorded by CodeBuilder make every admissible schedule equal to program order.

Tie 1: real CodeBuilder (ids, depends_on, condition, statement, fresh names) vs coq/model/Builder.v.
Tie 2: a schedule executor driving the real statement objects through the real
       NumpyInterpreter.evaluate_condition/exec_* in a chosen order vs coq/model/Sched.v run_ids.
Oracle (independent of the model): for the real statements of each program, all linear
extensions of the recorded edges (exhaustively up to 7 statements, random topological
orders beyond) must give the same events / final variable values / stop reason as program
order; fresh names never collide with names seen before.
"""
import itertools
import json
import os
import random

from harness import common, lang

PID = "C02"
HEADER = ("From Coq Require Import List ZArith String Bool.\nImport ListNotations.\n"
          "From Dagrt Require Import GenLang Lang TestOracle LangCheck Builder Sched SchedCheck.\n"
          "Open Scope string_scope.\nOpen Scope Z_scope.\n"
          "Definition chk := chk2 lang_del_guarded lang_lhs_sub_reads lang_loop_bound_reads "
          "(is_state_of state_exact state_prefixes) exec_state_token.\n")

INTS = ["x", "y", "<state>u", "<p>n", "<t>"]
ARRS = ["a", "<state>b"]
FUNCS = ["<func>f", "<func>g2", "<func>raise_h", "<func>arr_k", "<func>len_", "<func>p0"]
LOOPVARS = ["i", "j"]
ALIAS = [False]           # switched on for the oracle-only stream of programs that copy an array variable by name
IMPLICIT = [False]        # switched on for the oracle-only stream of programs with implicit solves


def norm_expr(e):
    """what Assign.__init__ (pymbolic.flatten) makes of an expression"""
    from pymbolic import flatten
    return lang.from_pym(flatten(lang.to_pym(e)))


# ------------------------------------------------------------------ program generation + real builder

def gen_store(rng):
    s = {}
    for v in INTS:
        s[v] = ["int", rng.randint(-2, 5)]
    for v in ARRS:
        s[v] = ["arr", [rng.randint(-3, 9) for _ in range(rng.randint(2, 4))]]
    if rng.random() < 0.2:
        del s[rng.choice(INTS[:2])]
    return s


def gen_stmt_kind(rng, pool_ints, pool_arrs):
    g = lang.Gen(rng, pool_ints, pool_arrs, [], FUNCS)
    c = rng.random()
    if IMPLICIT[0] and rng.random() < 0.3:
        # an implicit solve (outside the Coq model; executed by lang.implicit_mixin): the unknown's name is
        # also an ordinary variable and may occur in the starting guess
        sv = rng.choice(pool_ints[:3])
        expr = ["nary", "sum", [["var", sv], g.int_expr(1)]]
        guess = rng.choice([["var", sv], ["var", sv], g.int_expr(1)])
        return ["implicit", [rng.choice(pool_ints + ["z", "w"])], [sv], [["bin", "rem", expr, ["int", 97]]],
                [["guess", guess]], "newton"]
    if ALIAS[0] and pool_arrs and rng.random() < 0.2:
        # `x <- a`: in the interpreter x and a are then one NumPy array (the Coq model and the Fortran backend
        # have value semantics); a later element write through either name changes both
        return ["assign", rng.choice(pool_arrs + ["z"]), None, ["var", rng.choice(pool_arrs)], []]
    if c < 0.62:
        nloops = rng.choice([0, 0, 0, 0, 1, 1, 2])
        lvs = LOOPVARS[:nloops]
        loops = []
        gl = lang.Gen(rng, pool_ints, pool_arrs, [], FUNCS)
        for k, lv in enumerate(lvs):
            gl.loopvars = lvs[:k]
            lo = rng.choice([["int", 0], ["int", 1], gl.int_expr(1)])
            hi = rng.choice([["int", 2], ["int", 0], ["var", rng.choice(pool_ints)], gl.int_expr(1)])
            loops.append([lv, lo, hi])
        g.loopvars = lvs
        if rng.random() < 0.35 and pool_arrs:
            x = rng.choice(pool_arrs)
            sub = g.index_expr() if rng.random() < 0.6 else ["bin", "rem", g.int_expr(1), ["int", 2]]
        else:
            x = rng.choice(pool_ints + ["z", "w"])
            sub = None
        rhs = g.int_expr(2)
        if rhs[0] == "call":
            rhs = ["nary", "sum", [rhs, ["int", 1]]]
        if loops or rng.random() < 0.9:
            # keep values small: a looped statement that feeds on its own result squares it every trip, and every
            # admissible schedule (up to 120) and every shrinking step repeats that arithmetic
            rhs = ["bin", "rem", rhs, ["int", 97]]
        return ["assign", x, sub, rhs, loops]
    if c < 0.74:
        f = rng.choice(["<func>f", "<func>g2", "<func>raise_h", "<func>p0"])
        n = lang.nres_of(f)
        xs = [rng.choice(pool_ints + ["z", "w"]) for _ in range(n)]
        args = [g.int_expr(1) for _ in range(rng.randint(0, 2))]
        kw = [["k", g.int_expr(1)]] if rng.random() < 0.3 else []
        return ["call", xs, f, args, kw]
    if c < 0.9:
        return ["yield", rng.choice(["y", "u"]), rng.choice(["final", "t1"]),
                rng.choice([["var", "<t>"], ["int", 0]]), g.int_expr(2)]
    return rng.choice([["fail"], ["raise", "ValueError"], ["switch", "p2"]])


# ------------------------------------------------------------------ small-scope enumeration

def V(x):
    return ["var", x]


def I(n):
    return ["int", n]


def S(*xs):
    return ["nary", "sum", list(xs)]


SMALL_STMTS = [
    ["assign", "x", None, I(1), []],
    ["assign", "x", None, S(V("y"), I(1)), []],
    ["assign", "y", None, V("x"), []],
    ["assign", "j", None, I(1), []],
    ["assign", "a", V("j"), V("x"), []],
    ["assign", "x", None, ["bin", "sub", V("a"), V("j")], []],
    ["assign", "z", None, S(V("z"), V("i")), [["i", I(0), V("<p>n")]]],
    ["assign", "<p>n", None, I(2), []],
    ["assign", "<state>u", None, V("x"), []],
    ["assign", "x", None, V("<state>u"), []],
    ["assign", "a", V("i"), S(["bin", "sub", V("a"), V("i")], I(1)), [["i", I(0), V("j")]]],
    ["call", ["y"], "<func>f", [V("x")], []],
    ["call", ["x", "j"], "<func>g2", [V("y")], [["k", V("j")]]],
    ["yield", "y", "t1", V("<t>"), V("x")],
    ["yield", "u", "final", I(0), V("<state>u")],
    ["fail"],
    ["switch", "p2"],
]
SMALL_CONDS = [["bin", "gt", V("x"), I(0)], V("j"), ["bin", "lt", V("<state>u"), V("y")]]
SMALL_STORES = [
    {"x": I(1), "y": I(-1), "z": I(0), "j": I(0), "a": ["arr", [3, 4]], "<state>u": I(2), "<p>n": I(1), "<t>": I(0)},
    {"x": I(0), "y": I(2), "z": I(5), "j": I(1), "a": ["arr", [7, 8]], "<state>u": I(-2), "<p>n": I(2), "<t>": I(1)},
]


def enumerate_small(maxlen):
    """every builder program of up to `maxlen` statements from SMALL_STMTS, each statement bare, inside an
    if_ block, or inside the else_ of the previous statement's if_ block (two conditions), every initial
    store of SMALL_STORES.  Deterministic: coverage of the small scope does not depend on the seed."""
    wrappers = ["none", "if0", "if1", "if2", "else"]

    def progs(n, prev_if):
        if n == 0:
            yield []
            return
        for k in SMALL_STMTS:
            for w in wrappers:
                if w == "else" and not prev_if:
                    continue
                if w == "none":
                    head = [["stmt", k]]
                elif w == "else":
                    head = [["else"], ["stmt", k], ["endelse"]]
                else:
                    head = [["if", SMALL_CONDS[int(w[2])]], ["stmt", k], ["endif"]]
                for rest in progs(n - 1, w.startswith("if")):
                    yield head + rest
    for n in range(1, maxlen + 1):
        for p in progs(n, False):
            yield p


def small_scope(rep, maxlen, stride=1):
    """runs the implementation-level oracle over the small scope; returns (n_programs, n_schedules, failing)"""
    failing = {}
    n = ns = 0
    for pi, prog in enumerate(enumerate_small(maxlen)):
        if pi % stride:
            continue
        prog = json.loads(json.dumps(prog))
        for c in prog:      # what the real statements read back as (flattened right-hand sides)
            if c[0] == "stmt":
                c[1] = lang.kind_from_real(lang.kind_to_real(c[1]))
        try:
            names, cb = fresh_names(prog)
        except Exception as ex:  # noqa: BLE001
            failing.setdefault("builder_raises", (prog, SMALL_STORES[0], {"kind": "builder_raises", "exception": repr(ex)}))
            continue
        for store in SMALL_STORES:
            o, exts = oracle(random.Random(1), prog, cb, names, store)
            n += 1
            ns += len(exts)
            if o is None:
                col = fresh_collision(prog, names)
                if col is not None:
                    o = {"kind": "fresh_name_collides", "name": col}
            if o is not None:
                kf0 = classify_known(o, prog, store)
                key = o["kind"] + (":known:" + kf0["class"] if kf0 else "")
                if key not in failing or len(prog) < len(failing[key][0]):
                    failing[key] = (prog, store, o)
    return n, ns, failing


class BuilderFailure(Exception):
    """the real CodeBuilder raised on a legal sequence of calls"""

    def __init__(self, prog, exc):
        super().__init__("%s: %s" % (type(exc).__name__, exc))
        self.prog = prog
        self.exc = exc


def build_program(rng, nstmts, real=True):
    """Generates a builder program while driving the real CodeBuilder (the names returned by
    fresh_var_name feed later statements).  Returns (bprog, builder).  Blocks are generated
    recursively: if_ bodies may contain nested if_ blocks (closed with or without an else_), and
    an else_ may follow any closed if_."""
    from dagrt.language import CodeBuilder
    cb = CodeBuilder("ph")
    prog = []
    pool_ints = list(INTS)
    pool_arrs = list(ARRS)
    budget = [nstmts]

    def cond():
        g = lang.Gen(rng, pool_ints, pool_arrs, [], FUNCS)
        return norm_expr(g.bool_expr(1)) if rng.random() < 0.7 else ["var", rng.choice(pool_ints)]

    def stmt():
        k = gen_stmt_kind(rng, pool_ints, pool_arrs)
        k = lang.kind_from_real(lang.kind_to_real(k))
        if k[0] == "assign" and k[3][0] == "call":
            # flattening may leave a bare call (call * 1): CodeBuilder.assign turns `x <- f(..)` into a function
            # call statement and rejects subscripted / looped left-hand sides there; keep it an expression
            k[3] = ["nary", "sum", [k[3], ["int", 1]]]
            k = lang.kind_from_real(lang.kind_to_real(k))
        call = ["stmt", k, "text"] if rng.random() < 0.3 and textable(k) else ["stmt", k]
        try:
            add_call(cb, call)
        except Exception as ex:  # noqa: BLE001
            raise BuilderFailure(prog + [call], ex) from ex
        prog.append(call)
        budget[0] -= 1

    def block(depth, min_stmts):
        n = 0
        while budget[0] > 0 and (n < min_stmts or rng.random() < 0.7):
            c = rng.random()
            if c < 0.22 and depth < 3 and budget[0] >= 2:
                cnd = cond()
                call = ["if", cnd, if_form(rng, cnd)]
                try:
                    ctx = open_if(cb, call)
                    ctx.__enter__()
                except Exception as ex:  # noqa: BLE001
                    raise BuilderFailure(prog + [call], ex) from ex
                prog.append(call)
                budget[0] -= 1
                block(depth + 1, 1)
                ctx.__exit__(None, None, None)
                prog.append(["endif"])
                if rng.random() < 0.5 and budget[0] > 0:
                    try:
                        ctx = cb.else_()
                        ctx.__enter__()
                    except Exception as ex:  # noqa: BLE001
                        raise BuilderFailure(prog + [["else"]], ex) from ex
                    prog.append(["else"])
                    block(depth + 1, 1)
                    ctx.__exit__(None, None, None)
                    prog.append(["endelse"])
            elif c < 0.3:
                prefix = rng.choice(["tmp", "x", "<cond>", "tmp_0", "i", "j"])
                name = cb.fresh_var_name(prefix)
                prog.append(["fresh", prefix])
                if not name.startswith("<cond>"):
                    pool_ints.append(name)
            else:
                stmt()
            n += 1
    block(0, 1)
    while budget[0] > 0:
        block(0, 1)
    return prog, cb


def _atom_text(e):
    """text of an operand that certainly prints and parses back to itself, or None"""
    if e[0] == "var" and not e[1].startswith("<cond>"):
        return e[1]
    if e[0] == "int" and e[1] >= 0:
        return str(e[1])
    return None


def if_form(rng, cnd):
    """how the condition is handed to CodeBuilder.if_: as an expression object, as one string, or as the
    three arguments (lhs, comparison operator, rhs) with lhs/rhs given as strings or numbers"""
    if cnd[0] == "bin" and cnd[1] in lang.CMP and _atom_text(cnd[2]) and _atom_text(cnd[3]) and rng.random() < 0.5:
        return rng.choice(["str1", "str3", "str3"])
    return "expr"


def open_if(cb, c):
    """cb.if_(...) for the recorded call c = ["if", condition] or ["if", condition, form]"""
    form = c[2] if len(c) > 2 else "expr"
    cnd = c[1]
    if form == "str1":
        return cb.if_("%s %s %s" % (_atom_text(cnd[2]), lang.CMP[cnd[1]], _atom_text(cnd[3])))
    if form == "str3":
        rhs = cnd[3][1] if cnd[3][0] == "int" else _atom_text(cnd[3])      # a number stays a number
        return cb.if_(_atom_text(cnd[2]), lang.CMP[cnd[1]], rhs)
    return cb.if_(lang.to_pym(cnd))


def roundtrips(e):
    """does the expression print and parse back to itself (so that it may be handed to the builder as text)?"""
    from dagrt.expression import parse
    try:
        pe = lang.to_pym(e)
        return lang.from_pym(parse(str(pe))) == e
    except Exception:  # noqa: BLE001
        return False


def textable(k):
    """may the statement be handed to the builder with its expressions as strings?"""
    if k[0] == "assign":
        es = [k[3]] + ([k[2]] if k[2] is not None else []) + [b for _, lo, hi in k[4] for b in (lo, hi)]
        lhs = ["var", k[1]] if k[2] is None else ["bin", "sub", ["var", k[1]], k[2]]
        return all(roundtrips(e) for e in es + [lhs]) and k[3][0] != "call"
    if k[0] == "call":
        return roundtrips(["call", k[2], k[3], k[4]]) and all(roundtrips(["var", x]) for x in k[1]) and len(k[1]) >= 1
    if k[0] == "yield":
        return roundtrips(k[4])
    return False


def add_real_text(cb, k):
    """the same builder call with every expression given as a string"""
    t = k[0]
    if t == "assign":
        lhs = str(lang.to_pym(["var", k[1]] if k[2] is None else ["bin", "sub", ["var", k[1]], k[2]]))
        loops = [(i, str(lang.to_pym(lo)), str(lang.to_pym(hi))) for i, lo, hi in k[4]]
        if loops:
            cb.assign(lhs, str(lang.to_pym(k[3])), loops=loops)
        else:
            cb(lhs, str(lang.to_pym(k[3])))             # CodeBuilder.__call__ is assign
    elif t == "call":
        lhs = tuple(str(lang.to_pym(["var", x])) for x in k[1])
        cb.assign(lhs if len(lhs) > 1 else lhs[0], str(lang.to_pym(["call", k[2], k[3], k[4]])))
    elif t == "yield":
        cb.yield_state(str(lang.to_pym(k[4])), k[1], lang.to_pym(k[3]), k[2])
    else:
        add_real(cb, k)


def add_call(cb, c):
    """carry out the recorded builder call c = ["stmt", kind] or ["stmt", kind, "text"]"""
    if len(c) > 2 and c[2] == "text":
        add_real_text(cb, c[1])
    else:
        add_real(cb, c[1])


def add_real(cb, k):
    import pymbolic.primitives as p
    t = k[0]
    if t == "assign":
        lhs = p.Variable(k[1])
        if k[2] is not None:
            lhs = lhs[lang.to_pym(k[2])]
        cb.assign(lhs, lang.to_pym(k[3]), loops=[(i, lang.to_pym(lo), lang.to_pym(hi)) for i, lo, hi in k[4]])
    elif t == "call":
        cb.assign(tuple(p.Variable(x) for x in k[1]), lang.to_pym(["call", k[2], k[3], k[4]]))
    elif t == "implicit":
        if len(k[1]) == 1 and len(k[2]) == 1 and [n for n, _ in k[4]] == ["guess"]:
            cb.assign_implicit_1(p.Variable(k[1][0]), p.Variable(k[2][0]), lang.to_pym(k[3][0]),
                                 lang.to_pym(k[4][0][1]), k[5])         # the one-unknown convenience form
        else:
            cb.assign_implicit(tuple(k[1]), tuple(k[2]), tuple(lang.to_pym(e) for e in k[3]),
                               {n: lang.to_pym(e) for n, e in k[4]}, k[5])
    elif t == "yield":
        cb.yield_state(lang.to_pym(k[4]), k[1], lang.to_pym(k[3]), k[2])
    elif t == "fail":
        cb.fail_step()
    elif t == "raise":
        cb.raise_(lang.RAISE_CLASSES[k[1]], "msg")
    elif t == "switch":
        cb.switch_phase(k[1])
    else:
        raise ValueError(k)


def replay_program(prog):
    """Drive a fresh real CodeBuilder with a recorded program (for corpus / replay)."""
    from dagrt.language import CodeBuilder
    cb = CodeBuilder("ph")
    stack = []
    for c in prog:
        if c[0] == "stmt":
            add_call(cb, c)
        elif c[0] == "if":
            ctx = open_if(cb, c)
            ctx.__enter__()
            stack.append(ctx)
        elif c[0] in ("endif", "endelse"):
            stack.pop().__exit__(None, None, None)
        elif c[0] == "else":
            ctx = cb.else_()
            ctx.__enter__()
            stack.append(ctx)
        elif c[0] == "fresh":
            cb.fresh_var_name(c[1])
    return cb


def read_builder(cb):
    out = []
    for s in cb.statements:
        sid = int(s.id.rsplit("_", 1)[1])
        deps = sorted(int(d.rsplit("_", 1)[1]) for d in s.depends_on)
        out.append({"sid": sid, "deps": deps, "cond": lang.from_pym(s.condition), "kind": lang.kind_from_real(s)})
    return out


def fresh_names(prog):
    """names returned by fresh_var_name / if_ in a replay (recorded by wrapping the method)"""
    from dagrt.language import CodeBuilder
    names = []
    orig = CodeBuilder.fresh_var_name

    def rec(self, prefix="temp"):
        n = orig(self, prefix)
        names.append(n)
        return n
    CodeBuilder.fresh_var_name = rec
    try:
        cb = replay_program(prog)
    finally:
        CodeBuilder.fresh_var_name = orig
    return names, cb


# ------------------------------------------------------------------ schedule executor on the real statements

def exec_schedule(stmts, order, store):
    """Run real statement objects in the given order through the real interpreter's
    evaluate_condition / exec_* methods.  Returns a JSON-able result."""
    from dagrt.exec_numpy import FailStepException, NumpyInterpreter, TransitionEvent
    from dagrt.language import DAGCode, ExecutionPhase, Nop
    code = DAGCode({"p": ExecutionPhase("p", "p", frozenset([Nop(id="n")]))}, "p")
    interp = lang.implicit_mixin(NumpyInterpreter)(code, lang.function_map(FUNCS))
    ctx = {k: lang.val_to_py(v) for k, v in store.items()}
    interp.context = ctx
    interp.eval_mapper.context = ctx
    events = []
    status = ["run"]
    for i in order:
        stmt = stmts[i]
        try:
            if interp.evaluate_condition(stmt):
                res = getattr(interp, stmt.exec_method)(stmt)
                if res is not None and res[0] is not None:
                    e = res[0]
                    events.append([e.component_id, e.time_id, lang.canon_val(e.t), lang.canon_val(e.state_component)])
        except FailStepException:
            status = ["stop", "fail"]
        except TransitionEvent as t:
            status = ["stop", "switch", t.next_phase]
        except lang.UserFunctionError:
            status = ["crash", "user"]
        except Exception as ex:  # noqa: BLE001
            from dagrt.language import Raise
            if isinstance(stmt, Raise) and type(ex) is stmt.error_condition:
                status = ["stop", "raise", type(ex).__name__]
            else:
                status = ["crash", type(ex).__name__]
        if status[0] != "run":
            break
    final = {k: lang.canon_val(v) for k, v in ctx.items()}
    return {"status": status, "events": events, "store": final}


def natural_run(prog, store):
    """Carry out the builder calls one after another: an if_ block is entered when its condition, evaluated
    on entry, is true; else_ is the complement of the if_ it follows.  Uses the real interpreter only to
    execute single unguarded statements and evaluate expressions; independent of the builder's bookkeeping
    (dependencies, flags, guards), of the execution controller and of the lowering."""
    from dagrt.exec_numpy import FailStepException, NumpyInterpreter, TransitionEvent
    from dagrt.language import DAGCode, ExecutionPhase, Nop, Raise
    code = DAGCode({"p": ExecutionPhase("p", "p", frozenset([Nop(id="n")]))}, "p")
    interp = lang.implicit_mixin(NumpyInterpreter)(code, lang.function_map(FUNCS))
    ctx = {k: lang.val_to_py(v) for k, v in store.items()}
    interp.context = ctx
    interp.eval_mapper.context = ctx
    events, status = [], ["run"]
    stack, last_closed = [], None
    for c in prog:
        try:
            if c[0] == "if":
                stack.append(bool(interp.eval_mapper(lang.to_pym(c[1]))) if all(stack) else False)
            elif c[0] == "endif":
                last_closed = stack.pop()
            elif c[0] == "else":
                stack.append(not last_closed)
            elif c[0] == "endelse":
                stack.pop()
                last_closed = None
            elif c[0] == "stmt" and all(stack):
                stmt = lang.kind_to_real(c[1], cond=["bool", True], sid="nat")
                res = getattr(interp, stmt.exec_method)(stmt)
                if res is not None and res[0] is not None:
                    e = res[0]
                    events.append([e.component_id, e.time_id, lang.canon_val(e.t), lang.canon_val(e.state_component)])
        except FailStepException:
            status = ["stop", "fail"]
        except TransitionEvent as t:
            status = ["stop", "switch", t.next_phase]
        except lang.UserFunctionError:
            status = ["crash", "user"]
        except Exception as ex:  # noqa: BLE001
            if c[0] == "stmt" and c[1][0] == "raise" and type(ex) is lang.RAISE_CLASSES[c[1][1]]:
                status = ["stop", "raise", type(ex).__name__]
            else:
                status = ["crash", type(ex).__name__]
        if status[0] != "run":
            break
    return {"status": status, "events": events, "store": {k: lang.canon_val(v) for k, v in ctx.items()}}


def user_view(r):
    """results without the builder's own flag variables"""
    return {"status": r["status"], "events": r["events"],
            "store": {k: v for k, v in r["store"].items() if not k.startswith("<cond>")}}


def same_result(a, b):
    if a["status"][0] == "crash" or b["status"][0] == "crash":
        return a["status"][0] == b["status"][0]
    return a == b


def linear_extensions(deps, limit):
    """all topological orders (deps: list of dep-id lists) up to `limit`; None if more."""
    n = len(deps)
    out = []

    def rec(done, order):
        if len(out) > limit:
            return
        if len(order) == n:
            out.append(list(order))
            return
        for i in range(n):
            if i not in done and all(d in done for d in deps[i]):
                done.add(i)
                order.append(i)
                rec(done, order)
                order.pop()
                done.discard(i)
    rec(set(), [])
    return out if len(out) <= limit else None


def random_extension(rng, deps):
    n = len(deps)
    done, order = set(), []
    while len(order) < n:
        ready = [i for i in range(n) if i not in done and all(d in done for d in deps[i])]
        i = rng.choice(ready)
        done.add(i)
        order.append(i)
    return order


def oracle(rng, prog, cb, names, store):
    """Decide the property for one program on the real statements."""
    stmts = list(cb.statements)
    deps = [sorted(int(d.rsplit("_", 1)[1]) for d in s.depends_on) for s in stmts]
    for i, d in enumerate(deps):
        if any(x >= i for x in d):
            return {"kind": "forward_edge", "statement": i, "deps": d}, []
    n = len(stmts)
    ref = exec_schedule(stmts, list(range(n)), store)
    nat = natural_run(prog, store)
    if not same_result(user_view(ref), user_view(nat)):
        return {"kind": "program_order_differs_from_written_program", "as_written": user_view(nat),
                "statements_in_order": user_view(ref)}, []
    exts = linear_extensions(deps, 120) if n <= 7 else None
    if exts is None:
        exts = [random_extension(rng, deps) for _ in range(16)]
    for order in exts:
        r = exec_schedule(stmts, order, store)
        if not same_result(ref, r):
            return {"kind": "schedule_differs", "order": order, "program_order": ref, "schedule": r}, exts
    # fresh names: never equal to a name mentioned before the call, pairwise distinct
    if len(set(names)) != len(names):
        return {"kind": "fresh_name_repeated", "names": names}, exts
    return None, exts


def fresh_collision(prog, names):
    """a fresh name equal to a variable the program mentioned earlier (independent recomputation)"""
    seen = {"<exec>"}
    it = iter(names)
    for c in prog:
        if c[0] in ("fresh", "if"):
            nm = next(it, None)
            if nm is None:
                return "<no name was requested for builder call %r>" % (c,)
            if nm in seen:
                return nm
            seen.add(nm)
        if c[0] == "stmt":
            k = c[1]
            seen |= set(stmt_vars(k))
            if k[0] == "assign":
                seen |= {lv for lv, _, _ in k[4]}      # loop counters are names the user chose, too
        if c[0] == "if":
            seen |= lang.expr_vars(c[1])
    return None


def stmt_vars(k):
    u = set()
    if k[0] == "assign":
        u |= {k[1]} | lang.expr_vars(k[3]) | (lang.expr_vars(k[2]) if k[2] else set())
        for i, lo, hi in k[4]:
            u |= lang.expr_vars(lo) | lang.expr_vars(hi)
    elif k[0] == "call":
        u |= set(k[1])
        for e in k[3]:
            u |= lang.expr_vars(e)
        for _, e in k[4]:
            u |= lang.expr_vars(e)
    elif k[0] == "yield":
        u |= lang.expr_vars(k[3]) | lang.expr_vars(k[4])
    elif k[0] == "implicit":
        # the unknowns are names bound inside the solve, not variables of the program (unless the guess or an
        # assignee mentions a variable of the same name)
        u |= set(k[1])
        for e in k[3]:
            u |= lang.expr_vars(e) - set(k[2])
        for _, e in k[4]:
            u |= lang.expr_vars(e)
    return u


# ------------------------------------------------------------------ the listed open finding

def rename_expr(e, m):
    k = e[0]
    if k == "var":
        return ["var", m.get(e[1], e[1])]
    if k == "not":
        return ["not", rename_expr(e[1], m)]
    if k == "if":
        return ["if"] + [rename_expr(x, m) for x in e[1:4]]
    if k == "bin":
        return ["bin", e[1], rename_expr(e[2], m), rename_expr(e[3], m)]
    if k == "nary":
        return ["nary", e[1], [rename_expr(x, m) for x in e[2]]]
    if k == "call":
        return ["call", e[1], [rename_expr(x, m) for x in e[2]], [[n, rename_expr(v, m)] for n, v in e[3]]]
    if k == "pow":
        return ["pow", rename_expr(e[1], m), rename_expr(e[2], m)]
    if k == "lookup":
        return ["lookup", rename_expr(e[1], m), e[2]]
    return e


def written_names(k):
    return {k[1]} if k[0] == "assign" else set(k[1]) if k[0] in ("call", "implicit") else set()


def a3_violations(prog, store):
    """loop-counter names that hypothesis A3 of C02_all_schedules excludes: present in the initial
    store or assigned by some statement of the program"""
    stmts = [c[1] for c in prog if c[0] == "stmt"]
    written = set().union(set(), *[written_names(k) for k in stmts])
    lvs = {lv for k in stmts if k[0] == "assign" for lv, _, _ in k[4]}
    return sorted(lv for lv in lvs if lv in store or lv in written)


def alpha_rename_loop_counters(prog):
    """the same program with every loop counter renamed, statement by statement, to a name used
    nowhere else (bound occurrences: inner bounds, lhs subscript, rhs) -- A3 then holds"""
    out = []
    for n, c in enumerate(prog):
        if c[0] == "stmt" and c[1][0] == "assign" and c[1][4]:
            _, x, sub, rhs, loops = c[1]
            m, loops2 = {}, []
            for j, (lv, lo, hi) in enumerate(loops):
                lo2, hi2 = rename_expr(lo, m), rename_expr(hi, m)
                m = dict(m)
                m[lv] = "lc%d_%d" % (n, j)
                loops2.append([m[lv], lo2, hi2])
            c = ["stmt", ["assign", x, rename_expr(sub, m) if sub is not None else None, rename_expr(rhs, m), loops2]]
        out.append(c)
    return out


def alias_sites(prog):
    """assignments whose right-hand side is a bare variable (the only way two names come to share an array)"""
    return [i for i, c in enumerate(prog) if c[0] == "stmt" and c[1][0] == "assign" and c[1][2] is None
            and not c[1][4] and c[1][3][0] == "var"]


def copy_instead_of_alias(prog):
    """the same program with every `x <- v` written `x <- v + 1 + -1` (a fresh array / the same number)"""
    out = [list(c) for c in prog]
    for i in alias_sites(prog):
        k = list(out[i][1])
        k[3] = ["nary", "sum", [k[3], ["int", 1], ["int", -1]]]
        out[i] = ["stmt", k]
    return out


def classify_known_alias(o, prog, store):
    """array_alias_in_place_write: the schedules differ, the program copies a variable by name, and with
    those copies made real copies the real builder's schedules all agree."""
    if not o or o.get("kind") != "schedule_differs" or not alias_sites(prog):
        return None
    prog2 = copy_instead_of_alias(prog)
    try:
        nm, cb2 = fresh_names(prog2)
        o2, _ = oracle(random.Random(1), prog2, cb2, nm, store)
    except Exception:  # noqa: BLE001
        return None
    if o2 is not None:
        return None
    for f in common.known_findings(PID):
        if f.get("class") == "array_alias_in_place_write":
            return f
    return None


def classify_known(o, prog, store):
    return classify_known_loopvar(o, prog, store) or classify_known_alias(o, prog, store)


def classify_known_loopvar(o, prog, store):
    """loop_counter_shadows_variable: the schedules differ, the program uses as loop counter a name
    that is also an ordinary variable (A3 violated), and with the counters renamed apart the real
    builder's schedules all agree again."""
    if not o or o.get("kind") != "schedule_differs" or not a3_violations(prog, store):
        return None
    prog2 = alpha_rename_loop_counters(prog)
    try:
        nm, cb2 = fresh_names(prog2)
        o2, _ = oracle(random.Random(1), prog2, cb2, nm, store)
    except Exception:  # noqa: BLE001
        return None
    if o2 is not None or fresh_collision(prog2, nm) is not None:
        return None
    for f in common.known_findings(PID):
        if f.get("class") == "loop_counter_shadows_variable":
            return f
    return None


# ------------------------------------------------------------------ Coq terms

def bcall_to_coq(c):
    if c[0] == "stmt":
        return "(BStmt %s)" % lang.kind_to_coq(c[1])
    if c[0] == "if":
        return "(BIf %s)" % lang.to_coq(c[1])
    if c[0] == "fresh":
        return "(BFresh %s)" % lang.coq_str(c[1])
    return {"endif": "BEndIf", "else": "BElse", "endelse": "BEndElse"}[c[0]]


def result_to_coq(r, univ):
    st = r["status"]
    vals = "[%s]" % "; ".join(("Some %s" % lang.val_to_coq(r["store"][v])) if v in r["store"] else "None"
                              for v in univ)
    evs = "[%s]" % "; ".join("EvYield %s %s %s %s" % (lang.coq_str(e[0]), lang.coq_str(e[1]),
                                                       lang.val_to_coq(e[2]), lang.val_to_coq(e[3]))
                             for e in r["events"])
    if st[0] == "run":
        return "(XRun %s %s)" % (vals, evs)
    if st[0] == "crash":
        return "XCrashed"
    why = {"fail": "StFail"}.get(st[1]) or ("(StSwitch %s)" % lang.coq_str(st[2]) if st[1] == "switch"
                                             else "(StRaise %s)" % lang.coq_str(st[2]))
    return "(XStop %s %s %s)" % (vals, evs, why)


def case_term(prog, built, names, store, runs, univ):
    stmts = "; ".join(lang.stmt_to_coq(b["sid"], b["deps"], b["cond"], b["kind"]) for b in built)
    rr = "; ".join("([%s], %s)" % ("; ".join("%d%%nat" % i for i in order), result_to_coq(r, univ))
                   for order, r in runs)
    return "(Build_case2 [%s] [%s] [%s] %s [%s] [%s])" % (
        "; ".join(bcall_to_coq(c) for c in prog), stmts, "; ".join(lang.coq_str(n) for n in names),
        lang.store_to_coq(store), "; ".join(lang.coq_str(v) for v in univ), rr)


def in_universe(r):
    return all(v[0] != "other" for v in r["store"].values()) and \
        all(e[2][0] != "other" and e[3][0] != "other" for e in r["events"])


# ------------------------------------------------------------------ the check

def corpus():
    out = []
    d = os.path.join(common.VERIF, "corpus", PID)
    if os.path.isdir(d):
        for f in sorted(os.listdir(d)):
            if f.endswith(".json"):
                c = json.load(open(os.path.join(d, f)))
                out.append((c["prog"], c["store"]))
    return out


def shrink(prog, store, fails):
    """drop builder calls (keeping the bracket structure balanced) while the failure persists"""
    changed = True
    while changed:
        changed = False
        for i in range(len(prog)):
            if prog[i][0] in ("stmt", "fresh"):
                cand = prog[:i] + prog[i + 1:]
                try:
                    if fails(cand, store):
                        prog, changed = cand, True
                        break
                except Exception:  # noqa: BLE001
                    continue
    return prog


def main(tier):
    rep = common.Reporter(PID, tier)
    seed = common.seed()
    ps = common.proof_stage(rep, PID, gen=["lang"])
    rng = random.Random(seed * 99991 + 2)
    nprog = 400 if tier == "quick" else 6000

    cases = []
    for prog, store in corpus():
        names, cb = fresh_names(prog)
        cases.append((prog, cb, names, store))
    for pi in range(nprog):
        n = rng.choice([2, 3, 4, 5, 6, 7, 9, 12])
        IMPLICIT[0] = (pi % 8 == 7)
        ALIAS[0] = (pi % 8 == 3)
        try:
            prog, _cb = build_program(rng, n)
        except BuilderFailure as bf:
            rep.violation({"what": "the real CodeBuilder raises on a legal sequence of builder calls",
                           "prog": bf.prog, "exception": str(bf), "oracle": {"kind": "builder_raises"}})
            rep.coverage.update(evaluations=len(cases) + 1, distinct_nontrivial=0, rule="aborted: builder raises",
                                samples=[bf.prog])
            return rep.finish("proof")
        names, cb = fresh_names(prog)           # replay: also checks that the recorded program is self-contained
        cases.append((prog, cb, names, gen_store(rng)))

    n_sched = 0
    failing = {}
    terms, term_idx = [], []
    sizes = {}
    for ci, (prog, cb, names, store) in enumerate(cases):
        o, exts = oracle(rng, prog, cb, names, store)
        n_sched += len(exts)
        col = fresh_collision(prog, names)
        if o is None and col is not None:
            o = {"kind": "fresh_name_collides", "name": col}
        if o is not None:
            kf0 = classify_known(o, prog, store)
            key = o["kind"] + (":known:" + kf0["class"] if kf0 else "")
            if key not in failing or len(prog) < len(failing[key][0]):
                failing[key] = (prog, store, o)
        built = read_builder(cb)
        nst = len(built)
        sizes[nst] = sizes.get(nst, 0) + 1
        stmts = list(cb.statements)
        deps = [b["deps"] for b in built]
        orders = [list(range(nst))] + [random_extension(rng, deps) for _ in range(2)]
        runs = [(order, exec_schedule(stmts, order, store)) for order in orders]
        if all(in_universe(r) for _, r in runs) and not any(b["kind"][0] == "implicit" for b in built) \
                and not alias_sites(prog):
            univ = sorted(set(store) | set().union(*[stmt_vars(b["kind"]) | lang.expr_vars(b["cond"]) for b in built])
                          | {lv for b in built if b["kind"][0] == "assign" for lv, _, _ in b["kind"][4]}) \
                if built else sorted(store)
            terms.append(case_term(prog, built, names, store, runs, univ))
            term_idx.append(ci)

    n_small, ns_small, failing_small = small_scope(rep, 2 if tier == "quick" else 3)
    n_sched += ns_small
    for key, v in failing_small.items():
        if key not in failing or len(v[0]) < len(failing[key][0]):
            failing[key] = v

    for key, (prog, store, o) in sorted(failing.items()):
        kf = classify_known(o, prog, store)
        if kf is not None:
            rep.known_finding(kf["what_fails"])
            continue

        def fails(p, s, kind=o["kind"]):
            nm, cb2 = fresh_names(p)
            oo, _ = oracle(random.Random(1), p, cb2, nm, s)
            return oo is not None and oo["kind"] == kind and classify_known(oo, p, s) is None
        prog2 = shrink(prog, store, fails) if o["kind"] == "schedule_differs" else prog
        nm, cb2 = fresh_names(prog2)
        o2, _ = oracle(random.Random(1), prog2, cb2, nm, store)
        rep.violation({"what": "a schedule admitted by the recorded dependencies differs from program order "
                               "(or a builder-generated name collides)",
                       "prog": prog2, "store": store, "statements": [str(s) for s in cb2.statements],
                       "depends_on": [sorted(s.depends_on) for s in cb2.statements], "oracle": o2 or o})

    mism, n_eval, errors = [], 0, []
    if os.path.exists(os.path.join(common.COQ, "model", "SchedCheck.vo")) and \
            os.path.exists(os.path.join(common.COQ, "gen", "GenLang.vo")):
        mism, n_eval, errors = common.eval_cases(PID, HEADER, terms, "chk", shard=40)
        mism = [term_idx[i] for i in mism]
    else:
        errors = ["model not built"]
    tie_broken = bool(mism or errors)
    if (not ps["ok"] or tie_broken) and not rep.violations:
        detail = {"what": "proof obligation or model/implementation correspondence no longer checks; "
                          "no failing input found by the implementation-level oracle",
                  "proof_stage": ps, "coq_errors": errors[:3], "n_disagreements": len(mism)}
        if mism:
            prog, cb, names, store = cases[mism[0]]
            detail["first_disagreeing_case"] = {"prog": prog, "store": store, "real_builder": read_builder(cb),
                                                "real_names": names}
        detail["broken"] = ("theorem file %s" % ps.get("theorem")) if not ps["ok"] else \
            "correspondence CodeBuilder ~ Dagrt.Builder.build / schedule executor ~ Dagrt.Sched.run_ids"
        rep.violation(detail, no_input=True)
    elif not ps["ok"] or tie_broken:
        rep.coverage["broken_obligation"] = ps if not ps["ok"] else {"disagreements": len(mism)}

    nontriv = len({json.dumps(c[0]) for c in cases
                   if len(c[1].statements) >= 3 and any(len(s.depends_on) >= 1 for s in c[1].statements)})
    rep.coverage.update(
        evaluations=len(cases), distinct_nontrivial=nontriv,
        rule="random builder programs (nested if_/else_, loops, subscripts, calls, yields, barriers, "
             "fresh_var_name) driven through the real CodeBuilder; non-trivial = at least 3 statements and one "
             "dependency edge; distinct by program",
        small_scope_programs_x_stores=n_small,
        small_scope_rule="every program of up to %d statements from 17 statement templates, each bare / under one of "
                         "3 if_ conditions / in the else_ of the previous if_, on 2 initial stores; all linear "
                         "extensions" % (2 if tier == "quick" else 3),
        schedules_executed_by_oracle=n_sched, traces_validated_against_impl=n_eval,
        model_impl_disagreements=len(mism),
        input_distribution={"statements_per_program": {str(k): v for k, v in sorted(sizes.items())}},
        samples=[{"prog": cases[i][0], "statements": [str(s) for s in cases[i][1].statements]}
                 for i in (len(cases) // 3, len(cases) - 1)],
    )
    rep.assumptions = ["A1 no aliasing of arrays", "A2 user functions are pure", "A3 loop-counter names are not written "
                       "by any statement and are absent from the initial store",
                       "a step that raises a Python exception is compared only as 'raises' (C11 covers the state)"]
    return rep.finish("proof")


def replay(path):
    r = json.load(open(path))
    if "prog" not in r:
        print("replay names a broken obligation, no input: %s" % r.get("broken"))
        return 1
    names, cb = fresh_names(r["prog"])
    o, _ = oracle(random.Random(1), r["prog"], cb, names, r["store"])
    print(json.dumps({"statements": [str(s) for s in cb.statements], "oracle": o}, indent=1, default=str))
    return 1 if o is not None else 0
