"""C10: verify_code accepts exactly the well-formed methods.

Tie: real dagrt.codegen.analysis.verify_code vs coq/model/Verify.v (evaluated with
vm_compute) on every directed graph on <= 3 (thorough: <= 4) statements per phase with
self-loops, dangling and cross-phase targets, 1-2 phases, x switch targets x flag
writers, plus random larger methods and a duplicate-id stream (model only).
Oracle: an independent graph checker (leaf removal, no DFS) deciding the four clauses of
the property; accepted methods are pushed through the interpreter, create_ast_from_phase
and both code generators looking for dependency-resolution failures.
"""
import itertools
import json
import os
import random
import re

from harness import common

PID = "C10"
DANGLING = 90          # an id that no statement of any phase has
MISSING_PHASE = 9      # a phase name that does not exist
DEP_FAILURES = ("KeyError", "RecursionError", "AssertionError", "IndexError")

# A case: tuple of phases; phase = (name:int, stmts); stmt = (id:int, deps:tuple[int], kind)
# kind = ("plain",) | ("switch", phase:int) | ("assign", varname:str)   varname "c<k>" -> "<cond>c<k>", "v<k>" plain


# ------------------------------------------------------------------ conversion

def _tup(c):
    return tuple((p[0], tuple((s[0], tuple(s[1]), tuple(s[2])) for s in p[1])) for p in c)


def var_real(v):
    return "<cond>" + v if v.startswith("c") else v


def to_real(case):
    from dagrt.language import Assign, AssignFunctionCall, DAGCode, ExecutionPhase, Nop, SwitchPhase
    phases = {}
    for name, stmts in case:
        real = []
        for sid, deps, kind in stmts:
            kw = dict(id="s%d" % sid, depends_on=["s%d" % d for d in deps])
            if kind[0] == "plain":
                # Nop carries no `condition` of its own; the interpreter reads it
                real.append(Nop(condition=True, **kw))
            elif kind[0] == "switch":
                real.append(SwitchPhase(next_phase="p%d" % kind[1], **kw))
            elif sid % 3 == 0:
                real.append(Assign(assignee=var_real(kind[1]), assignee_subscript=(), expression=1, **kw))
            elif sid % 3 == 1:
                # the same write carried out by a function-call statement (one assignee)
                real.append(AssignFunctionCall(assignees=(var_real(kind[1]),), function_id="<func>g", parameters=(),
                                               **kw))
            else:
                # ... or by one with a second, unrelated assignee
                real.append(AssignFunctionCall(assignees=(var_real(kind[1]), "v7"), function_id="<func>f",
                                               parameters=(), **kw))
        phases["p%d" % name] = ExecutionPhase("p%d" % name, "p%d" % name, real)
    initial = "p%d" % case[0][0] if case else "p0"
    return DAGCode(phases=phases, initial_phase=initial)


def model_view(dag):
    """What the model is given: read back from the real objects (iteration orders included)."""
    from dagrt.language import SwitchPhase
    out = []
    for pname, phase in dag.phases.items():
        stmts = []
        for inst in phase.statements:
            deps = [int(d[1:]) for d in inst.depends_on]          # frozenset iteration order
            if isinstance(inst, SwitchPhase):
                kind = ("switch", int(inst.next_phase[1:]))
            else:
                ws = sorted(inst.get_written_variables())
                kind = ("assigns", [(w.startswith("<cond>"), int(re.search(r"(\d+)$", w).group(1))) for w in ws]) if ws \
                    else ("plain",)
            stmts.append((int(inst.id[1:]), deps, kind))
        out.append((int(pname[1:]), stmts))
    return out


def view_to_coq(view):
    ps = []
    for pname, stmts in view:
        ss = []
        for sid, deps, kind in stmts:
            if kind[0] == "plain":
                k = "P"
            elif kind[0] == "switch":
                k = "(W %d)" % kind[1]
            else:
                k = "(A [%s])" % ";".join("(%s,%d)" % ("true" if b else "false", n) for b, n in kind[1])
            ss.append("s %d [%s] %s" % (sid, ";".join(map(str, deps)), k))
        ps.append("p %d [%s]" % (pname, "; ".join(ss)))
    return "[%s]" % "; ".join(ps)


# ------------------------------------------------------------------ implementation

def fortran_registry():
    from dagrt.codegen.fortran import CallCode
    from dagrt.data import Integer
    from dagrt.function_registry import base_function_registry, register_function
    freg = register_function(base_function_registry, "<func>f", (), result_names=("r", "q"),
                             result_kinds=(Integer(), Integer()))
    freg = freg.register_codegen("<func>f", "fortran", CallCode("\n${r} = 1\n${q} = 1\n"))
    freg = register_function(freg, "<func>g", (), result_names=("r",), result_kinds=(Integer(),))
    return freg.register_codegen("<func>g", "fortran", CallCode("\n${r} = 1\n"))


def consumers(dag):
    """Run what relies on well-formedness; returns list of (consumer, phase, exception class)."""
    from dagrt.codegen.dag_ast import create_ast_from_phase
    from dagrt.exec_numpy import FailStepException, NumpyInterpreter, TransitionEvent
    fails = []
    for name in dag.phases:
        try:
            it = NumpyInterpreter(dag, {"<func>g": lambda: 1, "<func>f": lambda: (1, 1)})
            it.set_up(0, 1, {})
            it.next_phase = name
            for _ in it.run_single_step():
                pass
        except (TransitionEvent, FailStepException):
            pass
        except BaseException as ex:  # noqa: BLE001 - the class is the observable
            fails.append(("interpreter", name, type(ex).__name__))
        try:
            create_ast_from_phase(dag, name)
        except BaseException as ex:  # noqa: BLE001
            fails.append(("create_ast_from_phase", name, type(ex).__name__))
    try:
        from dagrt.codegen import PythonCodeGenerator
        PythonCodeGenerator("Method")(dag)
    except BaseException as ex:  # noqa: BLE001
        fails.append(("python codegen", "", type(ex).__name__))
    try:
        from dagrt.codegen.fortran import CodeGenerator as FortranCodeGenerator
        FortranCodeGenerator("method", {}, function_registry=fortran_registry())(dag)
    except BaseException as ex:  # noqa: BLE001
        fails.append(("fortran codegen", "", type(ex).__name__))
    return fails


def plans(dag):
    """What ExecutionController.update_plan plans for one step of each phase, started from the
    phase's roots in the order given: [(roots, plan)] as numbers, or None if it raised."""
    from dagrt.language import ExecutionController
    out = []
    ec = ExecutionController(dag)
    for phase in dag.phases.values():
        roots = list(phase.depends_on)
        ec.reset()
        try:
            ec.update_plan(phase, roots)
        except BaseException:  # noqa: BLE001 - reported through consumers()
            return None
        out.append(([int(r[1:]) for r in roots], [int(i[1:]) for i in ec.plan]))
    return out


def run_impl(case, with_consumers=True):
    """-> dict(outcome=("accept",)|("cge", n)|("exc", class), view=model view, consumers=[...],
    plans=[(roots, plan) per phase] for accepted methods)"""
    from dagrt.codegen.analysis import CodeGenerationError, verify_code
    dag = to_real(case)
    view = model_view(dag)
    cons = []
    try:
        verify_code(dag)
        outcome = ("accept",)
    except CodeGenerationError as ex:
        outcome = ("cge", len(ex.errors))
    except Exception as ex:  # noqa: BLE001 - the class is the observable
        outcome = ("exc", type(ex).__name__)
    pl = None
    if outcome == ("accept",) and with_consumers and case:
        cons = consumers(dag)
        pl = plans(dag)
    return {"outcome": outcome, "view": view, "consumers": cons, "plans": pl}


def _run_chunk(chunk):
    return [run_impl(c) for c in chunk]


def run_all(cases):
    import multiprocessing as mp
    n = common.NPROC
    if len(cases) < 2000 or n <= 1:
        return _run_chunk(cases)
    size = max(200, len(cases) // (n * 8))
    chunks = [cases[i:i + size] for i in range(0, len(cases), size)]
    with mp.get_context("fork").Pool(n) as pool:
        parts = pool.map(_run_chunk, chunks)
    return [r for part in parts for r in part]


# ------------------------------------------------------------------ oracle (independent of the model)

def unique_ids(case):
    return all(len({s[0] for s in stmts}) == len(stmts) for _, stmts in case)


def wf_clauses(case):
    """The four clauses of the property, decided directly. -> list of violated clause names."""
    bad = set()
    names = {p[0] for p in case}
    for _, stmts in case:
        ids = {s[0] for s in stmts}
        if any(d not in ids for s in stmts for d in s[1]):
            bad.add("dependency_outside_phase")
        # acyclicity by leaf removal: keep deleting statements all of whose deps are gone
        alive = {s[0]: set(s[1]) & ids for s in stmts}
        while True:
            leaves = [i for i, ds in alive.items() if not (ds & set(alive))]
            if not leaves:
                break
            for i in leaves:
                del alive[i]
        if alive:
            bad.add("cycle")
        if any(s[2][0] == "switch" and s[2][1] not in names for s in stmts):
            bad.add("missing_phase")
        flags = [s[2][1] for s in stmts if s[2][0] == "assign" and s[2][1].startswith("c")]
        if len(flags) != len(set(flags)):
            bad.add("flag_assigned_twice")
    return sorted(bad)


def oracle(case, res):
    """None, or dict(kind=...) describing how the property fails for this input."""
    bad = wf_clauses(case)
    out = res["outcome"]
    if out[0] == "exc":
        return {"kind": "other_exception", "exception": out[1], "violated_clauses": bad,
                "required": "accept" if not bad else "CodeGenerationError with >= 1 message"}
    if out[0] == "accept" and bad:
        return {"kind": "accepts_ill_formed", "violated_clauses": bad,
                "required": "CodeGenerationError with >= 1 message"}
    if out[0] == "cge" and not bad:
        return {"kind": "rejects_well_formed", "messages": out[1], "required": "accept"}
    if out[0] == "cge" and out[1] < 1:
        return {"kind": "empty_error_list", "violated_clauses": bad,
                "required": "CodeGenerationError with >= 1 message"}
    dep_fails = [f for f in res["consumers"] if f[2] in DEP_FAILURES]
    if out[0] == "accept" and dep_fails:
        return {"kind": "consumer_dependency_failure", "failures": dep_fails,
                "required": "accepted methods are processed without dependency-resolution failure"}
    return None


# ------------------------------------------------------------------ generation

def subsets(xs):
    return [tuple(c) for r in range(len(xs) + 1) for c in itertools.combinations(xs, r)]


def graphs(ids, targets):
    """All assignments of a subset of `targets` to each of the statements `ids`."""
    subs = subsets(targets)
    for combo in itertools.product(subs, repeat=len(ids)):
        yield list(zip(ids, combo))


P, SW_OK, SW_BAD, C0, V0 = ("plain",), ("switch", 0), ("switch", MISSING_PHASE), ("assign", "c0"), ("assign", "v0")


def with_kinds(g, kinds):
    return tuple((i, d, kinds[k] if k < len(kinds) else P) for k, (i, d) in enumerate(g))


def exhaustive(tier):
    cases = []
    scope = {}
    nmax = 3 if tier == "quick" else 4
    # --- one phase
    for n in range(0, nmax + 1):
        ids = list(range(n))
        targets = ids + [DANGLING]
        if n <= 2:
            overlays = list(itertools.product([P, SW_OK, SW_BAD, C0, V0], repeat=n))
        elif n == 3:
            overlays = [(P, P, P), (SW_BAD, P, P), (P, SW_OK, P), (C0, C0, P), (C0, P, P), (C0, C0, SW_BAD),
                        (C0, V0, C0)]
        else:
            overlays = [(P, P, P, P), (C0, C0, P, SW_BAD)]
        k0 = len(cases)
        if n <= 3:
            gs = graphs(ids, targets)
        else:
            # 4 statements: every graph among them; the dangling target only for the first statement
            gs = itertools.chain(graphs(ids, ids),
                                 ([(0, d0 + (DANGLING,))] + g[1:] for g in graphs(ids, ids) for d0 in [g[0][1]]))
        for g in gs:
            for ov in (overlays if n <= 3 or DANGLING not in g[0][1] else overlays[:1]):
                cases.append(((0, with_kinds(g, ov)),))
        scope["1 phase, %d statements" % n] = len(cases) - k0
    # all kind vectors on 3 statements over a few graph shapes
    k0 = len(cases)
    for g in ([(0, ()), (1, ()), (2, ())], [(0, ()), (1, (0,)), (2, (1,))], [(0, (2,)), (1, (0,)), (2, (1,))],
              [(0, ()), (1, (DANGLING,)), (2, ())]):
        for ov in itertools.product([P, SW_OK, SW_BAD, C0, V0], repeat=3):
            cases.append(((0, with_kinds(g, ov)),))
    scope["1 phase, kind vectors / extra"] = len(cases) - k0
    # --- two phases: phase 0 has ids 0.., phase 1 has ids 10..
    sizes = [(1, 1), (1, 2), (2, 1), (2, 2)] if tier == "quick" else [(1, 1), (1, 2), (2, 1), (2, 2), (3, 1), (1, 3)]
    for a, b in sizes:
        ids0, ids1 = list(range(a)), list(range(10, 10 + b))
        t0 = ids0 + [10] + ([DANGLING] if a + b <= 3 or (tier != "quick" and a <= 2) else [])
        t1 = ids1 + [0] + ([DANGLING] if a + b <= 3 else [])
        if a + b <= 3:
            ovs = [((), ()), ((("switch", 1),), ()), ((SW_BAD,), (C0,)), ((C0,), (C0, C0)), ((C0, C0), (C0,))]
        else:
            ovs = [((), ()), ((C0, ("switch", 1)), (C0, SW_BAD)), ((C0, C0), (P, ("switch", 0)))]
        k0 = len(cases)
        g1s = list(graphs(ids1, t1))
        for g0 in graphs(ids0, t0):
            for g1 in g1s:
                for ov0, ov1 in ovs:
                    cases.append(((0, with_kinds(g0, ov0)), (1, with_kinds(g1, ov1))))
        scope["2 phases, %d+%d statements" % (a, b)] = len(cases) - k0
    return cases, scope


def random_case(rng, dup_ids=False):
    nph = rng.choice([1, 1, 2, 2, 3])
    share = rng.random() < 0.3            # phases reuse the same id numbers
    case = []
    all_ids = []
    pools = []
    for ph in range(nph):
        n = rng.randint(2, 9)
        base = 0 if share else 20 * ph
        ids = rng.sample(range(base, base + 20), n)
        if dup_ids and n >= 2:
            for _ in range(rng.randint(1, 2)):
                ids[rng.randrange(n)] = ids[rng.randrange(n)]
        pools.append(ids)
        all_ids += ids
    mutate = rng.random() < 0.45
    for ph in range(nph):
        ids = pools[ph]
        stmts = []
        dens = rng.choice([0.15, 0.3, 0.6])
        for k, i in enumerate(ids):
            deps = {ids[j] for j in range(k) if rng.random() < dens}      # acyclic by construction
            r = rng.random()
            kind = P
            if r < 0.12:
                kind = ("switch", rng.randrange(nph))
            elif r < 0.3:
                kind = ("assign", "c%d" % (10 * ph + k))                 # distinct flags
            elif r < 0.4:
                kind = ("assign", "v%d" % rng.randrange(3))
            stmts.append([i, deps, kind])
        if mutate:
            for _ in range(rng.randint(1, 2)):
                m = rng.random()
                s = rng.choice(stmts)
                if m < 0.2:
                    s[1].add(s[0])                                        # self loop
                elif m < 0.45:
                    s[1].add(rng.choice(ids))                             # possibly a back edge
                elif m < 0.6:
                    s[1].add(DANGLING + rng.randrange(3))
                elif m < 0.8 and nph > 1:
                    s[1].add(rng.choice(all_ids))                         # possibly cross-phase
                elif m < 0.9:
                    s[2] = ("switch", MISSING_PHASE)
                else:
                    s[2] = ("assign", "c%d" % (10 * ph + rng.randrange(len(ids))))   # possibly a 2nd writer
        case.append((ph, tuple((s[0], tuple(sorted(s[1])), s[2]) for s in stmts)))
    return tuple(case)


def corpus():
    out = []
    d = os.path.join(common.VERIF, "corpus", PID)
    if os.path.isdir(d):
        for f in sorted(os.listdir(d)):
            if f.endswith(".json"):
                out.append(_tup(json.load(open(os.path.join(d, f)))["case"]))
    return out


def gen_cases(tier, seed):
    cases = corpus()
    n_corpus = len(cases)
    ex, scope = exhaustive(tier)
    cases += ex
    rng = random.Random(seed * 7919 + 10)
    nrand = 6000 if tier == "quick" else 60000
    cases += [random_case(rng) for _ in range(nrand)]
    ndup = 400 if tier == "quick" else 5000
    dups = [random_case(rng, dup_ids=True) for _ in range(ndup)]
    dups = [c for c in dups if not unique_ids(c)]
    deep = deep_cases(tier)
    cases += [deep_chain(60), deep_wide(60)]
    dist = {"corpus": n_corpus, "exhaustive": len(ex), "random": nrand, "duplicate_id_stream": len(dups),
            "deep_or_wide_methods": len(deep),
            "exhaustive_scope": scope,
            "exhaustive_rule": "every assignment of a subset of {own ids, one id of the other phase, a dangling id} "
                               "to every statement; kinds from {plain, switch existing, switch missing, "
                               "assign <cond>c0, assign v0}: all kind vectors for <= 2 statements, fixed overlays above"}
    return cases, dups, deep, dist


def deep_chain(n):
    return ((0, tuple((i, (i - 1,) if i else (), P) for i in range(n))),)


def deep_wide(n):
    return ((0, tuple((i, (), P) for i in range(n)) + ((n, tuple(range(n)), P),)),)


def deep_cases(tier):
    """Long dependency chains / wide fan-in: resource limits of the consumers.  Run on the
    implementation and the oracle only (unary numerals make them too slow for the Coq side;
    the 60-statement versions are in the ordinary stream)."""
    out = [deep_chain(400), deep_chain(1100), deep_wide(600)]
    if tier != "quick":
        out += [deep_chain(2500), deep_wide(2500)]
    return out


def longest_chain(case):
    """Number of statements on the longest dependency path of any phase (well-formed cases only)."""
    best = 0
    for _, stmts in case:
        deps = {s[0]: s[1] for s in stmts}
        depth = {}
        for root in deps:
            stack = [root]
            while stack:
                x = stack[-1]
                todo = [d for d in deps.get(x, ()) if d in deps and d not in depth]
                if todo:
                    stack.extend(todo)
                else:
                    depth[x] = 1 + max([depth[d] for d in deps.get(x, ()) if d in depth] or [0])
                    stack.pop()
        best = max([best] + list(depth.values()))
    return best


def finding_fragment():
    """Open findings for this property: the assembled list plus this property's committed fragment."""
    out = list(common.known_findings(PID))
    frag = os.path.join(common.VERIF, "known_findings.d", PID + ".json")
    if os.path.exists(frag):
        for f in json.load(open(frag)):
            if f.get("status") == "open" and f not in out:
                out.append(f)
    return out


def match_known(case, res, o, findings):
    """Narrow matchers, one per finding class."""
    import sys
    for f in findings:
        if f.get("class") == "interpreter_recursion_limit":
            if (o["kind"] == "consumer_dependency_failure" and not wf_clauses(case)
                    and all(x[0] == "interpreter" and x[2] == "RecursionError" for x in o["failures"])
                    and longest_chain(case) >= sys.getrecursionlimit() - 100):
                return f
    return None


def size(case):
    return sum(3 + sum(2 + len(s[1]) + (s[2] != P) for s in p[1]) for p in case)


def shrink(case, fails):
    """Greedy: drop phases, statements, edges, kinds while `fails` stays true."""
    changed = True
    while changed:
        changed = False
        for cand in _neighbours(case):
            if size(cand) < size(case) and fails(cand):
                case, changed = cand, True
                break
    return case


def _neighbours(case):
    for i in range(len(case)):
        if len(case) > 1:
            yield case[:i] + case[i + 1:]
        name, stmts = case[i]
        for j in range(len(stmts)):
            yield case[:i] + ((name, stmts[:j] + stmts[j + 1:]),) + case[i + 1:]
            sid, deps, kind = stmts[j]
            for d in deps:
                s2 = (sid, tuple(x for x in deps if x != d), kind)
                yield case[:i] + ((name, stmts[:j] + (s2,) + stmts[j + 1:]),) + case[i + 1:]
            if kind != P:
                yield case[:i] + ((name, stmts[:j] + ((sid, deps, P),) + stmts[j + 1:]),) + case[i + 1:]


# ------------------------------------------------------------------ the check

HEADER = ("From Coq Require Import List Arith Bool.\nImport ListNotations.\n"
          "From Dagrt Require Import GenC10 Verify.\n"
          "Definition s := mkStmt.\nDefinition p n l := mkPhase n n l.\nDefinition P := Plain.\n"
          "Definition W := Switch.\nDefinition A := Assigns.\n"
          "Definition model (D : dag) := verify verify_ids_per_phase verify_cond_writer_limit D.\n"
          "Definition N : list (list nat * list nat) := [].\n"
          "Fixpoint plans_ok (ps : list phase) (pl : list (list nat * list nat)) : bool :=\n"
          "  match ps, pl with\n"
          "  | _, [] => true\n"
          "  | p0 :: ps', (roots, plan) :: pl' =>\n"
          "      plan_eqb (update_plan (pstmts p0) (S (length (pstmts p0))) roots) plan && plans_ok ps' pl'\n"
          "  | [], _ :: _ => false end.\n"
          "Definition chk (c : dag * (nat * nat) * list (list nat * list nat)) : bool :=\n"
          "  let '(D, code, pl) := c in\n"
          "  match code with\n"
          "  | (0, _) => outcome_eqb (model D) Accept && plans_ok D pl\n"
          "  | (1, n) => outcome_eqb (model D) (CodeGenError n)\n"
          "  | (2, _) => outcome_eqb (model D) (Crash KeyError)\n"
          "  | _ => false end.\n")


def case_term(res):
    out = res["outcome"]
    if out[0] == "accept":
        code = "(0,0)"
    elif out[0] == "cge":
        code = "(1,%d)" % out[1]
    elif out == ("exc", "KeyError"):
        code = "(2,0)"
    else:
        code = "(3,0)"
    pl = "; ".join("([%s],[%s])" % (";".join(map(str, r)), ";".join(map(str, q))) for r, q in (res.get("plans") or []))
    return "(%s, %s, %s)" % (view_to_coq(res["view"]), code, "[%s]" % pl if pl else "N")


def as_json(case):
    return [[p[0], [[s[0], list(s[1]), list(s[2])] for s in p[1]]] for p in case]


def main(tier):
    import time
    rep = common.Reporter(PID, tier)
    seed = common.seed()
    stage = {}
    t0 = time.time()
    ps = common.proof_stage(rep, PID, gen=["c10"])
    stage["proof_stage"] = round(time.time() - t0, 1)

    t0 = time.time()
    cases, dups, deep, dist = gen_cases(tier, seed)
    results = run_all(cases)
    dup_results = run_all(dups)
    deep_results = run_all(deep)
    stage["generate_and_run_implementation"] = round(time.time() - t0, 1)
    t0 = time.time()

    # implementation-level oracle on every case
    failing = {}
    n_fail = {}
    findings = finding_fragment()
    n_known = 0
    for c, r in zip(cases + deep, results + deep_results):
        o = oracle(c, r)
        if o is not None:
            f = match_known(c, r, o, findings)
            if f is not None:
                n_known += 1
                rep.known_finding(f["what_fails"])
                continue
            key = o["kind"] + ":" + o.get("exception", "")
            n_fail[key] = n_fail.get(key, 0) + 1
            if key not in failing or size(c) < size(failing[key][0]):
                failing[key] = (c, r, o)
    for key, (c, r, o) in sorted(failing.items()):
        kind = o["kind"]
        c2 = shrink(c, lambda x: (lambda oo: oo is not None and oo["kind"] == kind)(oracle(x, run_impl(x))))
        r2 = run_impl(c2)
        rep.violation({"what": "verify_code does not behave as the property requires (%s)" % kind,
                       "case": as_json(c2), "model_input_coq": view_to_coq(r2["view"]),
                       "impl_result": r2["outcome"], "consumer_failures": r2["consumers"],
                       "oracle": oracle(c2, r2), "cases_failing_this_way": n_fail[key],
                       "replay": "./check C10 --replay <this file>"})

    stage["oracle_and_shrinking"] = round(time.time() - t0, 1)
    t0 = time.time()
    # correspondence with the Coq model
    n_eval = 0
    mism = []
    errors = []
    all_cases = cases + dups
    all_results = results + dup_results
    if os.path.exists(os.path.join(common.COQ, "model", "Verify.vo")) and os.path.exists(
            os.path.join(common.COQ, "gen", "GenC10.vo")):
        terms = [case_term(r) for r in all_results]
        mism, n_eval, errors = common.eval_cases(PID, HEADER, terms, "chk", shard=1500)
    else:
        errors = ["model not built"]

    stage["coq_correspondence"] = round(time.time() - t0, 1)
    tie_broken = bool(mism or errors)
    if (not ps["ok"] or tie_broken) and not rep.violations:
        detail = {"what": "proof obligation or model/implementation correspondence no longer checks; "
                          "no failing input found by the implementation-level oracle",
                  "proof_stage": ps, "coq_errors": errors[:3]}
        if mism:
            i = mism[0]
            detail["first_disagreeing_case"] = {
                "case": as_json(all_cases[i]), "impl_result": all_results[i]["outcome"],
                "model_result": common.eval_term(HEADER, "model %s" % view_to_coq(all_results[i]["view"]))}
            detail["n_disagreements"] = len(mism)
        detail["broken"] = ("theorem file %s" % ps.get("theorem")) if not ps["ok"] else \
            "correspondence verify_code ~ Dagrt.Verify.verify"
        rep.violation(detail, no_input=True)
    elif not ps["ok"] or tie_broken:
        # a failing input was reported above; record the broken obligation alongside
        rep.coverage["broken_obligation"] = ps if not ps["ok"] else {"disagreements": len(mism)}
        if mism:
            rep.coverage["first_disagreeing_case"] = as_json(all_cases[mism[0]])

    outcomes = {}
    for r in all_results:
        k = r["outcome"][0] if r["outcome"][0] != "exc" else "exc:" + r["outcome"][1]
        outcomes[k] = outcomes.get(k, 0) + 1
    clause_hist = {}
    for c in cases:
        for b in wf_clauses(c) or ["well_formed"]:
            clause_hist[b] = clause_hist.get(b, 0) + 1
    accepted = [r for r in results if r["outcome"] == ("accept",)]
    other_cons = sorted({tuple(f) for r in accepted for f in r["consumers"] if f[2] not in DEP_FAILURES})
    distinct = len({json.dumps(as_json(c)) for c, r in zip(cases, results) if r["outcome"] != ("accept",)})
    rep.coverage.update(
        evaluations=len(all_cases) + len(deep), distinct_nontrivial=distinct,
        rule="cases = corpus + exhaustive small graphs (1-2 phases) + random methods (<= 3 phases x <= 9 "
             "statements) + duplicate-id stream (model comparison only); non-trivial = verify_code does not "
             "accept (an error list or an exception); distinct by structure",
        traces_validated_against_impl=n_eval, model_impl_disagreements=len(mism),
        input_distribution=dist, outcome_histogram=outcomes, violated_clause_histogram=clause_hist,
        accepted_pushed_through_consumers=len(accepted),
        plans_compared_with_model=sum(len(r["plans"] or []) for r in accepted),
        consumers="NumpyInterpreter.run_single_step per phase, create_ast_from_phase per phase, "
                  "PythonCodeGenerator, fortran.CodeGenerator (text only, not compiled)",
        consumer_exceptions_not_about_dependencies=[list(x) for x in other_cons][:10],
        oracle_failures=n_fail, known_finding_cases=n_known, stage_seconds=stage,
        samples=[{"input": view_to_coq(all_results[i]["view"]), "impl": all_results[i]["outcome"]} for i in
                 (0, len(all_cases) // 2, len(all_cases) - 1)],
        exhaustive=False,
    )
    rep.assumptions = ["statement ids are unique within a phase (language.py: 'id: a unique identifier'); "
                       "duplicate ids are compared model-vs-implementation only",
                       "names (ids, phases, variables) are abstracted to numbers; only name equality and the "
                       "'<cond>' prefix test are used by verify_code",
                       "depends_on iteration order is read back from the real frozenset and given to the model; "
                       "the theorems hold for every order"]
    return rep.finish("proof")


def replay(path):
    r = json.load(open(path))
    c = r.get("case") or (r.get("first_disagreeing_case") or {}).get("case")
    if c is None:
        print("replay names a broken obligation, no input: %s" % r.get("broken"))
        return 1
    c = _tup(c)
    res = run_impl(c)
    o = oracle(c, res) if unique_ids(c) else None
    print(json.dumps({"case": as_json(c), "impl_result": res["outcome"], "consumer_failures": res["consumers"],
                      "well_formedness_clauses_violated": wf_clauses(c), "oracle": o}, indent=1))
    return 1 if o is not None else 0
