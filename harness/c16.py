"""C16: fusing two methods runs both on shared persistent state without interference.

Tie 1: real dagrt.transform.fuse_two_dags on generated pairs of DAGs (statements produced by driving the
       real CodeBuilder: overlapping temporaries, overlapping statement ids, shared reads of
       <t>/<dt>/<p>/<state>, guards, loops, calls; several phases; disagreeing next/initial phases;
       dangling dependencies; the constant None) vs coq/model/Fuse.v fuse_two_dags, statement by statement
       including every generated name and id.  The iteration orders of the Python sets involved
       (statements of a phase, `id_a & id_b`, the phase names) are captured from the real run and handed
       to the model as its explicit order arguments.
Tie 2: real NumpyInterpreter.run_single_step on every fused phase; the order in which the real
       ExecutionController executed the statements goes to the model (Sched.run_ids on the model's fused
       statements), persistent values / events / stop reason are compared.
Oracle (independent of the model, on the real objects): ids unique; first method's statements untouched;
second method's statements equal up to one injective renaming that is consistent everywhere (guards and
loop headers included); dependencies remapped and inside their own method; a name is renamed iff it is
used by both methods and the effective predicate (the caller's, default `not is_state_variable`) asks;
names shared afterwards are exactly those the predicate keeps; and, when neither method writes a name the
other one uses and the step starts from a store holding only names that are not renamed, the fused step
gives each method the persistent values / events it gets when run alone.
"""
import json
import os
import random
import shutil
import subprocess
import sys
import tempfile

from harness import common, lang

PID = "C16"
HEADER = ("From Coq Require Import List ZArith String Bool.\nImport ListNotations.\n"
          "From Dagrt Require Import GenLang GenC16 Lang TestOracle LangCheck Builder Sched SchedCheck Fuse FuseCheck.\n"
          "Open Scope string_scope.\nOpen Scope Z_scope.\n"
          "Definition is_state := is_state_of state_exact state_prefixes.\n"
          "Definition chk := chk16 lang_del_guarded lang_lhs_sub_reads lang_loop_bound_reads is_state "
          "fuse_sw_thread fuse_sw_pred fuse_sw_guard fuse_sw_loopv.\n")

FUNCS = ["<func>f", "<func>g2", "<func>raise_h", "<func>arr_k", "<func>len_", "<func>p0", "f"]
TEMPS = ["x", "y", "tmp", "tmp_0"]
SHARED_RO = ["<t>", "<dt>", "<p>n", "<state>s"]
OWN = {1: (["<state>u", "<p>m1"], ["<state>b"]), 2: (["<state>v", "<p>m2"], ["<state>c"])}
LOOPVARS = ["i", "j"]


# ------------------------------------------------------------------ predicates

def pred_fn(p):
    """the Python callable handed to fuse_two_dags"""
    if p is None:
        return None
    if p[0] == "all":
        return lambda name: True
    if p[0] == "none":
        return lambda name: False
    if p[0] == "notstate":
        from dagrt.utils import is_state_variable
        return lambda name: not is_state_variable(name)
    if p[0] == "in":
        return lambda name: name in p[1]
    if p[0] == "notin":
        return lambda name: name not in p[1]
    raise ValueError(p)


def pred_coq(p):
    if p is None:
        return "None"
    if p[0] == "all":
        return "(Some (fun _ : var => true))"
    if p[0] == "none":
        return "(Some (fun _ : var => false))"
    if p[0] == "notstate":
        return "(Some (fun x : var => negb (is_state x)))"
    lst = "[%s]" % "; ".join(lang.coq_str(x) for x in p[1])
    if p[0] == "in":
        return "(Some (fun x : var => Fuse.mem x %s))" % lst
    return "(Some (fun x : var => negb (Fuse.mem x %s)))" % lst


def expected_pred(p):
    """what the property demands: the caller's predicate, by default persistent names are kept"""
    from dagrt.utils import is_state_variable
    return pred_fn(p) or (lambda name: not is_state_variable(name))


# ------------------------------------------------------------------ generation (drives the real CodeBuilder)

def norm_expr(e):
    from pymbolic import flatten
    return lang.from_pym(flatten(lang.to_pym(e)))


class MethodGen:
    """one method = one phase built through the real CodeBuilder"""

    def __init__(self, rng, role, label, disciplined):
        from dagrt.language import CodeBuilder
        self.rng = rng
        self.cb = CodeBuilder(label)
        self.disciplined = disciplined
        own_i, own_a = OWN[role]
        other_i, other_a = OWN[3 - role]
        self.ro = list(SHARED_RO)
        if disciplined:
            self.wr_ints = list(own_i)
            self.wr_arrs = list(own_a)
            self.persist_reads = self.ro + own_i
            self.arr_reads = list(own_a)
        else:
            self.wr_ints = own_i + other_i + ["<t>", "<state>s"]
            self.wr_arrs = own_a + other_a
            self.persist_reads = self.ro + own_i + other_i
            self.arr_reads = own_a + other_a
        self.defined = []           # temporaries assigned so far (unconditionally)
        self.defined_arrs = []
        self.comp = "c%d" % role

    def gen(self, reads=None):
        ints = (reads if reads is not None else self.persist_reads + self.defined)
        return lang.Gen(self.rng, ints, self.arr_reads + self.defined_arrs, [], FUNCS[:2])

    def stmt(self, depth):
        import pymbolic.primitives as p
        r, cb = self.rng, self.cb
        c = r.random()
        g = self.gen()
        if c < 0.5:
            # scalar assignment, possibly in loops (loop variables are used in the body)
            nloops = r.choice([0, 0, 0, 1, 1, 2])
            lvs = LOOPVARS[:nloops]
            loops = []
            for k, lv in enumerate(lvs):
                # (a loop that never runs makes exec_Assign raise KeyError on the unchanged interpreter: C01)
                hi = r.choice([["int", 2], ["int", 3], ["var", "<p>n"]])
                loops.append([lv, ["int", r.choice([0, 0, 1])], hi])
            g.loopvars = lvs
            arrs = self.wr_arrs + self.defined_arrs
            if lvs and arrs and r.random() < 0.6:
                x = r.choice(arrs)
                sub = ["bin", "rem", ["var", lvs[-1]], ["int", 2]]
                rhs = ["nary", "sum", [["var", lvs[0]], g.int_expr(1)]]
            else:
                pool = self.wr_ints + TEMPS
                x = r.choice(pool)
                sub = None
                rhs = g.int_expr(2)
                if lvs:
                    rhs = ["nary", "sum", [rhs] + [["var", lv] for lv in lvs]]
            if rhs[0] == "call":
                rhs = ["nary", "sum", [rhs, ["int", 1]]]
            rhs = norm_expr(["bin", "rem", rhs, ["int", 97]])
            lhs = p.Variable(x)
            if sub is not None:
                lhs = lhs[lang.to_pym(sub)]
            cb.assign(lhs, lang.to_pym(rhs), loops=[(i, lang.to_pym(lo), lang.to_pym(hi)) for i, lo, hi in loops])
            if sub is None and depth == 0 and x in TEMPS and x not in self.defined:
                self.defined.append(x)
        elif c < 0.62:
            f = r.choice(["<func>f", "<func>g2"] + (["<func>raise_h", "f", "f"] if not self.disciplined else []))
            n = lang.nres_of(f)
            # (undisciplined: a variable named like the function `f`)
            xs = [r.choice(self.wr_ints + TEMPS + ([] if self.disciplined else ["f"])) for _ in range(n)]
            args = [g.int_expr(1) for _ in range(r.randint(0, 2))]
            kw = [["k", g.int_expr(1)]] if r.random() < 0.3 else []
            cb.assign(tuple(p.Variable(x) for x in xs), lang.to_pym(["call", f, args, kw]))
            if depth == 0:
                for x in xs:
                    if x in TEMPS and x not in self.defined:
                        self.defined.append(x)
        elif c < 0.7:
            # a temporary array
            a = r.choice(["a", "w"])
            cb.assign((p.Variable(a),), lang.to_pym(["call", "<func>arr_k", [g.int_expr(1)], []]))
            if depth == 0 and a not in self.defined_arrs:
                self.defined_arrs.append(a)
        elif c < 0.82:
            cb.yield_state(lang.to_pym(norm_expr(g.int_expr(2))), self.comp, lang.to_pym(["var", "<t>"]),
                           r.choice(["final", "t1"]))
        elif c < 0.9:
            name = cb.fresh_var_name(r.choice(["tmp", "x", "tmp_0"]))
            cb.assign(p.Variable(name), lang.to_pym(norm_expr(g.int_expr(1))))
            if depth == 0:
                self.defined.append(name)
        elif c < 0.94 and not self.disciplined:
            which = r.random()
            if which < 0.4:
                cb.fail_step()
            elif which < 0.7:
                cb.raise_(ValueError, "msg")
            else:
                cb.switch_phase("q")
        else:
            x = r.choice(self.wr_ints)
            cb.assign(p.Variable(x), lang.to_pym(norm_expr(g.int_expr(2))))

    def build(self, n):
        r, cb = self.rng, self.cb
        stack = []
        can_else = False
        k = 0
        while k < n:
            c = r.random()
            if c < 0.14 and len(stack) < 2:
                cond = norm_expr(self.gen().bool_expr(1))
                ctx = cb.if_(lang.to_pym(cond))
                ctx.__enter__()
                stack.append(("if", ctx))
                can_else = False
                k += 1
            elif c < 0.24 and stack:
                kind, ctx = stack.pop()
                ctx.__exit__(None, None, None)
                can_else = kind == "if"
            elif c < 0.3 and can_else and len(stack) < 2:
                ctx = cb.else_()
                ctx.__enter__()
                stack.append(("else", ctx))
                can_else = False
            else:
                self.stmt(len(stack))
                can_else = False
                k += 1
        while stack:
            stack.pop()[1].__exit__(None, None, None)
        return read_statements(cb.statements)


def read_statements(stmts):
    """real statement objects -> JSON-able description (the order given is kept)"""
    out = []
    for s in stmts:
        out.append({"id": s.id, "deps": sorted(s.depends_on),
                    "cond": lang.from_pym(getattr(s, "condition", True)), "kind": lang.kind_from_real(s)})
    return out


WEIRD_IDS = ["s", "s_0", "s_00", "s_1", "s_01", "a_b_2", "_3", "x", "t_", "ph_0", "ph_1", "ph_2", "ph_10", "q_7_"]


def relabel(rng, stmts):
    ids = rng.sample(WEIRD_IDS, len(stmts)) if len(stmts) <= len(WEIRD_IDS) else None
    if ids is None:
        return stmts
    m = {s["id"]: n for s, n in zip(stmts, ids)}
    return [dict(s, id=m[s["id"]], deps=sorted(m[d] for d in s["deps"])) for s in stmts]


def gen_store(rng):
    s = {}
    for v in SHARED_RO + OWN[1][0] + OWN[2][0]:
        s[v] = ["int", rng.randint(-2, 5)]
    for v in OWN[1][1] + OWN[2][1]:
        s[v] = ["arr", [rng.randint(-3, 9) for _ in range(rng.randint(3, 4))]]
    s["<p>n"] = ["int", rng.randint(2, 3)]
    return s


def gen_case(rng):
    """a pair of DAGs + renaming predicate + initial store"""
    c = rng.random()
    disciplined = c < 0.6
    label2 = "ph" if rng.random() < 0.8 else "m2"
    n1, n2 = rng.choice([1, 2, 3, 4, 5, 7]), rng.choice([1, 2, 3, 4, 5, 7])
    ph1 = MethodGen(rng, 1, "ph", disciplined).build(n1)
    ph2 = MethodGen(rng, 2, label2, disciplined).build(n2)
    if rng.random() < 0.15:
        ph1 = relabel(rng, ph1)
    if rng.random() < 0.15:
        ph2 = relabel(rng, ph2)
    container = rng.choice(["list", "frozenset", "frozenset"])
    nxt1 = nxt2 = rng.choice(["ph", "q"])
    if rng.random() < 0.04:
        nxt2 = "other"
    d1 = {"init": "ph", "phases": [{"key": "ph", "name": "ph", "next": nxt1, "stmts": ph1, "container": container}]}
    d2 = {"init": "ph", "phases": [{"key": "ph", "name": rng.choice(["ph"] * 9 + ["ph_b"]), "next": nxt2, "stmts": ph2, "container": container}]}
    if rng.random() < 0.04:
        d2["init"] = "q"
    # further phases: only in one DAG, or in both
    extra = rng.random()
    if extra < 0.12:
        q = MethodGen(rng, 1, "q", disciplined).build(rng.choice([1, 2]))
        d1["phases"].append({"key": "q", "name": "q", "next": "ph", "stmts": q, "container": "list"})
    elif extra < 0.24:
        q = MethodGen(rng, 2, "q", disciplined).build(rng.choice([1, 2]))
        d2["phases"].append({"key": "q", "name": "q2", "next": "ph", "stmts": q, "container": "list"})
    elif extra < 0.34:
        qa = MethodGen(rng, 1, "q", disciplined).build(rng.choice([1, 2, 3]))
        qb = MethodGen(rng, 2, "q", disciplined).build(rng.choice([1, 2, 3]))
        d1["phases"].append({"key": "q", "name": "q", "next": "ph", "stmts": qa, "container": "frozenset"})
        d2["phases"].append({"key": "q", "name": rng.choice(["q", "q", "q_b"]), "next": "ph", "stmts": qb, "container": "list"})
    # malformed inputs
    m = rng.random()
    if m < 0.03 and ph2:
        st = rng.choice(ph2)
        st["deps"] = sorted(st["deps"] + ["nowhere_1"])
    elif m < 0.06 and ph2:
        # the constant None (Assign cannot hold it on its right-hand side: flatten() rejects it)
        for st in ph2:
            if st["kind"][0] == "yield":
                st["kind"][4] = ["if", ["bin", "lt", ["var", "<t>"], ["int", 1]], st["kind"][4], ["none"]]
                break
            if st["kind"][0] == "call" and st["kind"][3]:
                st["kind"][3][0] = ["none"]
                break
        else:
            ph2[0]["cond"] = ["bin", "ne", ["var", "<state>v"], ["none"]]
    pc = rng.random()
    if pc < 0.55:
        pred = None
    elif pc < 0.65:
        pred = ["all"]
    elif pc < 0.72:
        pred = ["none"]
    elif pc < 0.85:
        pred = ["notstate"]
    elif pc < 0.93:
        pred = ["notin", sorted(rng.sample(SHARED_RO + TEMPS + ["<state>u", "<cond>", "i"], 4))]
    else:
        pred = ["in", sorted(rng.sample(SHARED_RO + TEMPS + ["<state>u", "<cond>", "i"], 4))]
    pc = rng.choice([None, None, [["ph", "q"]], {"ph": "nowhere"}])
    return {"dag1": d1, "dag2": d2, "pred": pred, "store": gen_store(rng), "pc": pc}


# ------------------------------------------------------------------ real objects

def real_dag(d):
    from dagrt.language import DAGCode, ExecutionPhase
    phases = {}
    for ph in d["phases"]:
        stmts = [lang.kind_to_real(s["kind"], cond=s["cond"], sid=s["id"], deps=s["deps"]) for s in ph["stmts"]]
        cont = stmts if ph.get("container", "list") == "list" else frozenset(stmts)
        phases[ph["key"]] = ExecutionPhase(ph["name"], ph["next"], cont)
    return DAGCode(phases, d["init"])


def classify_exception(ex):
    msg = str(ex)
    if isinstance(ex, KeyError):
        return ["KeyError"]
    if isinstance(ex, ValueError):
        if "default phase transition out of phase" in msg:
            return ["ValueError", "next:" + msg.rsplit("'", 2)[1]]
        if "initial phase" in msg:
            return ["ValueError", "init"]
        if "invalid foreign object: None" in msg:
            return ["ValueError", "none"]
        if "both phases are None" in msg:
            return ["ValueError", "both"]
    return ["other", type(ex).__name__, msg[:200]]


def run_fuse(case):
    """Run the real fuse_two_dags; record the iteration orders of the sets involved."""
    import pytools
    import dagrt.transform as T
    from pymbolic.imperative.analysis import get_all_used_identifiers
    dag1, dag2 = real_dag(case["dag1"]), real_dag(case["dag2"])
    in_order = {}      # the statements of every input phase, in iteration order
    for tag, dag in (("1", dag1), ("2", dag2)):
        for key, ph in dag.phases.items():
            in_order[tag + ":" + key] = read_statements(list(ph.statements))

    gens = []

    class RecUNG(pytools.UniqueNameGenerator):
        def __init__(self, *a, **k):
            super().__init__(*a, **k)
            self.rec = []
            gens.append(self)

        def __call__(self, based_on="id"):
            self.rec.append(based_on)
            return super().__call__(based_on)

    porder = []
    per_phase = {}
    orig_ung, orig_ftp = pytools.UniqueNameGenerator, T.fuse_two_phases

    def rec_ftp(phase_name, phase1, phase2, *a, **k):
        porder.append(phase_name)
        n0 = len(gens)
        try:
            return orig_ftp(phase_name, phase1, phase2, *a, **k)
        finally:
            per_phase[phase_name] = gens[n0:]

    pytools.UniqueNameGenerator = RecUNG
    T.fuse_two_phases = rec_ftp
    try:
        try:
            # phase_correspondences: the model has no such argument; whatever is passed must make no difference
            fused = T.fuse_two_dags(dag1, dag2, phase_correspondences=case.get("pc"),
                                    should_disambiguate_name=pred_fn(case["pred"]))
            out = ["ok"]
        except Exception as ex:  # noqa: BLE001
            fused = None
            out = classify_exception(ex)
    finally:
        pytools.UniqueNameGenerator = orig_ung
        T.fuse_two_phases = orig_ftp

    # the clash order of every phase present in both DAGs: the names the variable-name generator
    # was asked about, in order, then the clashes the predicate kept (their position is not observable)
    clashes = {}
    for key in dag1.phases:
        if key in dag2.phases:
            real_clash = set(get_all_used_identifiers(dag1.phases[key].statements)) & \
                set(get_all_used_identifiers(dag2.phases[key].statements))
            g = per_phase.get(key) or []
            seen = list(g[0].rec) if g else []
            clashes[key] = seen + sorted(real_clash - set(seen))
    all_keys = list(dict.fromkeys(list(dag1.phases) + list(dag2.phases)))
    porder_full = porder + sorted(k for k in all_keys if k not in porder)
    rec = {"out": out, "in_order": in_order, "porder": porder_full, "clashes": clashes}
    if fused is not None:
        rec["fused"] = {"init": fused.initial_phase,
                        "phases": [{"key": k, "name": ph.name, "next": ph.next_phase,
                                    "stmts": read_statements(list(ph.statements))}
                                   for k, ph in fused.phases.items()]}
    return rec, (dag1, dag2, fused)


def run_phase(dag, key, store):
    """one real run_single_step of phase `key`; returns the result (persistent part of the context,
    events, status) and the ids in execution order"""
    from dagrt.exec_numpy import FailStepException, NumpyInterpreter, TransitionEvent
    from dagrt.language import Raise
    interp = NumpyInterpreter(dag, lang.function_map(FUNCS))
    for k, v in store.items():
        interp.context[k] = lang.val_to_py(v)
    interp.next_phase = key
    order = []
    current = [None]
    orig = interp.evaluate_condition

    def evaluate_condition(stmt):
        order.append(stmt.id)
        current[0] = stmt
        return orig(stmt)
    interp.evaluate_condition = evaluate_condition
    events = []
    status = ["run"]
    import warnings
    with warnings.catch_warnings(record=True) as caught:
        warnings.simplefilter("always")
        try:
            for e in interp.run_single_step():
                events.append([e.component_id, e.time_id, lang.canon_val(e.t), lang.canon_val(e.state_component)])
        except FailStepException:
            status = ["stop", "fail"]
        except TransitionEvent as t:
            status = ["stop", "switch", t.next_phase]
        except lang.UserFunctionError:
            status = ["crash", "user"]
        except Exception as ex:  # noqa: BLE001
            st = current[0]
            if isinstance(st, Raise) and type(ex) is st.error_condition:
                status = ["stop", "raise", type(ex).__name__]
            else:
                status = ["crash", type(ex).__name__]
    final = {k: lang.canon_val(v) for k, v in interp.context.items()}
    # numpy scalars (array elements) do not raise on // 0 and % 0, they warn and yield 0: outside the
    # integer model of Lang.v (A4); such runs are compared real-against-real only
    numpy_warning = any(issubclass(w.category, RuntimeWarning) for w in caught)
    return {"status": status, "events": events, "store": final, "numpy_warning": numpy_warning}, order


# ------------------------------------------------------------------ oracle on the real objects

def _pairs_expr(a, b, where, out):
    """parallel walk of two expression descriptions; collects (old, new, where); False if shapes differ"""
    if a[0] != b[0]:
        return False
    k = a[0]
    if k == "var":
        out.append((a[1], b[1], where))
        return True
    if k in ("int", "bool"):
        return a[1] == b[1]
    if k == "none":
        return True
    if k == "not":
        return _pairs_expr(a[1], b[1], where, out)
    if k == "if":
        return all(_pairs_expr(x, y, where, out) for x, y in zip(a[1:], b[1:]))
    if k == "bin":
        return a[1] == b[1] and _pairs_expr(a[2], b[2], where, out) and _pairs_expr(a[3], b[3], where, out)
    if k == "nary":
        return a[1] == b[1] and len(a[2]) == len(b[2]) and \
            all(_pairs_expr(x, y, where, out) for x, y in zip(a[2], b[2]))
    if k == "call":
        out.append((a[1], b[1], "function"))
        return len(a[2]) == len(b[2]) and [n for n, _ in a[3]] == [n for n, _ in b[3]] and \
            all(_pairs_expr(x, y, where, out) for x, y in zip(a[2], b[2])) and \
            all(_pairs_expr(x[1], y[1], where, out) for x, y in zip(a[3], b[3]))
    return False


def _pairs_stmt(a, b, out):
    ka, kb = a["kind"], b["kind"]
    if ka[0] != kb[0]:
        return False
    if not _pairs_expr(a["cond"], b["cond"], "guard", out):
        return False
    t = ka[0]
    if t == "assign":
        out.append((ka[1], kb[1], "body"))
        if (ka[2] is None) != (kb[2] is None):
            return False
        if ka[2] is not None and not _pairs_expr(ka[2], kb[2], "body", out):
            return False
        if not _pairs_expr(ka[3], kb[3], "body", out) or len(ka[4]) != len(kb[4]):
            return False
        for la, lb in zip(ka[4], kb[4]):
            out.append((la[0], lb[0], "loop"))
            if not (_pairs_expr(la[1], lb[1], "body", out) and _pairs_expr(la[2], lb[2], "body", out)):
                return False
        return True
    if t == "call":
        if len(ka[1]) != len(kb[1]):
            return False
        for x, y in zip(ka[1], kb[1]):
            out.append((x, y, "body"))
        out.append((ka[2], kb[2], "function"))
        return len(ka[3]) == len(kb[3]) and [n for n, _ in ka[4]] == [n for n, _ in kb[4]] and \
            all(_pairs_expr(x, y, "body", out) for x, y in zip(ka[3], kb[3])) and \
            all(_pairs_expr(x[1], y[1], "body", out) for x, y in zip(ka[4], kb[4]))
    if t == "yield":
        return ka[1] == kb[1] and ka[2] == kb[2] and _pairs_expr(ka[3], kb[3], "body", out) and \
            _pairs_expr(ka[4], kb[4], "body", out)
    return ka == kb


def stmt_idents(s):
    """identifiers as the code computes them + loop variables (independent of the model: real methods)"""
    return set(s.get_read_variables()) | set(s.get_written_variables())


def stmt_loopvars(s):
    return {i for i, _, _ in (getattr(s, "loops", None) or [])}


def stmt_written(s):
    return set(s.get_written_variables()) | stmt_loopvars(s)


def stmt_funcs(desc):
    out = []

    def ex(e):
        if e[0] == "call":
            out.append(e[1])
            for c in e[2]:
                ex(c)
            for _, c in e[3]:
                ex(c)
        elif e[0] in ("not",):
            ex(e[1])
        elif e[0] == "if":
            ex(e[1]), ex(e[2]), ex(e[3])
        elif e[0] == "bin":
            ex(e[2]), ex(e[3])
        elif e[0] == "nary":
            for c in e[2]:
                ex(c)
    k = desc["kind"]
    ex(desc["cond"])
    if k[0] == "assign":
        if k[2] is not None:
            ex(k[2])
        ex(k[3])
        for _, lo, hi in k[4]:
            ex(lo), ex(hi)
    elif k[0] == "call":
        out.append(k[2])
        for e in k[3]:
            ex(e)
        for _, e in k[4]:
            ex(e)
    elif k[0] == "yield":
        ex(k[3]), ex(k[4])
    return set(out)


def oracle_phase(key, A, B, F, pred, store, dags):
    """A, B: real statements of the two methods in iteration order; F: statements of the fused phase.
    Returns a list of failures (dicts with `kind`)."""
    fails = []
    want = expected_pred(pred)
    nA = len(A)
    ids = [s.id for s in F]
    if len(set(ids)) != len(ids):
        fails.append({"kind": "duplicate_id", "phase": key, "ids": ids})
    if len(F) != len(A) + len(B):
        fails.append({"kind": "statement_lost", "phase": key, "n": [len(A), len(B), len(F)]})
        return fails
    dA, dB, dF = read_statements(A), read_statements(B), read_statements(F)
    if dF[:nA] != dA:
        fails.append({"kind": "first_method_changed", "phase": key})
    # second method: equal up to one consistent injective renaming
    pairs = []
    for i, (b, f) in enumerate(zip(dB, dF[nA:])):
        if type(B[i]) is not type(F[nA + i]) or not _pairs_stmt(b, f, pairs):
            fails.append({"kind": "second_method_changed", "phase": key, "statement": b["id"],
                          "before": str(B[i]), "after": str(F[nA + i])})
            return fails
    ren = {}
    for old, new, where in pairs:
        if where == "function":
            continue
        ren.setdefault(old, {}).setdefault(new, set()).add(where)
    identsA = set().union(set(), *[stmt_idents(s) for s in A])
    identsB = set().union(set(), *[stmt_idents(s) for s in B])
    clash = identsA & identsB
    for old, news in sorted(ren.items()):
        should = old in clash and bool(want(old))
        occ = {n: sorted(w) for n, w in news.items()}
        if should:
            kept = set(news.get(old, ()))
            if kept and len(news) > 1:
                kind = "guard_not_renamed" if "guard" in kept else \
                    "loop_variable_not_renamed" if kept == {"loop"} else "renaming_inconsistent"
                fails.append({"kind": kind, "phase": key, "name": old, "occurrences": occ})
            elif kept:
                fails.append({"kind": "clash_not_renamed", "phase": key, "name": old})
            elif len(news) > 1:
                fails.append({"kind": "renaming_inconsistent", "phase": key, "name": old, "occurrences": occ})
        elif set(news) != {old}:
            persistent = not expected_pred(None)(old)
            fails.append({"kind": "persistent_renamed" if persistent and pred is None else "predicate_not_honoured",
                          "phase": key, "name": old, "occurrences": occ, "predicate": pred,
                          "used_by_both": old in clash})
    finals = {}
    for old, news in ren.items():
        for new in news:
            finals.setdefault(new, set()).add(old)
    for new, olds in finals.items():
        if len(olds) > 1:
            fails.append({"kind": "renaming_not_injective", "phase": key, "name": new, "from": sorted(olds)})
    for old, new, where in pairs:
        if where == "function" and old != new:
            fails.append({"kind": "function_renamed", "phase": key, "name": old, "renamed_to": new,
                          "benign": old in clash})
    # dependencies
    idsA, idsB_new = set(ids[:nA]), ids[nA:]
    if len({b.id for b in B}) == len(B):
        idmap = {b.id: n for b, n in zip(B, idsB_new)}
        for b, f in zip(B, F[nA:]):
            if set(f.depends_on) != {idmap.get(d) for d in b.depends_on}:
                fails.append({"kind": "dependencies_changed", "phase": key, "statement": b.id,
                              "before": sorted(b.depends_on), "after": sorted(f.depends_on)})
            if not set(f.depends_on) <= set(idsB_new):
                fails.append({"kind": "dependency_outside_method", "phase": key, "statement": f.id})
    for a, f in zip(A, F[:nA]):
        if set(f.depends_on) != set(a.depends_on):
            fails.append({"kind": "dependencies_changed", "phase": key, "statement": a.id})
    # names shared after fusion are exactly those the predicate keeps
    loops_used = all(stmt_loopvars(s) <= stmt_idents(s) for s in list(A) + list(B))
    namesA = set().union(set(), *[stmt_idents(s) | stmt_loopvars(s) for s in F[:nA]])
    namesB2 = set().union(set(), *[stmt_idents(s) | stmt_loopvars(s) for s in F[nA:]])
    if loops_used:
        for x in sorted(namesA & namesB2):
            if want(x):
                fails.append({"kind": "temporary_shared", "phase": key, "name": x})
    # run equivalence (decided on the inputs and the real runs only, whatever the structural findings)
    dag1, dag2, fused = dags
    wrA = set().union(set(), *[stmt_written(s) for s in A])
    wrB = set().union(set(), *[stmt_written(s) for s in B])
    usedA = set().union(set(), *[stmt_idents(s) | stmt_loopvars(s) for s in A])
    usedB = set().union(set(), *[stmt_idents(s) | stmt_loopvars(s) for s in B])
    shared_kept = {x for x in usedA & usedB if not want(x)}
    funcs = set().union(set(), *[stmt_funcs(d) for d in dA + dB])
    pre = {
        "loops_used": loops_used,
        "no_shared_write": not (shared_kept & (wrA | wrB)),
        "store_has_no_renamed_name": not any(want(x) for x in store),
        "functions_are_not_variables": not (funcs & (usedA | usedB)),
    }
    if not all(pre.values()):
        return fails + [{"kind": "_skipped", "pre": pre}]
    rA, _ = run_phase(dag1, key, store)
    rB, _ = run_phase(dag2, key, store)
    if rA["status"] != ["run"] or rB["status"] != ["run"]:
        return fails + [{"kind": "_skipped", "pre": "a separate run does not complete"}]
    rF, _ = run_phase(fused, key, store)
    bad = None
    if rF["status"] != ["run"]:
        bad = "the fused step does not complete: %r" % (rF["status"],)
    else:
        for x in sorted(set(rA["store"]) | set(rB["store"]) | set(rF["store"])):
            exp = rA["store"].get(x) if x in wrA else rB["store"].get(x) if x in wrB else store.get(x)
            if rF["store"].get(x) != exp:
                bad = "persistent variable %s: fused %r, alone %r" % (x, rF["store"].get(x), exp)
                break
        if bad is None:
            if sorted(map(json.dumps, rF["events"])) != sorted(map(json.dumps, rA["events"] + rB["events"])):
                bad = "events differ: fused %r, alone %r + %r" % (rF["events"], rA["events"], rB["events"])
    if bad:
        return fails + [{"kind": "run_differs", "phase": key, "why": bad, "alone_1": rA, "alone_2": rB,
                         "fused": rF}]
    return fails + [{"kind": "_ran"}]


def malformed(case):
    """independent of the code: a dependency of the second DAG that is not an id of its phase; the constant None"""
    out = set()
    for ph in case["dag2"]["phases"]:
        ids = {st["id"] for st in ph["stmts"]}
        if any(d not in ids for st in ph["stmts"] for d in st["deps"]):
            out.add("dangling_dependency")
    if '["none"]' in json.dumps(case["dag2"]):
        out.add("constant_none")
    return out


def matches_known(f, known):
    """Narrow matchers for `open` findings.
    class function_symbol_is_variable: a name that both methods use as a *variable* is also called as a function by
    the second method; pymbolic's SubstitutionMapper renames the function symbol along with the variable."""
    for k in known:
        if k.get("class") == "function_symbol_is_variable" and f["kind"] == "function_renamed" and f.get("benign"):
            return k
    return None


def open_findings():
    """known_findings.json (assembled by harness/manifest.py) plus this property's own fragment"""
    known = list(common.known_findings(PID))
    frag = os.path.join(common.VERIF, "known_findings.d", PID + ".json")
    if os.path.exists(frag):
        for k in json.load(open(frag)):
            if k.get("status") == "open" and k not in known:
                known.append(k)
    return known


def oracle(case, rec, objs):
    dag1, dag2, fused = objs
    out = []
    if fused is None:
        # an exception is demanded exactly for: disagreement on next/initial phase; anything else on
        # well-formed input is a failure of "contains both"
        if rec["out"][0] == "ValueError" and rec["out"][1].startswith(("next:", "init")):
            return []
        bad = malformed(case)
        if rec["out"][0] == "KeyError" and "dangling_dependency" in bad:
            return []     # malformed input stream
        if rec["out"] == ["ValueError", "none"] and "constant_none" in bad:
            return []
        return [{"kind": "unexpected_exception", "exception": rec["out"], "malformed": sorted(bad)}]
    if dag1.initial_phase != fused.initial_phase:
        out.append({"kind": "initial_phase_changed"})
    for key in list(dag1.phases) + [k for k in dag2.phases if k not in dag1.phases]:
        if key not in fused.phases:
            out.append({"kind": "phase_lost", "phase": key})
            continue
        p1, p2 = dag1.phases.get(key), dag2.phases.get(key)
        if p1 is None or p2 is None:
            if fused.phases[key] is not (p1 or p2):
                out.append({"kind": "single_phase_changed", "phase": key})
            continue
        if fused.phases[key].next_phase != p1.next_phase:
            out.append({"kind": "next_phase_changed", "phase": key})
        out.extend(oracle_phase(key, list(p1.statements), list(p2.statements), list(fused.phases[key].statements),
                                case["pred"], case["store"], objs))
    return out


# ------------------------------------------------------------------ Coq terms

def fstmt_coq(s):
    return "(Build_fstmt %s [%s] %s %s)" % (lang.coq_str(s["id"]), "; ".join(lang.coq_str(d) for d in s["deps"]),
                                           lang.to_coq(s["cond"]), lang.kind_to_coq(s["kind"]))


def fdag_coq(phases, init):
    """phases: list of (key, name, next, stmts)"""
    return "(Build_fdag [%s] %s)" % (
        "; ".join("(%s, Build_fphase %s %s [%s])" % (lang.coq_str(k), lang.coq_str(n), lang.coq_str(nx),
                                                     "; ".join(fstmt_coq(s) for s in st))
                  for k, n, nx, st in phases), lang.coq_str(init))


def case_term(case, rec, runs):
    def dag(tag, d):
        return fdag_coq([(ph["key"], ph["name"], ph["next"], rec["in_order"][tag + ":" + ph["key"]])
                         for ph in d["phases"]], d["init"])
    out = rec["out"]
    if out[0] == "ok":
        f = rec["fused"]
        x = "(XDag %s)" % fdag_coq([(ph["key"], ph["name"], ph["next"], ph["stmts"]) for ph in f["phases"]], f["init"])
    elif out[0] == "ValueError":
        x = "(XValueError %s)" % lang.coq_str(out[1])
    elif out[0] == "KeyError":
        x = "XKeyError"
    else:
        x = "(XValueError \"unmodelled exception\")"
    from harness import c02
    rr = "; ".join("(Build_run16 %s [%s] %s [%s] %s)" % (
        lang.coq_str(r["phase"]), "; ".join("%d%%nat" % i for i in r["order"]), lang.store_to_coq(r["store"]),
        "; ".join(lang.coq_str(v) for v in r["univ"]), c02.result_to_coq(r["res"], r["univ"])) for r in runs)
    return "(Build_case16 %s [%s] [%s] %s %s %s [%s])" % (
        pred_coq(case["pred"]), "; ".join(lang.coq_str(p) for p in rec["porder"]),
        "; ".join("(%s, [%s])" % (lang.coq_str(k), "; ".join(lang.coq_str(v) for v in vs))
                  for k, vs in sorted(rec["clashes"].items())),
        dag("1", case["dag1"]), dag("2", case["dag2"]), x, rr)


def model_runs(case, rec, objs):
    """real runs of the fused phases handed to the model (Tie 2)"""
    dag1, dag2, fused = objs
    runs = []
    if fused is None:
        return runs
    for key, ph in fused.phases.items():
        if not isinstance(ph.statements, list):
            continue
        res, order = run_phase(fused, key, case["store"])
        ids = [s.id for s in ph.statements]
        if len(set(ids)) != len(ids) or res["numpy_warning"]:
            continue
        if not set().union(set(), *[stmt_funcs(d) for d in read_statements(ph.statements)]) <= set(FUNCS):
            continue      # a function symbol was renamed: the test oracle of the model knows every name
        if '["none"]' in json.dumps(read_statements(ph.statements)):
            continue      # the interpreter's debug trace cannot even print the constant None
        if any(v[0] == "other" for v in res["store"].values()) or \
                any(e[2][0] == "other" or e[3][0] == "other" for e in res["events"]):
            continue
        names = set(case["store"])
        for s in ph.statements:
            names |= stmt_idents(s)
        univ = sorted(x for x in names if x.startswith("<state>") or x.startswith("<p>") or x in ("<t>", "<dt>"))
        runs.append({"phase": key, "order": [ids.index(i) for i in order], "store": case["store"],
                     "univ": univ, "res": res})
    return runs


# ------------------------------------------------------------------ the check

def size(case):
    return sum(len(ph["stmts"]) for d in (case["dag1"], case["dag2"]) for ph in d["phases"])


def corpus():
    out = []
    d = os.path.join(common.VERIF, "corpus", PID)
    if os.path.isdir(d):
        for f in sorted(os.listdir(d)):
            if f.endswith(".json"):
                c = json.load(open(os.path.join(d, f)))
                out.append({k: c.get(k) for k in ("dag1", "dag2", "pred", "store", "pc")})
    return out


def evaluate(case):
    rec, objs = run_fuse(case)
    fails = oracle(case, rec, objs)
    return rec, objs, fails


def shrink(case, kind):
    """drop statements of either method while a failure of the same kind persists"""
    def fails(c):
        try:
            _, _, fl = evaluate(c)
        except Exception:  # noqa: BLE001
            return False
        return any(f["kind"] == kind for f in fl)

    def without(c, di, pi, si):
        c2 = json.loads(json.dumps(c))
        ph = c2[di]["phases"][pi]
        gone = ph["stmts"][si]["id"]
        del ph["stmts"][si]
        for s in ph["stmts"]:
            s["deps"] = [d for d in s["deps"] if d != gone]
        return c2
    changed = True
    while changed:
        changed = False
        for di in ("dag1", "dag2"):
            for pi in range(len(case[di]["phases"])):
                for si in range(len(case[di]["phases"][pi]["stmts"])):
                    cand = without(case, di, pi, si)
                    if fails(cand):
                        case, changed = cand, True
                        break
                if changed:
                    break
            if changed:
                break
    return case


def describe(objs):
    def show(dag):
        if dag is None:
            return None
        try:
            return str(dag).splitlines()
        except Exception:  # noqa: BLE001  (the stringifier rejects the constant None)
            return [repr(read_statements(list(ph.statements))) for ph in dag.phases.values()]
    dag1, dag2, fused = objs
    return {"method_1": show(dag1), "method_2": show(dag2), "fused": show(fused)}


def main(tier):
    rep = common.Reporter(PID, tier)
    seed = common.seed()
    ps = common.proof_stage(rep, PID, gen=["lang", "c16"], extra_targets=["proofs/FuseWitnessProofs.vo"])
    rng = random.Random(seed * 1000003 + 16)
    ncase = 350 if tier == "quick" else 6000

    cases = corpus()
    n_corpus = len(cases)
    for _ in range(ncase):
        cases.append(gen_case(rng))

    failing = {}
    terms, term_idx, term_rec = [], [], []
    stats = {"fused_ok": 0, "ValueError": 0, "KeyError": 0, "other_exception": 0, "run_oracle_ran": 0,
             "run_oracle_skipped": 0, "phases_fused": 0, "model_runs": 0}
    sizes = {}
    recs = []
    for ci, case in enumerate(cases):
        rec, objs, fails = evaluate(case)
        recs.append(rec)
        o = rec["out"][0]
        stats["fused_ok" if o == "ok" else o if o in ("ValueError", "KeyError") else "other_exception"] += 1
        for f in fails:
            if f["kind"] == "_ran":
                stats["run_oracle_ran"] += 1
            elif f["kind"] == "_skipped":
                stats["run_oracle_skipped"] += 1
            else:
                key = f["kind"]
                if key not in failing or size(case) < size(failing[key][0]):
                    failing[key] = (case, f)
        sz = size(case)
        sizes[sz // 3 * 3] = sizes.get(sz // 3 * 3, 0) + 1
        if o == "ok":
            both = [k for k in objs[0].phases if k in objs[1].phases]
            stats["phases_fused"] += len(both)
        runs = model_runs(case, rec, objs)
        stats["model_runs"] += len(runs)
        if o != "other":
            terms.append(case_term(case, rec, runs))
            term_idx.append(ci)
            term_rec.append(rec)

    # the same cases under other hash seeds (other iteration orders of `id_a & id_b` and of the phase names):
    # real run + oracle in a subprocess, the orders it captured go to the model
    hs_list = [1, 2] if tier == "quick" else [1, 2, 3, 5, 8]
    pick = [ci for ci, r in enumerate(recs) if r["out"][0] == "ok" and any(len(v) >= 2 for v in r["clashes"].values())]
    pick = pick[:60 if tier == "quick" else 500]
    orders_seen = set()
    tmp = tempfile.mkdtemp()
    try:
        with open(os.path.join(tmp, "in.json"), "w") as f:
            json.dump([cases[ci] for ci in pick], f)
        for hs in hs_list:
            env = dict(os.environ, PYTHONHASHSEED=str(hs))
            pr = subprocess.run([sys.executable, "-m", "harness.c16", os.path.join(tmp, "in.json"),
                                 os.path.join(tmp, "out.json")], env=env, capture_output=True, text=True,
                                cwd=common.VERIF)
            if pr.returncode != 0:
                raise RuntimeError("hash-seed batch failed: " + pr.stderr[-2000:])
            for ci, o in zip(pick, json.load(open(os.path.join(tmp, "out.json")))):
                orders_seen.add((ci, json.dumps(o["rec"]["clashes"], sort_keys=True)))
                for fl in o["fails"]:
                    if fl["kind"] not in failing or size(cases[ci]) < size(failing[fl["kind"]][0]):
                        failing[fl["kind"]] = (cases[ci], fl)
                if o["rec"]["out"][0] != "other":
                    terms.append(case_term(cases[ci], o["rec"], []))
                    term_idx.append(ci)
                    term_rec.append(o["rec"])
    finally:
        shutil.rmtree(tmp, ignore_errors=True)
    for ci in pick:
        orders_seen.add((ci, json.dumps(recs[ci]["clashes"], sort_keys=True)))
    stats["hash_seed_variants"] = len(pick) * len(hs_list)
    stats["distinct_clash_orders_over_seeds"] = len(orders_seen)

    known = open_findings()
    for key, (case, f) in sorted(failing.items()):
        small = shrink(case, key)
        rec2, objs2, fails2 = evaluate(small)
        f2 = next((x for x in fails2 if x["kind"] == key), f)
        k = matches_known(f2, known)
        if k is not None:
            rep.known_finding(k.get("what_fails", k.get("line", "")))
            continue
        rep.violation({"what": "fuse_two_dags: " + key.replace("_", " "),
                       "dag1": small["dag1"], "dag2": small["dag2"], "pred": small["pred"], "store": small["store"],
                       "pc": small.get("pc"),
                       "oracle": f2, "real": describe(objs2),
                       "replay": "./check C16 --replay <this file>"})

    mism, n_eval, errors = [], 0, []
    if os.path.exists(os.path.join(common.COQ, "model", "FuseCheck.vo")) and \
            os.path.exists(os.path.join(common.COQ, "gen", "GenC16.vo")):
        mism, n_eval, errors = common.eval_cases(PID, HEADER, terms, "chk", shard=25)
        mism_terms = list(mism)
        mism = [term_idx[i] for i in mism]
    else:
        errors = ["model not built"]
    tie_broken = bool(mism or errors)
    if (not ps["ok"] or tie_broken) and not rep.violations:
        detail = {"what": "proof obligation or model/implementation correspondence no longer checks; "
                          "no failing input found by the implementation-level oracle",
                  "proof_stage": ps, "coq_errors": errors[:3], "n_disagreements": len(mism)}
        if mism:
            i, rec_i = mism[0], term_rec[mism_terms[0]]
            detail["first_disagreeing_case"] = dict(cases[i], real=rec_i)
            detail["model_result"] = common.eval_term(HEADER, "model_fuse lang_lhs_sub_reads lang_loop_bound_reads "
                                                      "is_state fuse_sw_thread fuse_sw_pred fuse_sw_guard "
                                                      "fuse_sw_loopv %s" % case_term(cases[i], rec_i, []))[-3000:]
        detail["broken"] = ("theorem file %s" % ps.get("theorem")) if not ps["ok"] else \
            "correspondence dagrt.transform.fuse_two_dags ~ Dagrt.Fuse.fuse_two_dags / fused run ~ Sched.run_ids"
        rep.violation(detail, no_input=True)
    elif not ps["ok"] or tie_broken:
        rep.coverage["broken_obligation"] = ps if not ps["ok"] else {"disagreements": len(mism),
                                                                     "first": cases[mism[0]] if mism else None,
                                                                     "errors": errors[:2]}

    nontriv = len({json.dumps([c["dag1"], c["dag2"], c["pred"]]) for c, r in zip(cases, recs)
                   if r["out"][0] == "ok" and any(len(v) >= 2 for v in r["clashes"].values())})
    rep.coverage.update(
        evaluations=len(cases), distinct_nontrivial=nontriv,
        rule="pairs of DAGs whose statements come from driving the real CodeBuilder (if_/else_, loops, subscripts, "
             "calls with several results, yields, fresh names, barriers), plus relabelled ids, second/third phases, "
             "disagreeing next/initial phase, dangling dependency, the constant None; non-trivial = fused "
             "successfully and at least two names used by both methods in some phase; distinct by (dag1, dag2, predicate)",
        traces_validated_against_impl=n_eval, model_impl_disagreements=len(mism),
        input_distribution={"corpus": n_corpus, "random": ncase, "outcomes": stats,
                            "total_statements_histogram": {str(k): v for k, v in sorted(sizes.items())}},
        samples=[{"dag1": cases[i]["dag1"], "dag2": cases[i]["dag2"], "pred": cases[i]["pred"],
                  "out": recs[i]["out"], "clashes": recs[i]["clashes"]} for i in (len(cases) // 2, len(cases) - 1)],
    )
    rep.assumptions = ["names are ASCII", "A1 no aliasing of arrays", "A2 user functions are pure",
                       "statement ids are unique within each input phase",
                       "run equivalence: neither method writes a name the other one uses (stronger than the "
                       "property's 'write disjoint persistent variables', which is not sufficient: see design/C16.md), "
                       "every loop variable occurs in its statement's body or bounds, no variable is named like a "
                       "called function, the step starts from a store holding only names that are not renamed"]
    return rep.finish("proof")


def replay(path):
    r = json.load(open(path))
    if "dag1" not in r:
        r = r.get("first_disagreeing_case") or r
    if "dag1" not in r:
        print("replay names a broken obligation, no input: %s" % r.get("broken"))
        return 1
    case = {k: r.get(k) for k in ("dag1", "dag2", "pred", "store", "pc")}
    rec, objs, fails = evaluate(case)
    real = [f for f in fails if not f["kind"].startswith("_")]
    print(json.dumps({"real": describe(objs), "out": rec["out"], "oracle": real}, indent=1, default=str))
    return 1 if real else 0


def batch(path_in, path_out):
    """evaluate cases in this process (started with another PYTHONHASHSEED); see main"""
    out = []
    for case in json.load(open(path_in)):
        rec, _objs, fails = evaluate(case)
        out.append({"rec": rec, "fails": [f for f in fails if not f["kind"].startswith("_")]})
    with open(path_out, "w") as f:
        json.dump(out, f, default=str)


if __name__ == "__main__":
    batch(sys.argv[1], sys.argv[2])
