"""C09: inferred kinds agree with the values computed at run time.

Ties (model = coq/model/Kinds.v, evaluated by vm_compute):
  (1) real SymbolKindFinder (called as codegen/fortran.py calls it: names, statement lists, forced loop
      kinds; and as infer_kinds calls it: no forced kinds) vs Kinds.infer: whole kind tables incl. None
      entries, insertion order, the number of "trying to derive 'kind'" messages, and the exception class
      when inference fails;
  (2) real Python/numpy/dagrt.builtins_python vs Kinds.ceval/cop: every operator and built-in applied to
      representative REAL values of each class (negative bases, 0-d arrays, numpy scalars, bools, complex,
      user-type doubles); the class of the real result must be one the class semantics allows;
  (3) the table of built-ins read off function_registry.py vs Kinds.builtin_reg.
Oracles (independent of the model):
  (a) every assigned variable has a (non-None) kind in the real table;
  (b) the program is run in the real NumpyInterpreter with a recording variable store; the class of every
      value stored must inhabit the kind the real table gives that variable;
  (c) every built-in is called (check=True accepts the argument kinds) on real values and the classes of
      what it returns are compared with the kinds get_result_kinds declares.
"""
import contextlib
import io
import itertools
import json
import os
import random
import warnings

from harness import common

PID = "C09"

# ====================================================================== values and classes

_np = None


def np():
    global _np
    if _np is None:
        import numpy
        warnings.simplefilter("ignore")
        numpy.seterr(all="ignore")
        _np = numpy
    return _np


_UArr = None


def UArr():
    """Test double for a user-type value: an ndarray tagged with the user type identifier."""
    global _UArr
    if _UArr is not None:
        return _UArr
    n = np()

    class UArrT(n.ndarray):
        __array_priority__ = 20.0

        def __new__(cls, data, ident):
            obj = n.asarray(data).view(cls)
            obj.ident = ident
            return obj

        def __array_finalize__(self, obj):
            self.ident = getattr(obj, "ident", None)

        def __array_ufunc__(self, ufunc, method, *inputs, out=None, **kwargs):
            idents = {x.ident for x in inputs if isinstance(x, UArrT)}
            if len(idents) != 1:
                raise TypeError("mismatched user types %r" % sorted(map(str, idents)))
            ident = idents.pop()
            args = [n.asarray(x) if isinstance(x, UArrT) else x for x in inputs]
            if out is not None:
                kwargs["out"] = tuple(n.asarray(o) if isinstance(o, UArrT) else o for o in out)
            res = getattr(ufunc, method)(*args, **kwargs)
            if isinstance(res, n.ndarray) and res.ndim >= 1:
                return UArrT(res, ident)
            return res

    _UArr = UArrT
    return _UArr


def classify(v):
    """Class of a runtime value as a string: CNone CBool CInt CReal CComplex CArr:true|false CUser:<id>."""
    n = np()
    if v is None:
        return "CNone"
    if isinstance(v, UArr()):
        if v.ndim >= 1:
            return "CUser:%s" % v.ident
        v = n.asarray(v)
    if isinstance(v, n.ndarray) and v.ndim >= 1:
        return "CArr:%s" % ("false" if n.iscomplexobj(v) else "true")
    if isinstance(v, n.ndarray):
        v = v[()]
    if isinstance(v, (bool, n.bool_)):
        return "CBool"
    if isinstance(v, (int, n.integer)):
        return "CInt"
    if isinstance(v, (float, n.floating)):
        return "CReal"
    if isinstance(v, (complex, n.complexfloating)):
        return "CComplex"
    return "COther:" + type(v).__name__


def reps():
    """Representative real values of each class (arrays have 4 or 1 elements: 2x2 matrices / cols=2)."""
    n = np()
    U = UArr()
    return {
        "CNone": [None],
        "CBool": [True, False, n.True_, n.False_],
        "CInt": [3, -2, 1, 2, 0, n.int64(5), n.int64(-3), n.int32(2)],
        "CReal": [2.5, -1.5, 0.5, -0.5, 2.0, 1.0, n.float64(2.5), n.float64(-1.5), n.float64(0.5), n.float64(2.0),
                  n.float32(-2.5), n.array(1.5), n.array(-2.5)],
        "CComplex": [1 + 2j, -1 - 1j, n.complex128(1 - 1j), n.complex64(2j), n.array(1j)],
        "CArr:true": [n.array([1., 2., 3., 4.]), n.array([-1.5, 2., -3., 0.5]), n.arange(1, 5),
                      n.array([-1, 2, -3, 4]), n.array([2.5]), n.array([-2])],
        "CArr:false": [n.array([1j, 2., 3., 4. - 1j]), n.array([1 + 1j])],
        "CUser:y": [U([1., 2., 3., 4.], "y"), U([-1.5, 2., -3., 0.5], "y"), U([1j, 2., 3., 4.], "y"),
                    U([2.0], "y")],
        "CUser:z": [U([1., -2., 3., 4.], "z")],
    }


def cls_coq(c):
    if c.startswith("CArr:"):
        return "(CArr %s)" % c[5:]
    if c.startswith("CUser:"):
        return '(CUser "%s")' % c[6:]
    return c


def kind_str(k):
    """Canonical string of a real SymbolKind (or None)."""
    if k is None:
        return "None"
    n = type(k).__name__
    if n == "Boolean":
        return "KBool"
    if n == "Integer":
        return "KInt"
    if n == "Scalar":
        return "KScalar:%s" % ("true" if k.is_real_valued else "false")
    if n == "Array":
        return "KArray:%s" % ("true" if k.is_real_valued else "false")
    if n == "UserType":
        return "KUser:%s" % k.identifier
    return "K?:" + n


def kind_coq(s):
    if s == "None":
        return "None"
    return "(Some %s)" % kind_coq1(s)


def kind_coq1(s):
    if s in ("KBool", "KInt"):
        return s
    a, b = s.split(":", 1)
    if a in ("KScalar", "KArray"):
        return "(%s %s)" % (a, b)
    if a == "KUser":
        return '(KUser "%s")' % b
    raise ValueError(s)


def kind_real(s):
    from dagrt.data import Array, Boolean, Integer, Scalar, UserType
    if s == "None":
        return None
    if s == "KBool":
        return Boolean()
    if s == "KInt":
        return Integer()
    a, b = s.split(":", 1)
    if a == "KScalar":
        return Scalar(b == "true")
    if a == "KArray":
        return Array(b == "true")
    return UserType(b)


def has_kind(c, k):
    """Does a value of class c inhabit kind k (strings)?  Independent re-statement of the property."""
    if k == "None":
        return False
    if k == "KBool":
        return c == "CBool"
    if k == "KInt":
        return c == "CInt"
    a, b = k.split(":", 1)
    if a == "KScalar":
        return c in ("CInt", "CReal") or (c == "CComplex" and b == "false")
    if a == "KArray":
        return c == "CArr:true" or (c == "CArr:false" and b == "false")
    if a == "KUser":
        return c == "CUser:" + b
    return False


def classes_of_kind(k):
    if k == "KBool":
        return ["CBool"]
    if k == "KInt":
        return ["CInt"]
    a, b = k.split(":", 1)
    if a == "KScalar":
        return ["CInt", "CReal"] + ([] if b == "true" else ["CComplex"])
    if a == "KArray":
        return ["CArr:true"] + ([] if b == "true" else ["CArr:false"])
    return ["CUser:" + b]


# ====================================================================== programs: tuples <-> pymbolic/dagrt <-> Coq
#
# expr:  ("const", cls, v) | ("var", x) | ("sum", [e]) | ("prod", [e]) | ("quot", a, b) | ("pow", a, b)
#        | ("cmp", op, a, b) | ("and", [e]) | ("or", [e]) | ("not", a) | ("min", [e]) | ("max", [e])
#        | ("sub", a, i) | ("call", f, [args], [kwnames])      (the last len(kwnames) args are keyword args)
# stmt:  ("assign", x, sub|None, rhs, [[i, lo, hi]]) | ("call", [xs], f, [args], [kwnames]) | ("nop",)
# case:  {"phases": [[name, [stmt]]], "forced": bool, "funcs": {name: spec}, "order": [[idx]] (stored order)}

ORDERED = ("<", "<=", ">", ">=")

USER_FUNCS = {
    "<func>f": ("rhs", "y", ["y"], ["y"]),
    "<func>g": ("rhs", "z", ["y", "z"], ["u", "v"]),
    "<func>ki": ("fixed", ["n"], ["KInt"]),
    "<func>kb": ("fixed", ["x"], ["KBool"]),
    "<func>k2": ("fixed", ["x"], ["KScalar:true", "KArray:true"]),
}


def _tup(x):
    if isinstance(x, list):
        return tuple(_tup(y) for y in x)
    return x


def _const_value(e):
    v = e[2]
    if e[1] == "CComplex":
        return complex(v[0], v[1])
    if e[1] == "CBool":
        return bool(v)
    if e[1] == "CInt":
        return int(v)
    return float(v)


def to_pym(e):
    import pymbolic.primitives as p
    k = e[0]
    if k == "const":
        return _const_value(e)
    if k == "var":
        return p.Variable(e[1])
    if k == "sum":
        return p.Sum(tuple(to_pym(c) for c in e[1]))
    if k == "prod":
        return p.Product(tuple(to_pym(c) for c in e[1]))
    if k == "quot":
        return p.Quotient(to_pym(e[1]), to_pym(e[2]))
    if k == "pow":
        return p.Power(to_pym(e[1]), to_pym(e[2]))
    if k == "cmp":
        return p.Comparison(to_pym(e[2]), e[1], to_pym(e[3]))
    if k == "and":
        return p.LogicalAnd(tuple(to_pym(c) for c in e[1]))
    if k == "or":
        return p.LogicalOr(tuple(to_pym(c) for c in e[1]))
    if k == "not":
        return p.LogicalNot(to_pym(e[1]))
    if k == "min":
        return p.Min(tuple(to_pym(c) for c in e[1]))
    if k == "max":
        return p.Max(tuple(to_pym(c) for c in e[1]))
    if k == "sub":
        return p.Subscript(to_pym(e[1]), to_pym(e[2]))
    if k == "call":
        args = [to_pym(a) for a in e[2]]
        nkw = len(e[3])
        if nkw == 0:
            return p.Call(p.Variable(e[1]), tuple(args))
        from constantdict import constantdict
        return p.CallWithKwargs(p.Variable(e[1]), tuple(args[:len(args) - nkw]),
                                constantdict(zip(e[3], args[len(args) - nkw:])))
    raise ValueError(e)


def from_pym(x):
    """Inverse of to_pym on what statements store (raises ValueError outside the modelled language)."""
    import pymbolic.primitives as p
    n = np()
    if isinstance(x, (bool, n.bool_)):
        return ("const", "CBool", bool(x))
    if isinstance(x, (int, n.integer)):
        return ("const", "CInt", int(x))
    if isinstance(x, (float, n.floating)):
        return ("const", "CReal", float(x))
    if isinstance(x, (complex, n.complexfloating)):
        return ("const", "CComplex", (float(x.real), float(x.imag)))
    if isinstance(x, p.Variable):
        return ("var", x.name)
    if isinstance(x, p.Sum):
        return ("sum", tuple(from_pym(c) for c in x.children))
    if isinstance(x, p.Product):
        return ("prod", tuple(from_pym(c) for c in x.children))
    if type(x) is p.Quotient:
        return ("quot", from_pym(x.numerator), from_pym(x.denominator))
    if isinstance(x, p.Power):
        return ("pow", from_pym(x.base), from_pym(x.exponent))
    if isinstance(x, p.Comparison):
        return ("cmp", x.operator, from_pym(x.left), from_pym(x.right))
    if isinstance(x, p.LogicalAnd):
        return ("and", tuple(from_pym(c) for c in x.children))
    if isinstance(x, p.LogicalOr):
        return ("or", tuple(from_pym(c) for c in x.children))
    if isinstance(x, p.LogicalNot):
        return ("not", from_pym(x.child))
    if isinstance(x, p.Min):
        return ("min", tuple(from_pym(c) for c in x.children))
    if isinstance(x, p.Max):
        return ("max", tuple(from_pym(c) for c in x.children))
    if isinstance(x, p.Subscript):
        idx = x.index
        if isinstance(idx, tuple):
            if len(idx) != 1:
                raise ValueError("multi-index subscript")
            idx = idx[0]
        return ("sub", from_pym(x.aggregate), from_pym(idx))
    if isinstance(x, p.CallWithKwargs):
        if not isinstance(x.function, p.Variable):
            raise ValueError("call of a non-variable")
        names = list(x.kw_parameters)
        return ("call", x.function.name,
                tuple(from_pym(a) for a in x.parameters) + tuple(from_pym(x.kw_parameters[k]) for k in names),
                tuple(names))
    if isinstance(x, p.Call):
        if not isinstance(x.function, p.Variable):
            raise ValueError("call of a non-variable")
        return ("call", x.function.name, tuple(from_pym(a) for a in x.parameters), ())
    raise ValueError("outside the modelled expression language: %r" % (x,))


def coq_str(s):
    return '"' + s.replace('"', '""') + '"'


def coq_list(xs):
    return "[" + "; ".join(xs) + "]"


def expr_coq(e):
    k = e[0]
    if k == "const":
        return "(EConst %s)" % e[1]
    if k == "var":
        return "(EVar %s)" % coq_str(e[1])
    if k in ("sum", "prod", "and", "or", "min", "max"):
        c = {"sum": "ESum", "prod": "EProd", "and": "EAnd", "or": "EOr", "min": "EMin", "max": "EMax"}[k]
        return "(%s %s)" % (c, coq_list(expr_coq(x) for x in e[1]))
    if k == "quot":
        return "(EQuot %s %s)" % (expr_coq(e[1]), expr_coq(e[2]))
    if k == "pow":
        return "(EPow %s %s)" % (expr_coq(e[1]), expr_coq(e[2]))
    if k == "cmp":
        return "(ECmp %s %s %s)" % ("true" if e[1] in ORDERED else "false", expr_coq(e[2]), expr_coq(e[3]))
    if k == "not":
        return "(ENot %s)" % expr_coq(e[1])
    if k == "sub":
        return "(ESub %s %s)" % (expr_coq(e[1]), expr_coq(e[2]))
    if k == "call":
        return "(ECall %s %s %s)" % (coq_str(e[1]), coq_list(expr_coq(x) for x in e[2]),
                                     coq_list(coq_str(n) for n in e[3]))
    raise ValueError(e)


def stmt_coq(s):
    if s[0] == "assign":
        return "(SAssign %s %s %s %s)" % (coq_str(s[1]), "true" if s[2] is not None else "false",
                                          expr_coq(s[3]), coq_list(coq_str(l[0]) for l in s[4]))
    if s[0] == "call":
        return "(SCall %s %s %s %s)" % (coq_list(coq_str(x) for x in s[1]), coq_str(s[2]),
                                        coq_list(expr_coq(x) for x in s[3]), coq_list(coq_str(n) for n in s[4]))
    return "SOther"


def stmts_coq(ss):
    """Coq list of statements; the fixed prefix of the exhaustive stream is a definition of the header."""
    ss = tuple(ss)
    n = len(PREFIX)
    if len(ss) >= n and ss[:n] == PREFIX:
        return "(pfx_ ++ %s)" % coq_list(stmt_coq(s) for s in ss[n:])
    if len(ss) > n and ss[-n:] == PREFIX:
        return "(%s ++ pfx_)" % coq_list(stmt_coq(s) for s in ss[:-n])
    return coq_list(stmt_coq(s) for s in ss)


def program_coq(phases):
    return coq_list("(%s, %s)" % (coq_str(n), stmts_coq(ss)) for n, ss in phases)


def funcs_coq(funcs):
    rows = []
    for name in sorted(funcs):
        spec = funcs[name]
        if spec[0] == "rhs":
            rows.append("(%s, FRhs %s %s %s)" % (coq_str(name), coq_str(spec[1]),
                                                 coq_list(coq_str(x) for x in spec[2]),
                                                 coq_list(coq_str(x) for x in spec[3])))
        else:
            rows.append("(%s, FFixed %s %s)" % (coq_str(name), coq_list(coq_str(x) for x in spec[1]),
                                                coq_list(kind_coq1(k) for k in spec[2])))
    return coq_list(rows)


def make_registry(funcs):
    from dagrt.function_registry import (FixedResultKindsFunction, base_function_registry, register_ode_rhs)
    reg = base_function_registry
    for name in sorted(funcs):
        spec = funcs[name]
        if spec[0] == "rhs":
            reg = register_ode_rhs(reg, spec[1], identifier=name, input_type_ids=tuple(spec[2]),
                                   input_names=tuple(spec[3]))
        else:
            reg = reg.register(FixedResultKindsFunction(
                identifier=name, arg_names=tuple(spec[1]), default_dict={},
                result_names=tuple("r%d" % i for i in range(len(spec[2]))),
                result_kinds=tuple(kind_real(k) for k in spec[2])))
    return reg


def make_function_map(funcs):
    """Runtime implementations of the user functions: they honour their registered result kinds
    (the assumption the class semantics makes about user code)."""
    n = np()
    U = UArr()
    out = {}

    def value_of(k, salt):
        if k == "KBool":
            return bool(salt % 2)
        if k == "KInt":
            return 2 + salt % 2
        a, b = k.split(":", 1)
        if a == "KScalar":
            return [2.5, n.float64(-1.5), 3][salt % 3] if b == "true" else [1 + 2j, 2.5, n.complex128(-1j)][salt % 3]
        if a == "KArray":
            return n.array([1., -2., 3., 4.]) if b == "true" or salt % 2 else n.array([1j, 2., 3., 4.])
        return U([1., -2., 0.5, 4.], b)

    for name, spec in funcs.items():
        if spec[0] == "rhs":
            def f(*a, _out=spec[1], **kw):
                return U(n.array([0.5, -1., 2., 1.5]), _out)
        else:
            def f(*a, _ks=spec[2], _c=[0], **kw):
                _c[0] += 1
                vals = tuple(value_of(k, _c[0]) for k in _ks)
                return vals[0] if len(vals) == 1 else vals
        out[name] = f
    return out


class Unrepresentable(Exception):
    pass


def build_real(case):
    """Real statements per phase in STORED order + the canonical (stored, read-back) program.
    Raises Unrepresentable when what a statement stores is outside the modelled language."""
    from dagrt.language import Assign, AssignFunctionCall, Nop
    from pymbolic import flatten
    real_phases = []
    stored = []
    for pi, (pname, stmts) in enumerate(case["phases"]):
        rs = []
        for si, s in enumerate(stmts):
            sid = "%s_s%d" % (pname, si)
            deps = ["%s_s%d" % (pname, si - 1)] if si > 0 else []
            if s[0] == "assign":
                sub = () if s[2] is None else (to_pym(s[2]),)
                loops = [(l[0], to_pym(l[1]), to_pym(l[2])) for l in s[4]]
                st = Assign(s[1], sub, to_pym(s[3]), loops=loops, id=sid, depends_on=deps)
                try:
                    rhs = from_pym(st.rhs)
                except ValueError as ex:
                    raise Unrepresentable(str(ex))
                if flatten(st.rhs) != st.rhs:
                    raise Unrepresentable("flatten is not the identity on the stored expression")
                can = ("assign", s[1], s[2], rhs, s[4])
            elif s[0] == "call":
                args = [to_pym(a) for a in s[3]]
                nkw = len(s[4])
                st = AssignFunctionCall(tuple(s[1]), s[2], tuple(args[:len(args) - nkw]),
                                        dict(zip(s[4], args[len(args) - nkw:])), id=sid, depends_on=deps)
                can = s
            else:
                st = Nop(id=sid, depends_on=deps)
                can = s
            rs.append((st, can))
        order = case.get("order", [None] * len(case["phases"]))[pi] or list(range(len(rs)))
        real_phases.append((pname, [r[0] for r in rs], [rs[i][0] for i in order]))
        stored.append((pname, tuple(rs[i][1] for i in order)))
    return real_phases, stored


def loop_vars(stmts):
    out = []
    for s in stmts:
        if s[0] == "assign":
            for l in s[4]:
                if l[0] not in out:
                    out.append(l[0])
    return out


def forced_of(case, stored):
    if not case.get("forced"):
        return []
    return [(pn, v, "KInt") for pn, ss in stored for v in loop_vars(ss)]


def run_infer(case):
    """The real kind inference on the case.  Returns (result, stored_program, forced)."""
    from dagrt.data import SymbolKindFinder
    real_phases, stored = build_real(case)
    forced = forced_of(case, stored)
    reg = make_registry(case.get("funcs", {}))
    buf = io.StringIO()
    import signal

    class Timeout(Exception):
        pass

    def on_alarm(signum, frame):
        raise Timeout()
    old_handler = signal.signal(signal.SIGALRM, on_alarm)
    signal.setitimer(signal.ITIMER_REAL, INFER_TIMEOUT if _timeouts[0] < 8 else INFER_TIMEOUT / 5)
    try:
        with contextlib.redirect_stdout(buf):
            t = SymbolKindFinder(reg)([p[0] for p in real_phases], [p[2] for p in real_phases],
                                      forced_kinds=[(a, b, kind_real(c)) for a, b, c in forced] or None)
    except Timeout:
        _timeouts[0] += 1
        # the outer `while True` does not terminate (kinds oscillate); the model answers OutOfFuel
        return ("exc", "OutOfFuel"), stored, forced, None
    except Exception as ex:  # noqa: BLE001 - the class is the observable
        return ("exc", type(ex).__name__), stored, forced, None
    finally:
        signal.setitimer(signal.ITIMER_REAL, 0)
        signal.signal(signal.SIGALRM, old_handler)
    import re
    conf = re.findall(r"^trying to derive 'kind' for '(.*?)' in '(.*?)': ", buf.getvalue(), re.M)
    nconf = len(conf)
    t.c09_conflicts = conf
    g = [(k, kind_str(v)) for k, v in t.global_table.items()]
    pp = [(ph, [(k, kind_str(v)) for k, v in tb.items()]) for ph, tb in t.per_phase_table.items()]
    return ("ok", g, pp, nconf), stored, forced, t


_timeouts = [0]
INFER_TIMEOUT = 1.5      # seconds; real inference of these small programs takes milliseconds

EXN = {"OutOfFuel", "UnableToInferKind", "ValueError", "AssertionError", "AttributeError", "TypeError", "RuntimeError",
       "FunctionNotFound"}


def tbl_coq(t):
    return coq_list("(%s, %s)" % (coq_str(k), kind_coq(v)) for k, v in t)


def infer_case_term(case, res, stored, forced):
    if res[0] == "ok":
        want = "(Ok (%s, %s, %d))" % (tbl_coq(res[1]), coq_list("(%s, %s)" % (coq_str(p), tbl_coq(t))
                                                              for p, t in res[2]), res[3])
    elif res[1] in EXN:
        want = "(Err %s)" % res[1]
    else:
        want = "(Ok ([], [], 0))"     # an exception class the model does not have: never agrees (tables always hold <t>)
    return "(%s, %s, %s, %s)" % (program_coq(stored), funcs_coq(case.get("funcs", {})),
                                 coq_list("(%s, %s, %s)" % (coq_str(a), coq_str(b), kind_coq1(c))
                                          for a, b, c in forced), want)


HEADER = """From Coq Require Import List String Bool Arith.
Import ListNotations.
Open Scope string_scope.
Open Scope list_scope.
From Dagrt Require Import GenC09 Kinds.
Definition cfg0 : cfg := mkCfg c09_power_returns_kind c09_new_entry_marks c09_isnan_any c09_conflict_raises
  c09_finder_restarts c09_matrix_need_arrays c09_state_exact c09_state_prefixes.
Fixpoint tbl_eqb (a b : tbl) : bool :=
  match a, b with
  | [], [] => true
  | (x, k) :: a', (y, l) :: b' => String.eqb x y && okind_eqb k l && tbl_eqb a' b'
  | _, _ => false
  end.
Fixpoint ptbl_eqb (a b : list (string * tbl)) : bool :=
  match a, b with
  | [], [] => true
  | (x, k) :: a', (y, l) :: b' => String.eqb x y && tbl_eqb k l && ptbl_eqb a' b'
  | _, _ => false
  end.
Definition pfx_ : list stmt := %PFX%.
Definition run (D : program) (regx : registry) (forced : list (string * string * kind)) :=
  infer cfg0 (builtin_reg ++ regx) (outer_fuel D) (inner_fuel D) D forced.
Definition chk (c : program * registry * list (string * string * kind) * res (tbl * list (string * tbl) * nat)) : bool :=
  match c with
  | (D, regx, forced, want) =>
      match run D regx forced, want with
      | Ok T, Ok (g, p, n) => tbl_eqb (sg T) g && ptbl_eqb (sp T) p && Nat.eqb (sconf T) n
      | Err e, Err e' => exn_eqb e e'
      | _, _ => false
      end
  end.
Definition show (D : program) (regx : registry) (forced : list (string * string * kind)) :=
  match run D regx forced with
  | Ok T => Ok (sg T, sp T, sconf T, strict cfg0 (builtin_reg ++ regx) D T)
  | Err e => Err e
  end.
(* tie (2): the class of the real result is one the class semantics allows *)
Definition chk_eval (c : registry * cstore * expr * vclass) : bool :=
  match c with
  | (regx, st, e, cl) => existsb (vclass_eqb cl) (ceval cfg0 (builtin_reg ++ regx) st e)
  end.
(* tie (3): the table of built-ins read off function_registry.py *)
Definition sig_name (s : fsig) : string :=
  match s with
  | FNorm => "FNorm" | FAbs => "FAbs" | FDot => "FDot" | FLen => "FLen" | FIsNan => "FIsNan" | FArray => "FArray"
  | FMatMul => "FMatMul" | FTranspose => "FTranspose" | FLinSolve => "FLinSolve" | FSvd => "FSvd" | FPrint => "FPrint"
  | FRhs _ _ _ => "FRhs" | FFixed _ _ => "FFixed"
  end.
Fixpoint facts_eqb (a : registry) (b : list (string * (list string * nat))) (c : list (string * string)) : bool :=
  match a, b, c with
  | [], [], [] => true
  | (n, s) :: a', (m, (args, nres)) :: b', (m', sn) :: c' =>
      String.eqb n m && String.eqb n m' && String.eqb (sig_name s) sn && Nat.eqb (sig_nres s) nres
      && (if list_eq_dec string_dec (sig_args s) args then true else false) && facts_eqb a' b' c'
  | _, _, _ => false
  end.
Definition chk_facts (_ : nat) : bool := facts_eqb builtin_reg c09_builtin_facts c09_builtin_sigs.
"""


def intern_strings(header, terms):
    """Coq type-checks long string literals slowly: name every distinct literal once in the header."""
    import re
    lit = re.compile(r'"(?:[^"]|"")*"')
    names = {}

    def sub(m):
        return names.setdefault(m.group(0), "s%d_" % len(names))
    terms = [lit.sub(sub, t) for t in terms]
    defs = "".join("Definition %s : string := %s.\n" % (n, l) for l, n in names.items())
    return header + defs, terms


# ====================================================================== oracle (a): every assigned variable has a kind

def table_lookup(t, phase, name):
    """(found, kind) the way KindInferenceMapper.map_variable looks a name up."""
    if name in t.global_table:
        return True, t.global_table[name]
    tb = t.per_phase_table.get(phase, {})
    if name in tb:
        return True, tb[name]
    return False, None


def oracle_assigned(stored, t):
    for ph, stmts in stored:
        for si, s in enumerate(stmts):
            xs = [s[1]] if s[0] == "assign" and s[2] is None else (list(s[1]) if s[0] == "call" else [])
            for x in xs:
                found, k = table_lookup(t, ph, x)
                if not found or k is None:
                    return {"kind": "no_kind", "phase": ph, "stmt": si, "var": x,
                            "table_entry": "missing" if not found else "None"}
    return None


# ====================================================================== oracle (b): run in the real interpreter

class RecCtx(dict):
    """The interpreter's variable store, recording the class of everything stored."""

    def __init__(self):
        super().__init__()
        self.log = []
        self.now = None
        self.undefined = set()      # statements that read a name holding no value (it evaluates to None)

    def __contains__(self, k):
        r = dict.__contains__(self, k)
        if not r:
            self.undefined.add(self.now)
        return r

    def __setitem__(self, k, v):
        self.log.append((self.now, k, classify(v), self.now in self.undefined))
        dict.__setitem__(self, k, v)


def input_choices(kind, variant):
    """A real value inhabiting a kind (strings), varied with `variant`."""
    r = reps()
    cs = classes_of_kind(kind)
    c = cs[variant % len(cs)]
    vals = [v for v in r.get(c, []) if not (c.startswith("CArr") and getattr(v, "shape", (4,)) != (4,))
            and not (c.startswith("CUser") and v.shape != (4,))]
    if c.startswith("CUser") and not vals:
        vals = [UArr()([1., -2., 3., 0.5], c[6:])]
    return vals[(variant // len(cs)) % len(vals)]


def run_program(case, t, variant=0, steps=None):
    """Run the case in the real NumpyInterpreter.  Returns the first store whose class does not inhabit the
    kind the table `t` gives the variable (or None), and the number of stores checked."""
    from dagrt.exec_numpy import NumpyInterpreter
    from dagrt.language import DAGCode, ExecutionPhase
    import copy
    real_phases, stored = build_real(case)
    names = [p[0] for p in real_phases]
    phases = {}
    for i, (pn, exec_order, _stored_order) in enumerate(real_phases):
        phases[pn] = ExecutionPhase(pn, names[(i + 1) % len(names)], exec_order)
    code = DAGCode(phases, names[0])
    interp = NumpyInterpreter(code, make_function_map(case.get("funcs", {})))
    ctx = RecCtx()
    interp.context = ctx
    interp.eval_mapper.context = ctx
    # inputs: every persistent variable of the table gets a value of its kind
    for k, v in t.global_table.items():
        if v is None or not (k in ("<t>", "<dt>") or k.startswith("<state>") or k.startswith("<p>")):
            continue
        val = input_choices(kind_str(v), variant + sum(map(ord, k)))
        dict.__setitem__(ctx, k, copy.copy(val) if hasattr(val, "shape") else val)
    checked = 0
    orig = {}

    def wrap(name):
        f = getattr(interp, name)

        def g(stmt, _f=f):
            ctx.now = stmt.id
            return _f(stmt)
        return g
    for name in ("exec_Assign", "exec_AssignFunctionCall", "exec_Nop"):
        orig[name] = getattr(interp, name)
        setattr(interp, name, wrap(name))
    nsteps = steps if steps is not None else 2 * len(names)
    for _ in range(nsteps):
        phase = interp.next_phase
        ctx.log.clear()
        ctx.undefined.clear()
        try:
            with contextlib.redirect_stdout(io.StringIO()):
                for _evt in interp.run_single_step():
                    pass
        except Exception:  # noqa: BLE001 - a run-time error ends the step; what was stored before still counts
            pass
        for sid, k, c, undef in ctx.log:
            if undef:
                # the statement read a name that holds no value: this execution is outside the property
                # (Kinds.creach only schedules `defined` statements); what it stored before still counted
                return None, checked
            checked += 1
            found, kind = table_lookup(t, phase, k)
            ks = kind_str(kind) if found else "missing"
            if not found or not has_kind(c, ks):
                return {"kind": "wrong_class", "phase": phase, "stmt": sid, "var": k, "class": c,
                        "table_kind": ks, "variant": variant}, checked
    return None, checked


# ====================================================================== known-finding classes (narrow matchers)

def _real_kind(t, reg, phase, e):
    """Kind the real mapper gives expression e under the final table (string) or 'exc:<class>'."""
    from dagrt.data import KindInferenceMapper
    kim = KindInferenceMapper(t.global_table, t.per_phase_table.get(phase, {}), reg, check=False)
    try:
        return kind_str(kim(to_pym(e)))
    except Exception as ex:  # noqa: BLE001
        return "exc:" + type(ex).__name__


def subexprs(e):
    yield e
    k = e[0]
    if k in ("sum", "prod", "and", "or", "min", "max"):
        for c in e[1]:
            yield from subexprs(c)
    elif k in ("quot", "pow", "sub"):
        yield from subexprs(e[1])
        yield from subexprs(e[2])
    elif k == "cmp":
        yield from subexprs(e[2])
        yield from subexprs(e[3])
    elif k == "not":
        yield from subexprs(e[1])
    elif k == "call":
        for c in e[2]:
            yield from subexprs(c)


SCALARK = ("KInt", "KScalar:true", "KScalar:false")


def classify_failure(case, stored, t, o):
    """Name of the known-finding class a (shrunk) failing case belongs to, or None."""
    reg = make_registry(case.get("funcs", {}))
    if o["kind"] != "wrong_class":
        return None
    var, ph = o["var"], o["phase"]
    # statements that assign the variable (same phase, or any phase for persistent names)
    assigning = []
    for pn, stmts in stored:
        for s in stmts:
            if s[0] == "assign" and s[2] is None and s[1] == var and (pn == ph or var in t.global_table):
                assigning.append((pn, s))
            if s[0] == "call" and var in s[1] and (pn == ph or var in t.global_table):
                assigning.append((pn, s))
    kinds = set()
    exprs = []
    for pn, s in assigning:
        if s[0] == "assign":
            kinds.add(_real_kind(t, reg, pn, s[3]))
            exprs.append((pn, s[3]))
            if any(l[0] == var for l in s[4]):
                kinds.add("KInt")
        else:
            kinds.add("call:" + s[2])
            exprs += [(pn, a) for a in s[3]]
    for pn, stmts in stored:
        for s in stmts:
            if s[0] == "assign" and any(l[0] == var for l in s[4]) and (pn == ph or var in t.global_table):
                kinds.add("KInt")
    if len(kinds) > 1 or any(v == var for v, _p in getattr(t, "c09_conflicts", ())):
        return "mixed_kind_assignments"
    for pn, e in exprs:
        for sube in subexprs(e):
            if sube[0] == "pow" and not (sube[2][0] == "const" and sube[2][1] == "CInt") \
                    and o["class"] in ("CComplex", "CArr:false"):
                return "power_fractional_exponent"
            if sube[0] == "quot" and _real_kind(t, reg, pn, sube[1]) == "KInt" \
                    and _real_kind(t, reg, pn, sube[2]) == "KInt":
                return "integer_quotient"
    for pn, e in exprs:
        for sube in subexprs(e):
            if sube[0] == "cmp" and not (_real_kind(t, reg, pn, sube[2]) in SCALARK
                                         and _real_kind(t, reg, pn, sube[3]) in SCALARK):
                return "unchecked_operand_kinds"
            if sube[0] in ("min", "max") and not all(_real_kind(t, reg, pn, c) in ("KInt", "KScalar:true")
                                                     for c in sube[1]):
                return "unchecked_operand_kinds"
            if sube[0] == "sub" and _real_kind(t, reg, pn, sube[2]) not in SCALARK:
                return "unchecked_operand_kinds"
            if sube[0] == "const" and sube[1] == "CBool":
                return "unchecked_operand_kinds"
            if sube[0] == "sum" and any(_real_kind(t, reg, pn, c).startswith("exc:") for c in sube[1]):
                return "unchecked_operand_kinds"
            if sube[0] == "call" and any(_real_kind(t, reg, pn, c).startswith("exc:") for c in sube[2]):
                return "unchecked_operand_kinds"
            if sube[0] == "call" and not _call_check_ok(t, reg, pn, sube):
                return "unchecked_operand_kinds"
    for pn, s in assigning:
        if s[0] == "call" and (any(_real_kind(t, reg, pn, c).startswith("exc:") for c in s[3])
                               or not _call_check_ok(t, reg, pn, ("call", s[2], s[3], s[4]))):
            return "unchecked_operand_kinds"
    # classes of defects that have a repair (never suppressed: they only separate the reports)
    for pn, e in exprs:
        if any(sube[0] == "call" and sube[1] == "<builtin>isnan" and o["class"] != "CBool" for sube in subexprs(e)):
            return "isnan_elementwise"
    for pn, e in exprs:
        if any(sube[0] == "pow" and _real_kind(t, reg, pn, sube) == "None" for sube in subexprs(e)):
            return "power_kind_none"
    if len(kinds) == 1 and o.get("table_kind") not in kinds and not any(k.startswith("call:") for k in kinds):
        return "stale_first_kind"
    return None


def _call_check_ok(t, reg, phase, e):
    """Does the function's own check=True argument test accept the argument kinds?"""
    from dagrt.data import KindInferenceMapper
    kim = KindInferenceMapper(t.global_table, t.per_phase_table.get(phase, {}), reg, check=False)
    try:
        func = reg[e[1]]
        args = [kim(to_pym(a)) for a in e[2]]
        nkw = len(e[3])
        d = dict(enumerate(args[:len(args) - nkw]))
        d.update(zip(e[3], args[len(args) - nkw:]))
        func.get_result_kinds(d, True)
        return True
    except Exception:  # noqa: BLE001
        return False


def kf_text(f):
    line = f.get("line", "")
    pre = "KNOWN-FINDING: property=%s " % PID
    return line[len(pre):] if line.startswith(pre) else f.get("what_fails", line)


def all_known():
    out = list(common.known_findings(PID))
    path = os.path.join(common.VERIF, "known_findings.d", PID + ".json")
    if os.path.exists(path):
        for f in json.load(open(path)):
            if f.get("status") == "open" and f not in out:
                out.append(f)
    return out


# ====================================================================== generators

class Gen:
    def __init__(self, rng):
        self.rng = rng

    def const(self, cls):
        r = self.rng
        if cls == "CInt":
            return ("const", "CInt", r.choice([1, 2, 3, 2]))
        if cls == "CReal":
            return ("const", "CReal", r.choice([0.5, 1.5, 2.5, -0.5]))
        if cls == "CComplex":
            return ("const", "CComplex", r.choice([(0.0, 1.0), (1.0, -2.0)]))
        return ("const", "CBool", r.choice([True, False]))

    def pick(self, env, kinds):
        c = [x for x, k in env.items() if k in kinds]
        return ("var", self.rng.choice(c)) if c else None

    def expr(self, env, kind, d, noise=0.03):
        """An expression whose intended kind is `kind` in environment env (name -> kind string)."""
        r = self.rng
        if r.random() < noise:
            kind = r.choice(["KScalar:true", "KScalar:false", "KBool", "KArray:true", "KUser:y", "KInt"])
        e = self._expr(env, kind, d, noise)
        return e

    def _expr(self, env, kind, d, noise):
        r = self.rng
        rec = lambda k, dd=d - 1: self.expr(env, k, dd, noise)   # noqa: E731
        leaf = d <= 0 or r.random() < 0.25
        if kind == "KInt":
            v = self.pick(env, ["KInt"])
            if v and (leaf or r.random() < 0.6):
                return v
            if "<func>ki" in env.get("__funcs__", ()) and r.random() < 0.5:
                return ("call", "<func>ki", (rec("KScalar:true", 0),), ())
            if v:
                return r.choice([("sum", (v, v)), ("prod", (v, v))])
            return self.const("CInt")
        if kind == "KScalar:true":
            if leaf:
                return r.choice([self.const("CInt"), self.const("CReal"), ("var", "<t>"), ("var", "<dt>"),
                                 self.pick(env, ["KScalar:true"]) or self.const("CReal"),
                                 self.pick(env, ["KInt", "KScalar:true"]) or self.const("CInt")])
            c = r.randrange(14)
            if c == 0:
                return ("sum", tuple(rec("KScalar:true") for _ in range(r.randint(2, 3))))
            if c == 1:
                return ("prod", tuple(rec("KScalar:true") for _ in range(r.randint(2, 3))))
            if c == 2:
                return ("quot", rec("KScalar:true"), rec("KScalar:true"))
            if c == 3:
                return ("pow", rec("KScalar:true"), ("const", "CInt", r.choice([2, 3, 2, -1])))
            if c == 4:
                return ("pow", rec("KScalar:true"), r.choice([self.const("CReal"), rec("KScalar:true", 0)]))
            if c == 5:
                return (r.choice(["min", "max"]), tuple(rec("KScalar:true") for _ in range(r.randint(1, 3))))
            if c == 6:
                a = self.pick(env, ["KArray:true"])
                if a:
                    return ("sub", a, r.choice([self.const("CInt"), self.pick(env, ["KInt"]) or self.const("CInt")]))
            if c == 7:
                a = self.pick(env, ["KArray:true", "KArray:false", "KUser:y", "KUser:z"])
                if a:
                    return ("call", "<builtin>" + r.choice(["norm_1", "norm_2", "norm_inf", "len"]), (a,), ())
            if c == 8:
                return ("call", "<builtin>elementwise_abs", (rec(r.choice(["KScalar:true", "KScalar:false"])),), ())
            if c == 9:
                return ("call", "<builtin>len", (rec("KScalar:true"),), r.choice([(), ("x",)]))
            if c == 10:
                v = self.pick(env, ["KInt"])
                if v:
                    return r.choice([("quot", v, rec("KScalar:true")), ("sum", (v, rec("KScalar:true"))),
                                     ("quot", v, v), ("pow", v, ("const", "CInt", 2))])
            return ("sum", (rec("KScalar:true"), rec("KScalar:true")))
        if kind == "KScalar:false":
            if leaf:
                return r.choice([self.const("CComplex"), self.pick(env, ["KScalar:false"]) or self.const("CComplex")])
            c = r.randrange(7)
            if c == 0:
                return ("sum", (rec("KScalar:false"), rec("KScalar:true")))
            if c == 1:
                return ("prod", (rec("KScalar:true"), rec("KScalar:false")))
            if c == 2:
                a = self.pick(env, ["KArray:true", "KArray:false", "KUser:y"])
                if a:
                    return ("call", "<builtin>dot_product", (a, a), ())
            if c == 3:
                a = self.pick(env, ["KArray:false"])
                if a:
                    return ("sub", a, self.const("CInt"))
            if c == 4:
                return ("quot", rec("KScalar:false"), rec("KScalar:true"))
            if c == 5:
                return ("pow", rec("KScalar:false"), ("const", "CInt", 2))
            return ("sum", (rec("KScalar:false"), rec("KScalar:false")))
        if kind == "KBool":
            if leaf:
                v = self.pick(env, ["KBool"])
                if v and r.random() < 0.5:
                    return v
                return ("cmp", r.choice(["<", ">", "<=", ">=", "==", "!="]), rec("KScalar:true", 0),
                        rec("KScalar:true", 0))
            c = r.randrange(7)
            if c == 0:
                return ("cmp", r.choice(["<", ">", "==", "!="]), rec("KScalar:true"), rec("KScalar:true"))
            if c == 1:
                return (r.choice(["and", "or"]), tuple(rec("KBool") for _ in range(r.randint(2, 3))))
            if c == 2:
                return ("not", rec("KBool"))
            if c == 3:
                return ("call", "<builtin>isnan", (rec(r.choice(["KScalar:true", "KScalar:true", "KArray:true",
                                                                  "KUser:y"])),), ())
            if c == 4 and "<func>kb" in env.get("__funcs__", ()):
                return ("call", "<func>kb", (rec("KScalar:true", 0),), ())
            if c == 5:
                return ("cmp", r.choice(["==", "!="]), rec("KScalar:false"), rec("KScalar:true"))
            return ("cmp", "<", rec("KScalar:true"), rec("KScalar:true"))
        if kind in ("KArray:true", "KArray:false"):
            real = kind.endswith("true")
            if leaf:
                v = self.pick(env, [kind])
                if v:
                    return v
                if real:
                    return ("call", "<builtin>array", (("const", "CInt", 4),), ())
                return ("prod", (self.const("CComplex"), ("call", "<builtin>array", (("const", "CInt", 4),), ())))
            c = r.randrange(9)
            sk = "KScalar:true" if real else r.choice(["KScalar:true", "KScalar:false"])
            if c == 0:
                return ("sum", (rec(kind), rec(sk)))
            if c == 1:
                return ("prod", (rec(sk), rec(kind)))
            if c == 2:
                return ("sum", (rec(kind), rec(kind)))
            if c == 3:
                return ("quot", rec(kind), rec(sk))
            if c == 4:
                return ("pow", rec(kind), ("const", "CInt", 2))
            if c == 5:
                two = ("const", "CInt", 2)
                return ("call", "<builtin>" + r.choice(["matmul", "linear_solve"]),
                        (rec(kind, 0), rec(kind, 0), two, two), r.choice([(), (), ("a_cols", "b_cols")]))
            if c == 6:
                return ("call", "<builtin>transpose", (rec(kind, 0), ("const", "CInt", 2)), ())
            if c == 7 and real:
                return ("call", "<builtin>elementwise_abs", (rec(r.choice(["KArray:true", "KArray:false"])),), ())
            if c == 8 and not real:
                return ("prod", (self.const("CComplex"), rec("KArray:true")))
            return ("sum", (rec(kind), rec(sk)))
        if kind.startswith("KUser:"):
            uid = kind[6:]
            sv = "<state>" + uid
            if leaf:
                return self.pick(env, [kind]) or ("var", sv)
            c = r.randrange(7)
            if c == 0:
                return ("sum", (rec(kind), rec(kind)))
            if c == 1:
                return ("prod", (rec("KScalar:true"), rec(kind)))
            if c == 2:
                return ("sum", (rec(kind), ("prod", (("var", "<dt>"), rec(kind)))))
            if c == 3 and uid == "y" and "<func>f" in env.get("__funcs__", ()):
                return ("call", "<func>f", (rec("KScalar:true", 0), rec("KUser:y", 0)), r.choice([(), ("y",)]))
            if c == 4 and uid == "z" and "<func>g" in env.get("__funcs__", ()):
                return ("call", "<func>g", (("var", "<t>"), rec("KUser:y", 0), rec("KUser:z", 0)),
                        r.choice([(), ("u", "v"), ("v",)]))
            if c == 5:
                return ("call", "<builtin>elementwise_abs", (rec(kind),), ())
            if c == 6:
                return ("quot", rec(kind), rec("KScalar:true"))
            return ("sum", (rec(kind), rec(kind)))
        raise ValueError(kind)

    def program(self, size):
        r = self.rng
        funcs = {k: USER_FUNCS[k] for k in USER_FUNCS if r.random() < 0.8}
        nph = r.choice([1, 1, 1, 2, 2, 3])
        genv = {}       # persistent variables (shared by all phases)
        phases = []
        orders = []
        varkind = {"<state>y": "KUser:y", "<state>z": "KUser:z", "<p>a": "KArray:true", "<p>c": "KScalar:false",
                   "<p>s": "KScalar:true", "<p>b": "KBool"}
        for pi in range(nph):
            env = dict(genv)
            env["__funcs__"] = tuple(funcs)
            stmts = []
            n = r.randint(1, size)
            for _ in range(n):
                c = r.random()
                if c < 0.08:
                    stmts.append(("nop",))
                    continue
                if c < 0.2:
                    # function-call statement
                    which = r.randrange(5)
                    if which == 0:
                        a = self.pick(env, ["KArray:true", "KArray:false"]) or ("call", "<builtin>array",
                                                                                (("const", "CInt", 4),), ())
                        xs = ["u%d" % pi, "sg%d" % pi, "vt%d" % pi][:r.choice([3, 3, 3, 2, 1])]
                        stmts.append(("call", tuple(xs), "<builtin>svd", (a, ("const", "CInt", 2)), ()))
                        if len(xs) == 3:
                            kk = env.get(a[1], "KArray:true") if a[0] == "var" else "KArray:true"
                            for x in xs:
                                env[x] = kk
                    elif which == 1 and "<func>f" in funcs:
                        stmts.append(("call", ("<state>y",), "<func>f", (("var", "<t>"), ("var", "<state>y")),
                                      r.choice([(), ("y",)])))
                        env["<state>y"] = genv["<state>y"] = "KUser:y"
                    elif which == 2:
                        stmts.append(("call", (), "<builtin>print", (self.expr(env, "KScalar:true", 1),), ()))
                    elif which == 3 and "<func>k2" in funcs:
                        stmts.append(("call", ("k2s", "k2a"), "<func>k2", (("var", "<t>"),), ()))
                        env["k2s"], env["k2a"] = "KScalar:true", "KArray:true"
                    else:
                        x = "ar%d" % r.randrange(2)
                        stmts.append(("call", (x,), "<builtin>array", (("const", "CInt", 4),), r.choice([(), ("n",)])))
                        env[x] = "KArray:true"
                    continue
                # assignment
                persistent = r.random() < 0.3
                if persistent:
                    x = r.choice(list(varkind))
                    kind = varkind[x]
                else:
                    x = "x%d" % r.randrange(5)
                    kind = env.get(x) if (x in env and r.random() < 0.85) else r.choice(
                        ["KScalar:true", "KScalar:true", "KScalar:false", "KBool", "KArray:true", "KArray:false",
                         "KUser:y", "KUser:z"])
                loops = []
                lenv = dict(env)
                if r.random() < 0.2:
                    for lv in r.sample(["i", "j"], r.choice([1, 1, 2])):
                        loops.append((lv, ("const", "CInt", r.choice([0, 1])), ("const", "CInt", r.choice([2, 3]))))
                        lenv[lv] = "KInt"
                sub = None
                if kind.startswith("KArray") and x in env and r.random() < 0.3:
                    sub = self.pick(lenv, ["KInt"]) or ("const", "CInt", 1)
                    rhs = self.expr(lenv, "KScalar:true" if kind.endswith("true") else "KScalar:false", 2)
                else:
                    rhs = self.expr(lenv, kind, r.randint(0, 3))
                stmts.append(("assign", x, sub, rhs, tuple(loops)))
                if sub is None:
                    env[x] = kind
                    if persistent:
                        genv[x] = kind
                for lv, _, _ in loops:
                    env.setdefault(lv, "KInt")
            phases.append(("ph%d" % pi, tuple(stmts)))
            idx = list(range(len(stmts)))
            mode = r.random()
            if mode < 0.45:
                pass
            elif mode < 0.75:
                idx.reverse()
            else:
                r.shuffle(idx)
            orders.append(idx)
        # persistent variables that are read but never assigned would make inference fail for a trivial
        # reason: give each an initialising assignment of its intended kind (most of the time)
        assigned = set()
        read = set()
        for _pn, ss in phases:
            for st in ss:
                if st[0] == "assign":
                    rd = {e[1] for e in subexprs(st[3]) if e[0] == "var"}
                    if st[2] is None and st[1] not in rd:      # x <- x + ... cannot bootstrap the kind of x
                        assigned.add(st[1])
                    read |= rd
                elif st[0] == "call":
                    assigned |= set(st[1])
                    for a in st[3]:
                        read |= {e[1] for e in subexprs(a) if e[0] == "var"}
        init = {
            "<state>y": ("call", ("<state>y",), "<func>f", (("var", "<t>"), ("var", "<state>y")), ()),
            "<state>z": ("call", ("<state>z",), "<func>g", (("var", "<t>"), ("var", "<state>y"), ("var", "<state>z")), ()),
            "<p>a": ("call", ("<p>a",), "<builtin>array", (("const", "CInt", 4),), ()),
            "<p>c": ("assign", "<p>c", None, ("prod", (("const", "CComplex", (0.0, 1.0)), ("var", "<t>"))), ()),
            "<p>s": ("assign", "<p>s", None, ("var", "<dt>"), ()),
            "<p>b": ("assign", "<p>b", None, ("cmp", ">", ("var", "<t>"), ("const", "CInt", 0)), ()),
        }
        extra = [init[v] for v in sorted(read - assigned) if v in init and r.random() < 0.9]
        if any(e[1] == ("<state>z",) for e in extra if e[0] == "call") and "<state>y" not in assigned \
                and init["<state>y"] not in extra:
            extra.insert(0, init["<state>y"])
        if extra:
            for e in extra:
                if e[0] == "call" and e[2].startswith("<func>"):
                    funcs[e[2]] = USER_FUNCS[e[2]]
            pi = r.randrange(len(phases))
            pn, ss = phases[pi]
            k = len(extra)
            phases[pi] = (pn, tuple(extra) + ss)
            orders[pi] = [i + k for i in orders[pi]]
            pos = r.choice([0, len(orders[pi])])
            orders[pi] = orders[pi][:pos] + list(range(k)) + orders[pi][pos:]
        return {"phases": phases, "forced": r.random() < 0.5, "funcs": funcs, "order": orders}


ATOMS = [("const", "CInt", 2), ("const", "CReal", 0.5), ("const", "CComplex", (0.0, 1.0)), ("var", "<t>"),
         ("var", "ar"), ("var", "ac"), ("var", "<state>y"), ("var", "b"), ("var", "i"), ("var", "c"),
         ("var", "nowhere")]
PREFIX = (
    ("call", ("ar",), "<builtin>array", (("const", "CInt", 4),), ()),
    ("assign", "ac", None, ("prod", (("const", "CComplex", (0.0, 1.0)), ("var", "ar"))), ()),
    ("call", ("<state>y",), "<func>f", (("var", "<t>"), ("var", "<state>y")), ()),
    ("assign", "b", None, ("cmp", ">", ("var", "<t>"), ("const", "CInt", 0)), ()),
    ("assign", "c", None, ("prod", (("const", "CComplex", (0.0, 1.0)), ("var", "<t>"))), ()),
)
HEADER = HEADER.replace("%PFX%", coq_list(stmt_coq(s) for s in PREFIX))
ATOMS_SMALL = [ATOMS[0], ATOMS[2], ATOMS[3], ATOMS[4], ATOMS[6], ATOMS[7], ATOMS[8]]


def exhaustive_cases(tier):
    """x <- op(atom, atom) for every operator and every pair of atoms of each kind, after a fixed prefix that
    gives one variable of each kind; the test statement is stored last (popped first) and first."""
    tests = []
    atoms = ATOMS
    for a, b in itertools.product(atoms, atoms):
        tests += [("sum", (a, b)), ("prod", (a, b)), ("quot", a, b), ("pow", a, b), ("cmp", "<", a, b),
                  ("cmp", "==", a, b), ("sub", a, b)]
    for a, b in itertools.product(ATOMS_SMALL, ATOMS_SMALL):
        tests += [("min", (a, b)), ("and", (a, b)), ("call", "<builtin>dot_product", (a, b), ()),
                  ("call", "<builtin>matmul", (a, b, ("const", "CInt", 2), ("const", "CInt", 2)), ()),
                  ("call", "<builtin>linear_solve", (a, b, ("const", "CInt", 2), ("const", "CInt", 2)), ()),
                  ("sum", (a, ("pow", b, ("const", "CInt", 2)))), ("prod", (("pow", a, ("const", "CInt", 2)), b))]
    for a in atoms:
        tests += [("not", a), ("max", (a,)), ("pow", a, ("const", "CInt", 2)), ("pow", a, ("const", "CReal", 0.5)),
                  ("sum", (("pow", a, ("const", "CInt", 2)), ("pow", a, ("const", "CInt", 3)))),
                  ("call", "<builtin>transpose", (a, ("const", "CInt", 2)), ()),
                  ("call", "<builtin>svd", (a, ("const", "CInt", 2)), ()),
                  ("call", "<builtin>print", (a,), ()),
                  ("call", "<func>f", (("var", "<t>"), a), ()), ("call", "<func>f", (a,), ("y",)),
                  ("call", "<func>nosuch", (a,), ())]
        for bn in ("norm_1", "norm_2", "norm_inf", "elementwise_abs", "len", "isnan", "array"):
            tests += [("call", "<builtin>" + bn, (a,), ()), ("call", "<builtin>" + bn, (a,), ("x",))]
    funcs = {"<func>f": USER_FUNCS["<func>f"]}
    cases = []
    for k, e in enumerate(tests):
        st = ("assign", "x", None, e, (("i", ("const", "CInt", 0), ("const", "CInt", 3)),))
        stmts = PREFIX + (st,)
        n = len(stmts)
        modes = [list(range(n)), [n - 1] + list(range(n - 1))]
        if tier == "quick":
            modes = [modes[k % 2]]
        for order in modes:
            cases.append({"phases": [("ph", stmts)], "forced": k % 3 != 0, "funcs": funcs, "order": [order]})
    # statement-level shapes: call statements, sub-assignments, two assignments to one variable in both orders
    kinds_rhs = [("const", "CReal", 1.5), ("cmp", ">", ("var", "<t>"), ("const", "CInt", 0)), ("var", "ar"),
                 ("var", "ac"), ("var", "<state>y"), ("var", "c"), ("var", "i"),
                 ("sum", (("const", "CInt", 1), ("var", "w"))), ("pow", ("var", "<t>"), ("const", "CInt", 2))]
    for a, b in itertools.product(kinds_rhs, kinds_rhs):
        for x in ("x", "<p>x"):
            s1 = ("assign", x, None, a, (("i", ("const", "CInt", 0), ("const", "CInt", 2)),))
            s2 = ("assign", x, None, b, ())
            s3 = ("assign", "w", None, ("var", x), ())
            stmts = PREFIX + (s1, s2, s3)
            n = len(stmts)
            cases.append({"phases": [("ph", stmts)], "forced": True, "funcs": funcs,
                          "order": [list(range(n)) if x == "x" else list(reversed(range(n)))]})
    for xs in ((), ("u",), ("u", "s"), ("u", "s", "v"), ("u", "s", "v", "w")):
        for a in (("var", "ar"), ("var", "ac"), ("var", "<t>"), ("var", "nowhere")):
            stmts = PREFIX + (("call", xs, "<builtin>svd", (a, ("const", "CInt", 2)), ()),
                              ("assign", "q", None, ("sum", (("var", "u"), ("const", "CInt", 1))), ()))
            cases.append({"phases": [("ph", stmts)], "forced": False, "funcs": funcs,
                          "order": [list(range(len(stmts)))]})
    return cases


def corpus():
    out = []
    d = os.path.join(common.VERIF, "corpus", PID)
    if os.path.isdir(d):
        for f in sorted(os.listdir(d)):
            if f.endswith(".json"):
                c = json.load(open(os.path.join(d, f)))
                out.append(case_from_json(c["case"]))
    return out


def case_from_json(c):
    return {"phases": [(p[0], tuple(_tup(s) for s in p[1])) for p in c["phases"]],
            "forced": bool(c.get("forced")), "funcs": {k: _tup(v) for k, v in c.get("funcs", {}).items()},
            "order": c.get("order") or [list(range(len(p[1]))) for p in c["phases"]]}


def gen_cases(tier, seed):
    cases = corpus()
    n_corpus = len(cases)
    ex = exhaustive_cases(tier)
    cases += ex
    rng = random.Random(seed * 7919 + 9)
    g = Gen(rng)
    nrand = 700 if tier == "quick" else 12000
    for _ in range(nrand):
        cases.append(g.program(rng.choice([2, 3, 4, 6, 8])))
    dist = {"corpus": n_corpus, "exhaustive": len(ex), "random": nrand,
            "exhaustive_scope": "x <- op(a, b) for op in {+,*,/,**,<,==,[],min,and,dot_product,matmul,linear_solve}, "
                                "unary operators and every built-in (positional and keyword), a, b ranging over "
                                "11 atoms (int/float/complex literal, <t>, real/complex array, user type, flag, "
                                "loop counter, complex scalar, unknown name), after a 5-statement prefix; "
                                "pairs of assignments of 9 kinds to one local / persistent variable; svd with 0-4 assignees"}
    return cases, dist


# ====================================================================== shrinking

def case_size(c):
    return sum(1 + sum(len(json.dumps(s)) for s in ss) for _, ss in c["phases"])


def _sub_rhs(e):
    k = e[0]
    if k in ("sum", "prod", "and", "or", "min", "max"):
        for c in e[1]:
            yield c
        if len(e[1]) > 2:
            for i in range(len(e[1])):
                yield (k, e[1][:i] + e[1][i + 1:])
        for i, c in enumerate(e[1]):
            for c2 in _sub_rhs(c):
                yield (k, e[1][:i] + (c2,) + e[1][i + 1:])
    elif k in ("quot", "pow", "sub"):
        yield e[1]
        yield e[2]
        for c2 in _sub_rhs(e[1]):
            yield (k, c2, e[2])
        for c2 in _sub_rhs(e[2]):
            yield (k, e[1], c2)
    elif k == "cmp":
        for c2 in _sub_rhs(e[2]):
            yield (k, e[1], c2, e[3])
        for c2 in _sub_rhs(e[3]):
            yield (k, e[1], e[2], c2)
    elif k == "not":
        yield e[1]
    elif k == "call":
        for c in e[2]:
            yield c
        for i, c in enumerate(e[2]):
            for c2 in _sub_rhs(c):
                yield (k, e[1], e[2][:i] + (c2,) + e[2][i + 1:], e[3])


def neighbours(c):
    ph = c["phases"]
    order = c["order"]
    if len(ph) > 1:
        for i in range(len(ph)):
            yield dict(c, phases=ph[:i] + ph[i + 1:], order=order[:i] + order[i + 1:])
    for pi, (pn, ss) in enumerate(ph):
        for si in range(len(ss)):
            pos = order[pi].index(si)
            o2 = [x - 1 if x > si else x for x in order[pi][:pos] + order[pi][pos + 1:]]
            yield dict(c, phases=ph[:pi] + [(pn, ss[:si] + ss[si + 1:])] + ph[pi + 1:],
                       order=order[:pi] + [o2] + order[pi + 1:])
        for si, s in enumerate(ss):
            if s[0] == "assign":
                if s[4]:
                    yield dict(c, phases=ph[:pi] + [(pn, ss[:si] + (s[:4] + ((),),) + ss[si + 1:])] + ph[pi + 1:])
                for e2 in _sub_rhs(s[3]):
                    yield dict(c, phases=ph[:pi] + [(pn, ss[:si] + (s[:3] + (e2, s[4]),) + ss[si + 1:])] + ph[pi + 1:])
    if c.get("forced"):
        yield dict(c, forced=False)
    for pi in range(len(ph)):
        ident = list(range(len(ph[pi][1])))
        if order[pi] != ident:
            yield dict(c, order=order[:pi] + [ident] + order[pi + 1:])


def shrink(c, fails, budget=400):
    c = dict(c, phases=list(c["phases"]), order=[list(o) for o in c["order"]])
    changed = True
    while changed and budget > 0:
        changed = False
        for cand in neighbours(c):
            budget -= 1
            if budget <= 0:
                break
            cand = dict(cand, phases=list(cand["phases"]), order=[list(o) for o in cand["order"]])
            if case_size(cand) <= case_size(c) and cand != c and fails(cand):
                c = cand
                changed = True
                break
    return c


# ====================================================================== one case through all oracles

def examine(case, variants=(0, 1, 2)):
    """Run the real inference and both program-level oracles.  Returns dict with keys
    res, stored, forced, failure (None or dict), checked (number of stores compared)."""
    try:
        res, stored, forced, t = run_infer(case)
    except Unrepresentable as ex:
        return {"skip": str(ex)}
    out = {"res": res, "stored": stored, "forced": forced, "failure": None, "checked": 0, "table": t}
    if t is None:
        return out
    o = oracle_assigned(stored, t)
    if o is None:
        for v in variants:
            o, n = run_program(case, t, variant=v)
            out["checked"] += n
            if o is not None:
                break
    out["failure"] = o
    return out


def failure_key(case, ex):
    o = ex["failure"]
    if o is None:
        return None
    if o["kind"] == "no_kind":
        return "no_kind"
    return "wrong_class:" + (classify_failure(case, ex["stored"], ex["table"], o) or "unmatched")


def case_json(c):
    return {"phases": [[p, list(s)] for p, s in c["phases"]], "forced": c.get("forced", False),
            "funcs": c.get("funcs", {}), "order": c["order"]}


def expr_str(e):
    try:
        return str(to_pym(e))
    except Exception:  # noqa: BLE001
        return repr(e)


def describe(case):
    lines = []
    for (pn, ss), order in zip(case["phases"], case["order"]):
        lines.append("phase %s (stored order %s%s):" % (pn, order, ", forced loop kinds" if case.get("forced") else ""))
        for s in ss:
            if s[0] == "assign":
                lines.append("  %s%s <- %s%s" % (s[1], "" if s[2] is None else "[%s]" % expr_str(s[2]), expr_str(s[3]),
                                               "".join(" [%s=%s..%s]" % (l[0], expr_str(l[1]), expr_str(l[2]))
                                                       for l in s[4])))
            elif s[0] == "call":
                lines.append("  %s <- %s(%s)" % (", ".join(s[1]), s[2], ", ".join(
                    [expr_str(a) for a in s[3][:len(s[3]) - len(s[4])]]
                    + ["%s=%s" % (n, expr_str(a)) for n, a in zip(s[4], s[3][len(s[3]) - len(s[4]):])])))
            else:
                lines.append("  nop")
    return lines


# ====================================================================== tie (2): class semantics vs real values

def eval_real(e, ctx, funcs):
    from dagrt.builtins_python import builtins
    from dagrt.expression import EvaluationMapper
    fm = dict(builtins, **make_function_map(funcs))
    import copy
    ctx = {k: (copy.copy(v) if hasattr(v, "shape") else v) for k, v in ctx.items()}
    try:
        with contextlib.redirect_stdout(io.StringIO()):
            return classify(EvaluationMapper(ctx, fm)(to_pym(e)))
    except Exception as ex:  # noqa: BLE001
        return "!" + type(ex).__name__


def eval_cases_real(tier, seed):
    """(funcs, ctx(name -> value), expr) cases: every binary operator on every pair of representative
    values, every unary operator / built-in on every value, and random deeper expressions."""
    r = reps()
    allv = [(c, v) for c, vs in r.items() for v in vs]
    cases = []
    A, B = ("var", "a"), ("var", "b")
    two = ("const", "CInt", 2)
    binops = [("sum", (A, B)), ("prod", (A, B)), ("quot", A, B), ("pow", A, B), ("cmp", "<", A, B),
              ("cmp", ">=", A, B), ("cmp", "==", A, B), ("cmp", "!=", A, B), ("min", (A, B)), ("max", (A, B)),
              ("sub", A, B), ("and", (A, B)), ("or", (A, B)),
              ("call", "<builtin>dot_product", (A, B), ()),
              ("call", "<builtin>matmul", (A, B, two, two), ()),
              ("call", "<builtin>linear_solve", (A, B, two, two), ()),
              ("call", "<builtin>matmul", (A, B, two, two), ("a_cols", "b_cols")),
              ("call", "<builtin>transpose", (A, B), ()), ("call", "<builtin>svd", (A, B), ()),
              ("call", "<builtin>matmul", (A, A, B, B), ())]
    for (c1, v1), (c2, v2) in itertools.product(allv, allv):
        for e in binops:
            cases.append(({}, {"a": v1, "b": v2}, e))
    unops = [("not", A), ("max", (A,)), ("sum", (A, A, A)), ("prod", (A, two, A)), ("pow", A, two),
             ("pow", A, ("const", "CReal", 0.5)), ("pow", A, ("const", "CInt", -1)), ("pow", two, A),
             ("quot", ("const", "CInt", 1), A), ("sub", A, ("const", "CInt", 0)), ("var", "zz"),
             ("call", "<builtin>transpose", (A, two), ()), ("call", "<builtin>print", (A,), ()),
             ("call", "<func>f", (A, A), ()), ("call", "<func>kb", (A,), ()), ("call", "<func>k2", (A,), ()),
             ("call", "<func>ki", (A,), ())]
    for bn in ("norm_1", "norm_2", "norm_inf", "elementwise_abs", "len", "isnan", "array"):
        unops += [("call", "<builtin>" + bn, (A,), ()), ("call", "<builtin>" + bn, (A,), ("x",))]
    for c1, v1 in allv:
        for e in unops:
            cases.append((USER_FUNCS, {"a": v1}, e))
    rng = random.Random(seed * 31 + 909)
    g = Gen(rng)
    kinds = ["KScalar:true", "KScalar:false", "KBool", "KArray:true", "KArray:false", "KUser:y", "KUser:z", "KInt"]
    nrand = 1500 if tier == "quick" else 20000
    for _ in range(nrand):
        env = {"__funcs__": tuple(USER_FUNCS)}
        ctx = {"<t>": rng.choice(r["CReal"]), "<dt>": rng.choice(r["CReal"])}
        for i in range(6):
            k = rng.choice(kinds)
            env["v%d" % i] = k
            ctx["v%d" % i] = input_choices(k, rng.randrange(50))
        ctx["<state>y"] = r["CUser:y"][rng.randrange(3)]
        ctx["<state>z"] = r["CUser:z"][0]
        e = g.expr(env, rng.choice(kinds), rng.randint(1, 3), noise=0.15)
        cases.append((USER_FUNCS, ctx, e))
    return cases


def eval_case_term(funcs, ctx, e, cls):
    return "(%s, %s, %s, %s)" % (funcs_coq(funcs), coq_list("(%s, %s)" % (coq_str(k), cls_coq(classify(v)))
                                                           for k, v in sorted(ctx.items())),
                                 expr_coq(e), cls_coq(cls))


# ====================================================================== oracle (c): built-ins, declared vs returned

BUILTIN_ARGS = {
    "<builtin>norm_1": 1, "<builtin>norm_2": 1, "<builtin>norm_inf": 1, "<builtin>elementwise_abs": 1,
    "<builtin>dot_product": 2, "<builtin>len": 1, "<builtin>isnan": 1, "<builtin>array": 1,
    "<builtin>matmul": 4, "<builtin>transpose": 2, "<builtin>linear_solve": 4, "<builtin>svd": 2,
    "<builtin>print": 1,
}
ALL_KINDS = ["KBool", "KInt", "KScalar:true", "KScalar:false", "KArray:true", "KArray:false", "KUser:y", "KUser:z"]


def builtins_oracle():
    """For every built-in and every tuple of argument kinds its own check=True test accepts: call the real
    implementation on real values of every class of those kinds; the classes of the results must inhabit the
    declared result kinds.  Returns (failures, n_calls)."""
    from dagrt.builtins_python import builtins
    from dagrt.function_registry import base_function_registry as reg
    import copy
    r = reps()
    # arrays/user values with 4 elements so that cols=2 makes sense; scalars small
    pool = {c: [v for v in vs if getattr(v, "shape", None) in (None, (), (4,))] for c, vs in r.items()}
    failures = []
    ncalls = 0
    for name, nargs in sorted(BUILTIN_ARGS.items()):
        func = reg[name]
        for ks in itertools.product(ALL_KINDS, repeat=min(nargs, 2)):
            ks = list(ks) + ["KScalar:true"] * (nargs - len(ks))
            try:
                declared = func.get_result_kinds({i: kind_real(k) for i, k in enumerate(ks)}, True)
            except Exception:  # noqa: BLE001 - the function's own argument check rejects these kinds
                continue
            declared = [kind_str(k) for k in declared]
            for cs in itertools.product(*[classes_of_kind(k) for k in ks]):
                for vs in itertools.product(*[pool[c][:3] for c in cs]):
                    if nargs == 4:
                        vs = vs[:2] + (2, 2.0)
                    elif name in ("<builtin>transpose", "<builtin>svd"):
                        vs = vs[:1] + (2,)
                    args = [copy.copy(v) if hasattr(v, "shape") else v for v in vs]
                    try:
                        with contextlib.redirect_stdout(io.StringIO()):
                            res = builtins[name](*args)
                    except Exception:  # noqa: BLE001 - a run-time error is not a wrong kind
                        continue
                    ncalls += 1
                    res = res if isinstance(res, tuple) else ((res,) if declared else ())
                    got = [classify(x) for x in res]
                    if len(got) != len(declared) or not all(has_kind(c, k) for c, k in zip(got, declared)):
                        failures.append({"builtin": name, "arg_kinds": ks, "arg_classes": [classify(v) for v in vs],
                                         "declared": declared, "returned_classes": got})
                        break
                else:
                    continue
                break
    return failures, ncalls


# ====================================================================== the check

def main(tier):
    rep = common.Reporter(PID, tier)
    seed = common.seed()
    ps = common.proof_stage(rep, PID, gen=["c09"])
    known = all_known()
    known_classes = {f.get("class"): f for f in known}

    cases, dist = gen_cases(tier, seed)
    exams = []
    skipped = {}
    kept = []
    for c in cases:
        ex = examine(c)
        if "skip" in ex:
            skipped[ex["skip"][:60]] = skipped.get(ex["skip"][:60], 0) + 1
            continue
        kept.append(c)
        exams.append(ex)
    cases = kept

    # ---- oracles (a), (b): smallest failing input per failure class
    failing = {}
    stores_checked = 0
    n_ok = 0
    for c, ex in zip(cases, exams):
        stores_checked += ex["checked"]
        n_ok += ex["res"][0] == "ok"
        key = failure_key(c, ex)
        if key is not None and (key not in failing or case_size(c) < case_size(failing[key][0])):
            failing[key] = (c, ex)
    for key, (c, ex) in sorted(failing.items()):
        def fails(cand, _key=key):
            try:
                e2 = examine(cand)
            except Exception:  # noqa: BLE001
                return False
            return "skip" not in e2 and failure_key(cand, e2) == _key
        c2 = shrink(c, fails)
        ex2 = examine(c2)
        key2 = failure_key(c2, ex2)
        cls = key2.split(":", 1)[1] if key2 and ":" in key2 else None
        if cls in known_classes:
            f = known_classes[cls]
            rep.known_finding(kf_text(f))
            continue
        rep.violation({"what": "kind inference succeeds but " + (
            "an assigned variable has no kind" if ex2["failure"]["kind"] == "no_kind" else
            "the interpreter stores a value whose class does not inhabit the inferred kind"),
            "case": case_json(c2), "program": describe(c2), "real_table": ex2["res"],
            "oracle": ex2["failure"], "failure_class": key2,
            "replay": "./check C09 --replay <this file>"})

    # ---- oracle (c): built-ins
    bfail, ncalls = builtins_oracle()
    seen = set()
    for f in bfail:
        if f["builtin"] in seen:
            continue
        seen.add(f["builtin"])
        cls = "builtin_result_kind:" + f["builtin"]
        if cls in known_classes:
            rep.known_finding(kf_text(known_classes[cls]))
            continue
        rep.violation({"what": "a built-in returns a value whose class does not inhabit its declared result kind",
                       "builtin_case": f, "failure_class": cls, "replay": "./check C09 --replay <this file>"})

    # ---- tie (1): real inference vs model
    errors = []
    mism = []
    n_eval = 0
    mism2 = []
    n_eval2 = 0
    ecases = []
    have_model = os.path.exists(os.path.join(common.COQ, "model", "Kinds.vo")) and os.path.exists(
        os.path.join(common.COQ, "gen", "GenC09.vo"))
    if have_model:
        terms = [infer_case_term(c, ex["res"], ex["stored"], ex["forced"]) for c, ex in zip(cases, exams)]
        h1, terms = intern_strings(HEADER, terms)
        mism, n_eval, errors = common.eval_cases(PID, h1, terms, "chk", shard=160)
        # ---- tie (2): class semantics vs real values
        ecases_all = eval_cases_real(tier, seed)
        eterms = []
        n_raise = 0
        for funcs, ctx, e in ecases_all:
            cl = eval_real(e, ctx, funcs)
            if cl.startswith("!"):
                n_raise += 1
                continue
            if cl.startswith("COther"):
                cl_term = "CNone"     # never allowed where a tuple/function object appears: flagged below
                if cl.startswith("COther:tuple") and e[0] == "call":
                    continue          # a multi-result function in expression position: inference rejects it
            ecases.append((funcs, ctx, e, cl))
        seen_terms = {}
        for funcs, ctx, e, cl in ecases:
            tm = eval_case_term(funcs, ctx, e, cl if not cl.startswith("COther") else "CNone")
            seen_terms.setdefault(tm, len(seen_terms))
        eterms = list(seen_terms)
        h2, eterms_i = intern_strings(HEADER, eterms)
        m2, n_eval2, err2 = common.eval_cases(PID + "e", h2, eterms_i, "chk_eval", shard=1500)
        mism2 = m2
        errors += err2
        m3, _, err3 = common.eval_cases(PID + "f", HEADER, ["0"], "chk_facts")
        errors += err3
        if m3:
            errors.append("table of built-ins read off function_registry.py differs from Kinds.builtin_reg")
    else:
        errors = ["model not built"]

    tie_broken = bool(mism or mism2 or errors)
    if (not ps["ok"] or tie_broken) and not rep.violations:
        detail = {"what": "proof obligation or model/implementation correspondence no longer checks; "
                          "no failing input found by the implementation-level oracles",
                  "proof_stage": ps, "coq_errors": errors[:3]}
        if mism:
            i = mism[0]
            j = min(mism, key=lambda k: case_size(cases[k]))
            detail["first_disagreeing_case"] = {
                "case": case_json(cases[j]), "program": describe(cases[j]), "impl_result": exams[j]["res"],
                "model_result": common.eval_term(HEADER, "show %s %s %s" % (
                    program_coq(exams[j]["stored"]), funcs_coq(cases[j].get("funcs", {})),
                    coq_list("(%s, %s, %s)" % (coq_str(a), coq_str(b), kind_coq1(k))
                             for a, b, k in exams[j]["forced"])))}
            detail["n_disagreements"] = len(mism)
        if mism2:
            detail["first_class_disagreement"] = {"term (registry, store classes, expression, real class)": eterms[mism2[0]],
                                                  "n": len(mism2)}
        detail["broken"] = ("theorem file %s" % ps.get("theorem")) if not ps["ok"] else (
            "correspondence SymbolKindFinder ~ Dagrt.Kinds.infer" if mism else
            "correspondence Python/numpy value classes ~ Dagrt.Kinds.ceval" if mism2 else "Coq evaluation")
        rep.violation(detail, no_input=True)
    elif not ps["ok"] or tie_broken:
        rep.coverage["broken_obligation"] = ps if not ps["ok"] else {
            "infer_disagreements": len(mism), "class_disagreements": len(mism2), "errors": errors[:2]}

    kinds_hist = {}
    for ex in exams:
        k = ex["res"][0] if ex["res"][0] == "ok" else "exc:" + ex["res"][1]
        kinds_hist[k] = kinds_hist.get(k, 0) + 1
    distinct = len({json.dumps(case_json(c), sort_keys=True, default=str) for c, ex in zip(cases, exams)
                    if ex["res"][0] != "ok" or len(ex["res"][1]) + sum(len(t) for _, t in ex["res"][2]) > 2})
    rep.coverage.update(
        evaluations=len(cases) + len(ecases) + ncalls,
        distinct_nontrivial=distinct,
        rule="program cases = corpus + exhaustive operator/atom scope + random kind-directed programs "
             "(1-3 phases, <=8 statements each, loops, sub-assignments, call statements, shuffled stored order); "
             "non-trivial = inference raises or yields at least one entry beyond <t>, <dt>; distinct by structure",
        traces_validated_against_impl=n_eval + n_eval2,
        model_impl_disagreements=len(mism) + len(mism2),
        input_distribution=dict(dist, inference_outcomes=kinds_hist, skipped_unrepresentable=skipped,
                                programs_inferred_ok=n_ok, interpreter_stores_checked=stores_checked,
                                class_cases_with_value=len(ecases), class_terms_distinct=n_eval2,
                                builtin_calls_checked=ncalls),
        samples=[{"program": describe(cases[i]), "impl": exams[i]["res"]} for i in
                 (0, len(cases) // 2, len(cases) - 1)] if cases else [],
        exhaustive=False,
    )
    rep.assumptions = [
        "value classes: arrays are numeric (not dtype bool/object); user-type values are ndarray subclasses tagged "
        "with their identifier; 0-d arrays and numpy scalars count as scalars",
        "user-supplied functions return values of their registered result kinds",
        "pymbolic.flatten is the identity on every stored expression used (checked per case)",
        "soundness is proved over the abstract class semantics Kinds.ceval/cexec; that semantics is validated "
        "against real Python/numpy by tie (2), not proved",
    ]
    return rep.finish("proof")


def replay(path):
    r = json.load(open(path))
    if "builtin_case" in r:
        bfail, _ = builtins_oracle()
        hit = [f for f in bfail if f["builtin"] == r["builtin_case"]["builtin"]]
        print(json.dumps({"builtin": r["builtin_case"]["builtin"], "failures": hit[:1]}, indent=1))
        return 1 if hit else 0
    c = r.get("case") or (r.get("first_disagreeing_case") or {}).get("case")
    if c is None:
        print("replay names a broken obligation, no input: %s" % r.get("broken"))
        return 1
    case = case_from_json(c)
    ex = examine(case)
    print(json.dumps({"program": describe(case), "real_result": ex.get("res"), "oracle": ex.get("failure"),
                      "failure_class": failure_key(case, ex) if "skip" not in ex else None}, indent=1, default=str))
    if "first_disagreeing_case" in r and ex.get("failure") is None:
        print("model:", common.eval_term(HEADER, "show %s %s %s" % (
            program_coq(ex["stored"]), funcs_coq(case.get("funcs", {})),
            coq_list("(%s, %s, %s)" % (coq_str(a), coq_str(b), kind_coq1(k)) for a, b, k in ex["forced"]))))
        return 1
    return 1 if ex.get("failure") is not None else 0
