"""C20: line wrapping of generated code changes layout only.

Tie: real dagrt.codegen.python.wrap_line / dagrt.codegen.fortran.wrap_line vs
coq/model/Wrap.v (evaluated with vm_compute, constants and the tokenizer kind from
coq/gen/GenC20.v) on an exhaustive small-scope stream, random long lines, statement
families of both target languages and the lines the two real code generators pass to
wrap_line for sample programs.

Emission sites (site == "emit"): the per-line use of wrap_line by the two generators is driven for
real -- Fortran CodeGenerator.get_code on entries of module_emitter.code (comment lines with leading
blanks, statements with `!` inside character literals, long tokens, trailing comments), on module
texts built through the real emitters (module / subroutine / if / do blocks, multi-line templates)
and on the texts the Fortran generator returns for sample programs with module preambles, CallCode
templates, trace output and Raise messages; Python emit_def_begin / _emit / emit_def_end / get_code
with the emitters at several levels and the class texts the Python generator returns -- and compared
with coq/model/WrapEmit.v (fortran_emit_line, python_emit).  Oracle E (oracle_emit, module_oracle,
python_text_oracle) judges the RETURNED TEXT: every physical line that holds more than one token
and is not a comment line (first non-blank character `!` / `#`) is at most 80 characters long,
comment lines are unchanged, all but the last physical line of a statement end with the marker,
the tokens read back are the source line's, and the target language reads the same statement.

Oracles (independent of the model), run on every case:
  A  token level: the output lines are prefix + " ".join(consecutive tokens) + padding + marker,
     all tokens in order, each whole in one line, lines with >= 2 tokens fit the width, all but
     the last end with the marker in the padding column, continuation lines start with the
     indentation; the only exception is the tokenizer's ValueError.  Tokens are those of the
     standard library's shlex (or of a reference quote-aware splitter when the tree uses the
     repaired tokenizer).
  B  target level: what the target language reads (string literals whole, other characters in
     order, blanks outside literals ignored) is unchanged; Python statements parse to the same
     ast (ast.dump); Fortran continuation lines follow the free-form rules (& outside a
     character context, <= 255 continuation lines).
"""
import ast
import itertools
import json
import os
import random
import shlex
import textwrap
import warnings

from harness import common

warnings.filterwarnings("ignore", category=SyntaxWarning)      # ast.parse on lines that are not Python

PID = "C20"
WS = " \t\r\n"
QUOTES = "'\""

# ------------------------------------------------------------------ facts read from the tree


_facts = {}


def facts():
    if "f" not in _facts:
        from harness.tr import c20 as tr
        try:
            _facts["f"] = tr.facts(common.REPO)
            _facts["err"] = None
        except Exception as ex:  # noqa: BLE001 - fail closed: assume the unrepaired shape
            _facts["f"] = dict(width=80, indentation="    ", python_marker="\\", python_lex="LexShlex",
                               fortran_marker="&", fortran_lex="LexShlex", fortran_indentation=" ",
                               fortran_indent_spaces=1, fortran_comment="!", emitter_indent_amount=4)
            try:        # the tokenizer is the fact the oracles depend on: keep it when it can still be read
                ut = tr._parse(common.REPO, "dagrt/codegen/utils.py")
                has_split = any(isinstance(n, ast.FunctionDef) and n.name == "split_outside_quotes" for n in ut.body)
                for key, fn, pad, esc in (("python_lex", "python.py", "pad_python", True),
                                          ("fortran_lex", "fortran.py", "pad_fortran", False)):
                    _facts["f"][key] = tr._partial(tr._parse(common.REPO, "dagrt/codegen/" + fn), fn, pad,
                                                   has_split, esc)
            except Exception:  # noqa: BLE001
                pass
            _facts["err"] = "%s: %s" % (type(ex).__name__, ex)
    return _facts["f"]


def marker(target):
    return facts()["python_marker" if target == "python" else "fortran_marker"]


def lexkind(target):
    return facts()["python_lex" if target == "python" else "fortran_lex"]


def default_indentation(target):
    return facts()["indentation"] if target == "python" else facts()["fortran_indentation"]


# ------------------------------------------------------------------ the implementation

def _wrap(target):
    if target == "python":
        from dagrt.codegen.python import wrap_line
    else:
        from dagrt.codegen.fortran import wrap_line
    return wrap_line


def run_impl(case, lex_func=None):
    """case = dict(target, line, level, width (None = default), indentation (None = the generator's)),
    or an emission-site case (site == "emit", see run_emit)."""
    if case.get("site") == "emit":
        return run_emit(case)
    kw = {}
    if case.get("width") is not None:
        kw["width"] = case["width"]
    ind = case.get("indentation")
    if ind is None and case["target"] == "fortran":
        ind = default_indentation("fortran")       # get_code passes indentation explicitly
    if ind is not None:
        kw["indentation"] = ind
    if lex_func is not None:
        kw["lex_func"] = lex_func
    try:
        out = _wrap(case["target"])(case["line"], case["level"], **kw)
    except Exception as ex:  # noqa: BLE001 - the class is the observable
        return ("exc", type(ex).__name__)
    if not isinstance(out, list) or not all(isinstance(x, str) for x in out):
        return ("exc", "Unrepresentable")
    return ("ok", out)


def eff(case):
    width = case["width"] if case.get("width") is not None else facts()["width"]
    ind = case["indentation"] if case.get("indentation") is not None else default_indentation(case["target"])
    return width, ind


# ------------------------------------------------------------------ reference readers (oracle side)

def ref_split(line, esc):
    """Quote-aware word splitter (reference; written from the target languages' rules)."""
    words, cur, q, i, n = [], "", None, 0, len(line)
    while i < n:
        c = line[i]
        if q is None:
            if c in WS:
                if cur:
                    words.append(cur)
                cur = ""
            else:
                cur += c
                if c in QUOTES:
                    q = c
        else:
            cur += c
            if esc and c == "\\":
                if i + 1 < n:
                    cur += line[i + 1]
                    i += 1
                else:
                    raise ValueError("No closing quotation")
            elif c == q:
                q = None
        i += 1
    if q is not None:
        raise ValueError("No closing quotation")
    if cur:
        words.append(cur)
    return words


def scan(line, target):
    """What the target language reads: list of ('lit', quote, body) / ('sym', char), or None when a
    literal is not terminated.  Python: backslash protects the next character inside a literal;
    Fortran: a doubled quote inside a literal is one character."""
    esc, dbl = (target == "python"), (target == "fortran")
    out, i, n = [], 0, len(line)
    while i < n:
        c = line[i]
        if c in WS:
            i += 1
        elif c in QUOTES:
            body, i = "", i + 1
            while True:
                if i >= n:
                    return None
                d = line[i]
                if esc and d == "\\":
                    if i + 1 >= n:
                        return None
                    body += d + line[i + 1]
                    i += 2
                elif d == c:
                    if dbl and i + 1 < n and line[i + 1] == c:
                        body += c
                        i += 2
                    else:
                        i += 1
                        break
                else:
                    body += d
                    i += 1
            out.append(("lit", c, body))
        else:
            out.append(("sym", c))
            i += 1
    return out


def target_reading(line, target):
    """scan(), or None when oracle B does not apply: a literal is not terminated, or a comment or
    continuation character stands outside the literals (the generators emit neither on wrapped lines;
    Fortran comment lines bypass wrap_line)."""
    items = scan(line, target)
    if items is None:
        return None
    special = "#\\" if target == "python" else "!&"
    if any(x[0] == "sym" and x[1] in special for x in items):
        return None
    return items


def ref_tokens(case):
    """Tokens of the input line by the tokenizer the tree is recognised to use, computed without
    the implementation: the standard library's shlex, or the reference splitter."""
    k = lexkind(case["target"])
    try:
        if k == "LexShlex":
            return shlex.split(case["line"], posix=False)
        return ref_split(case["line"], esc=(case["target"] == "python"))
    except ValueError:
        return None


def py_ast(src):
    """ast.dump of a Python statement; compound-statement headers get a body. None = not a statement."""
    for text in (src, src + "\n    pass", "if x:\n    pass\n" + src + "\n    pass",
                 "try:\n    pass\n" + src + "\n    pass"):
        try:
            return ast.dump(ast.parse(text))
        except (SyntaxError, ValueError):
            continue
    return None


def fortran_freeform(lines, m):
    """Free-form continuation rules for a statement given as physical lines (no leading & is used)."""
    if len(lines) > 256:
        return "more than 255 continuation lines"
    for i, l in enumerate(lines[:-1]):
        if not l.endswith(m):
            return "line %d does not end with the continuation marker" % i
        q, j, body = None, 0, l[:-1]
        while j < len(body):
            c = body[j]
            if q is None:
                if c in QUOTES:
                    q = c
                elif c == "!":
                    return "line %d: comment before the continuation marker" % i
            elif c == q:
                if j + 1 < len(body) and body[j + 1] == q:
                    j += 1
                else:
                    q = None
            j += 1
        if q is not None:
            return "line %d: continuation marker inside a character context" % i
        if i + 1 < len(lines) and lines[i + 1].lstrip(" ").startswith("&"):
            return "line %d starts with & (would join without the blank)" % (i + 1)
    return None


# ------------------------------------------------------------------ oracles

def oracle_tokens(case, result):
    """Oracle A.  Returns None or a dict(kind=..., detail=...)."""
    toks = ref_tokens(case)
    if result[0] == "exc":
        if result[1] == "ValueError" and toks is None:
            return None
        return {"kind": "exception", "exception": result[1],
                "detail": "wrap_line raised although the line tokenizes" if toks is not None
                else "wrap_line raised %s, the tokenizer's error is ValueError" % result[1]}
    if toks is None:
        return {"kind": "no-exception", "detail": "the tokenizer rejects the line (ValueError) but wrap_line returned"}
    lines = result[1]
    width, ind = eff(case)
    m = marker(case["target"])
    ilen = len(case["level"] * ind)
    pw = width - ilen
    if not lines:
        return {"kind": "structure", "detail": "no output line"}
    pos = 0
    for i, l in enumerate(lines):
        last = i == len(lines) - 1
        if not last:
            if not l.endswith(m):
                return {"kind": "continuation", "detail": "line %d does not end with the marker %r" % (i, m)}
            body = l[:-1]
            text = body.rstrip(" ")
            if body != text + " " * max(0, pw - 1 - len(text)):
                return {"kind": "continuation", "detail": "line %d: marker not in column %d" % (i, pw - 1)}
        else:
            text = l
        if i > 0:
            if not text.startswith(ind):
                return {"kind": "continuation", "detail": "line %d does not start with the indentation" % i}
            text = text[len(ind):]
        # the tokens of this line: the next consecutive run joined by single blanks
        j, acc = pos, None
        while j < len(toks):
            acc = toks[j] if acc is None else acc + " " + toks[j]
            j += 1
            if len(acc) >= len(text):
                break
        if (acc or "") != text:
            return {"kind": "tokens", "detail": "line %d is not the next tokens joined by single blanks "
                                                "(a token is split, dropped, reordered or altered)" % i,
                    "line_text": text, "next_tokens": toks[pos:pos + 4]}
        if j == pos and toks:
            return {"kind": "tokens", "detail": "line %d holds no token" % i}
        if j - pos >= 2 and ilen + len(l) > width:
            return {"kind": "width", "detail": "line %d holds %d tokens and is %d wide at indentation %d, width %d"
                                               % (i, j - pos, len(l), ilen, width)}
        pos = j
    if pos != len(toks):
        return {"kind": "tokens", "detail": "tokens after the last line are missing", "missing": toks[pos:pos + 4]}
    return None


def target_applies(case):
    """The target reading of the input line, or None when oracle B does not apply: not a statement the
    generators can emit (see target_reading), or the indentation string is empty / not whitespace
    (hypothesis ws_indent of C20_tokens: with an empty indentation string a line ending in `ab` + marker
    followed by `cd` joins to `abcd`; both generators use blanks)."""
    ind = eff(case)[1]
    if ind == "" or ind.strip(WS) != "":
        return None
    return target_reading(case["line"], case["target"])


def oracle_target(case, result):
    """Oracle B.  Returns None or a dict(kind=..., detail=...)."""
    target, line = case["target"], case["line"]
    want = target_applies(case)
    if want is None:
        return None
    if result[0] == "exc":
        return {"kind": "target-exception", "exception": result[1],
                "detail": "all string literals of the line are terminated, wrap_line raised"}
    lines = result[1]
    m = marker(target)
    joined = "".join([l[:-1] if l.endswith(m) else l for l in lines[:-1]] + lines[-1:])
    got = scan(joined, target)
    if got != want:
        return {"kind": "target-read", "detail": "the target language reads a different statement after wrapping",
                "unwrapped_reads": _show(want), "wrapped_reads": _show(got) if got is not None else None}
    if target == "python":
        a = py_ast(line)
        if a is not None:
            b = py_ast("\n".join(lines))
            if a != b:
                return {"kind": "python-ast", "detail": "ast.dump(ast.parse(...)) differs"
                        if b is not None else "the wrapped statement does not parse"}
    else:
        msg = fortran_freeform(lines, m)
        if msg:
            return {"kind": "fortran-freeform", "detail": msg}
    return None


def _show(items):
    return [x[1] + x[2] + x[1] if x[0] == "lit" else x[1] for x in items if x[0] == "lit"]


def oracle(case, result):
    if case.get("site") == "emit":
        return oracle_emit(case, result)
    return oracle_tokens(case, result) or oracle_target(case, result)

# ------------------------------------------------------------------ emission sites (site == "emit")
#
# A case dict(site="emit", target="fortran", line=<one entry of module_emitter.code, leading blanks
# included>) is run through the real CodeGenerator.get_code; dict(site="emit", target="python", line,
# clevel, elevel) through the real emit_def_begin / _emit / emit_def_end / get_code of the Python
# generator with the class emitter at level clevel and the function emitter at level elevel.  The
# result is the list of physical lines of the RETURNED TEXT that come from that line.

_gens = {}


def fortran_generator():
    import dagrt.codegen.fortran as F
    if "f" not in _gens:
        _gens["f"] = F.CodeGenerator("m", user_type_map={})
    return _gens["f"]


def run_femit(line):
    cg = fortran_generator()
    em = cg.module_emitter
    saved = em.code
    em.code = [line]                      # get_code is a function of module_emitter.code
    try:
        text = cg.get_code()
    except Exception as ex:  # noqa: BLE001 - the class is the observable
        return ("exc", type(ex).__name__)
    finally:
        em.code = saved
    if not isinstance(text, str):
        return ("exc", "Unrepresentable")
    return ("ok", text.split("\n"))


def run_pemit(line, clevel, elevel):
    import dagrt.codegen.python as P
    if "p" not in _gens:
        _gens["p"] = P.CodeGenerator(class_name="M")
    cg = _gens["p"]
    ce = cg._class_emitter
    before, saved_level = len(ce.code), ce.level
    try:
        ce.level = clevel
        cg.emit_def_begin("p")
        cg._emitter.level = elevel
        cg._emit(line)
        cg.emit_def_end()
        text = cg.get_code()
    except Exception as ex:  # noqa: BLE001
        return ("exc", type(ex).__name__)
    finally:
        ce.level = saved_level
        new = ce.code[before:]
        del ce.code[before:]
    if not isinstance(text, str):
        return ("exc", "Unrepresentable")
    got = text.split("\n")[before:]
    # frame: the def line in front, the empty line of emit_def_end behind
    if len(got) < 3 or got != new or got[0].strip() != "def phase_p(self):" or got[-1] != "":
        return ("frame", got)
    return ("ok", got[1:-1])


def run_emit(case):
    if case["target"] == "fortran":
        return run_femit(case["line"])
    return run_pemit(case["line"], case["clevel"], case["elevel"])


def ref_lex(target, text):
    """Tokens by the tokenizer the tree is recognised to use, computed without the implementation."""
    try:
        if lexkind(target) == "LexShlex":
            return shlex.split(text, posix=False)
        return ref_split(text, esc=(target == "python"))
    except ValueError:
        return None


def is_comment_line(target, line):
    return line.lstrip(" ").startswith("!" if target == "fortran" else "#")


def oracle_emit(case, result):
    """Independent oracle for one source line and the physical lines of the returned text that come
    from it: a Fortran comment line (first non-blank character `!`) is passed through unchanged; every
    other line: all physical lines but the last end with the continuation marker, the tokens of the
    physical lines (markers removed) are the line's tokens in order, no literal is split, every physical
    line that holds more than one token and is not a comment line is at most `width` long (leading
    blanks counted), the lines keep the source line's indentation, and the target language reads the
    same statement (ast for Python, free-form continuation rules for Fortran)."""
    target, line = case["target"], case["line"]
    width = facts()["width"]
    m = marker(target)
    toks = ref_lex(target, line)
    comment = target == "fortran" and is_comment_line(target, line)
    if result[0] == "exc":
        if result[1] == "ValueError" and toks is None and not comment:
            return None
        return {"kind": "emit-exception", "exception": result[1],
                "detail": "the generator raised %s while emitting the line" % result[1]}
    if result[0] == "frame":
        return {"kind": "emit-frame", "detail": "emit_def_begin/_emit/emit_def_end did not add "
                                                "`def` line + wrapped lines + empty line to the class text",
                "text_lines": result[1][:6]}
    lines = result[1]
    if comment:
        if lines != [line]:
            return {"kind": "emit-comment", "detail": "a comment line is not passed through unchanged",
                    "text_lines": lines[:4]}
        return None
    if toks is None:
        return {"kind": "emit-no-exception", "detail": "the tokenizer rejects the line (ValueError) but text was emitted"}
    if not lines:
        return {"kind": "emit-structure", "detail": "no physical line"}
    if target == "fortran":
        prefix = line[:len(line) - len(line.lstrip(" "))]
        cont = prefix + default_indentation("fortran")
    else:
        prefix = " " * (len(default_indentation("python")) * (case["clevel"] + case["elevel"]))
        cont = prefix + default_indentation("python")
    got = []
    for i, l in enumerate(lines):
        body = l
        if i < len(lines) - 1:
            if not l.endswith(m):
                return {"kind": "emit-continuation", "detail": "physical line %d does not end with the marker %r" % (i, m),
                        "physical_line": l}
            body = l[:-1]
        t = ref_lex(target, body)
        if t is None:
            return {"kind": "emit-literal-split", "detail": "a string literal is split at the end of physical line %d" % i,
                    "physical_line": l}
        got += t
        if len(t) >= 2 and len(l) > width and not is_comment_line(target, l):
            return {"kind": "emit-width", "detail": "physical line %d of the returned text holds %d tokens and is %d "
                                                    "characters long (width %d); it is not a comment line"
                                                    % (i, len(t), len(l), width), "physical_line": l}
        if target == "python" and t and (not l.startswith(prefix if i == 0 else cont)
                                         or (i == 0 and l[len(prefix):len(prefix) + 1] == " ")):
            return {"kind": "emit-indentation", "detail": "physical line %d does not start with %d blanks"
                                                          % (i, len(prefix if i == 0 else cont)), "physical_line": l}
        if not t and (toks or len(lines) > 1):
            return {"kind": "emit-tokens", "detail": "physical line %d holds no token" % i}
    if got != toks:
        return {"kind": "emit-tokens", "detail": "the tokens of the physical lines (markers removed) are not the "
                                                 "line's tokens", "want": toks[:6], "got": got[:6]}
    want = target_reading(line, target)
    if want is not None:
        joined = "".join([l[:-1] for l in lines[:-1]] + lines[-1:])
        rd = scan(joined, target)
        if rd != want:
            return {"kind": "emit-target-read", "detail": "the target language reads a different statement in the "
                                                          "returned text", "unwrapped_reads": _show(want),
                    "wrapped_reads": _show(rd) if rd is not None else None}
        if target == "python":
            a = py_ast(line.strip())
            if a is not None:
                b = py_ast(textwrap.dedent("\n".join(lines)))
                if a != b:
                    return {"kind": "emit-python-ast", "detail": "ast.dump(ast.parse(...)) differs" if b is not None
                            else "the emitted statement does not parse"}
    if target == "fortran":
        items = scan(line, target) or []
        if not any(x[0] == "sym" and x[1] == m for x in items):
            # also for a statement followed by a trailing comment (then `want` is None)
            msg = fortran_freeform(lines, m)
            if msg:
                return {"kind": "emit-fortran-freeform", "detail": msg, "text_lines": lines[:3]}
    return None


def trailing_comment(line):
    """Index of the first `!` outside character literals, or None (Fortran quoting: a quote character
    toggles; a doubled quote toggles twice)."""
    q = None
    for i, c in enumerate(line):
        if q is None:
            if c == "!":
                return i
            if c in QUOTES:
                q = c
        elif c == q:
            q = None
    return None


def classify_emit(case, result, o):
    """Known finding `trailing-comment`: a Fortran statement followed by a trailing comment is wrapped as
    one statement, so the continuation marker lands inside the comment.  Matched only if that is what
    oracle E reports, the line has a statement in front of a `!` outside the literals, an open entry names
    the class, and the statement alone (comment removed) passes oracle E."""
    if case["target"] != "fortran" or o["kind"] != "emit-fortran-freeform" or \
            "comment before the continuation marker" not in o["detail"]:
        return None
    i = trailing_comment(case["line"])
    if i is None or not case["line"][:i].strip():
        return None
    entry = known_entries().get("trailing-comment")
    if entry is None:
        return None
    c2 = dict(case, line=case["line"][:i].rstrip(" "))
    if oracle_emit(c2, run_emit(c2)) is not None:
        return None
    return entry


def cut_groups(target, code, out):
    """Cut the physical lines `out` of a returned text into one group per source line, using only the
    text: a comment line is one physical line; otherwise physical lines are taken while they end with
    the marker, until the tokens read so far plus the tokens of the current line are the source line's.
    Returns (groups, error)."""
    m = marker(target)
    pos, groups = 0, []
    for src in code:
        if pos >= len(out):
            return groups, "the text ends before source line %r" % src[:60]
        if target == "fortran" and is_comment_line(target, src):
            groups.append(out[pos:pos + 1])
            pos += 1
            continue
        want = ref_lex(target, src)
        g, acc = [], []
        while pos < len(out):
            l = out[pos]
            pos += 1
            g.append(l)
            whole = ref_lex(target, l)
            if want is None or (whole is not None and acc + whole == want) or not l.endswith(m):
                break
            acc += ref_lex(target, l[:-1]) or []
            if len(acc) > len(want):
                break
        groups.append(g)
    if pos != len(out):
        return groups, "%d surplus physical lines" % (len(out) - pos)
    return groups, None


def module_oracle(target, code, text, mk):
    """Oracle on a whole returned text.  `mk(src)` makes the per-line case.  Returns a list of
    (case, impl result, oracle result)."""
    out = text.split("\n")
    groups, err = cut_groups(target, code, out)
    bad = []
    for src, g in zip(code, groups):
        c = mk(src)
        o = oracle_emit(c, ("ok", g))
        if o is None:
            r = run_emit(c)
            if r != ("ok", g):
                o = {"kind": "emit-module", "detail": "the physical lines of this source line in the module text differ "
                                                      "from the ones the generator returns for the line alone",
                     "in_module": g[:4]}
        if o is not None:
            bad.append((c, ("ok", g), o))
    if err and not bad:
        c = mk(code[min(len(groups), len(code) - 1)])
        bad.append((c, ("ok", []), {"kind": "emit-module", "detail": err}))
    return bad


def python_text_oracle(text, calls):
    """Oracle on the class text returned by the Python generator.  calls: name of the phase function ->
    list of lines passed to _emit.  Inside every `def phase_*` block the tokens passed to _emit appear in
    order on physical lines of their own (lines the generator writes without _emit -- `for` headers of
    looped assignments, `del` -- lie between them and are not judged), no literal is split, and every
    such physical line with more than one token that is not a comment fits the width."""
    out = text.split("\n")
    width, m = facts()["width"], marker("python")
    problems = []
    i = 0
    while i < len(out):
        l = out[i]
        name = l.strip()[4:].split("(")[0] if l.startswith("    def phase_") else None
        i += 1
        if name is None or name not in calls:
            continue
        want = []
        for src in calls[name]:
            want += ref_lex("python", src) or []
        j = 0
        while i < len(out) and (out[i] == "" or out[i].startswith("        ")):
            p = out[i]
            i += 1
            body = p[:-1] if p.endswith(m) else p
            t = ref_lex("python", body)
            if t is None:
                problems.append({"kind": "emit-literal-split", "physical_line": p, "function": name})
                continue
            if not t or want[j:j + len(t)] != t:
                continue
            j += len(t)
            if len(t) >= 2 and len(p) > width and not is_comment_line("python", p):
                problems.append({"kind": "emit-width", "physical_line": p, "function": name,
                                 "detail": "%d tokens, %d characters" % (len(t), len(p))})
        if j != len(want):
            problems.append({"kind": "emit-tokens", "function": name, "physical_line": " ".join(want[j:j + 3]),
                             "detail": "tokens passed to _emit are missing from the function's text (from token %d)" % j})
    return problems


# ------------------------------------------------------------------ known-finding classes

def quote_classes(case):
    """Syntactic patterns on which shlex.split(posix=False) and the target language disagree."""
    line, target = case["line"], case["target"]
    out = set()
    # walk the line the way shlex does (posix=False) to find where quotes sit
    state = " "
    for i, c in enumerate(line):
        if state == " ":
            if c in WS:
                pass
            elif c in QUOTES:
                state = c
            else:
                state = "a"
        elif state == "a":
            if c in WS:
                state = " "
            elif c in QUOTES:
                out.add("midtoken-literal")        # a quote inside a word
        else:
            if c == state:
                state = " "
                if i + 1 < len(line) and line[i + 1] not in WS:
                    out.add("adjacent-quote")      # closing quote directly followed by a non-blank
            elif c == "\\" and target == "python":
                out.add("escaped-quote")           # backslash inside a quoted string
    return out


def known_entries():
    k = common.known_findings(PID)
    if not k:
        # the committed fragment (known_findings.json is assembled from it by harness.manifest)
        p = os.path.join(common.VERIF, "known_findings.d", PID + ".json")
        if os.path.exists(p):
            k = [f for f in json.load(open(p)) if f.get("status") == "open"]
    return {f.get("class"): f for f in k}


def classify(case, result, o):
    """A target-level failure is a known finding iff the tree still tokenizes with shlex, the line
    shows one of the listed quote patterns, an open entry names that pattern, and the very same
    call with a quote-aware tokenizer passes both oracles (so nothing but the tokenizer choice is
    at fault)."""
    if case.get("site") == "emit":
        return classify_emit(case, result, o)
    if o["kind"] not in ("target-read", "python-ast", "fortran-freeform", "target-exception"):
        return None
    if lexkind(case["target"]) != "LexShlex":
        return None
    cls = quote_classes(case)
    if not cls:
        return None
    known = known_entries()
    esc = case["target"] == "python"
    r2 = run_impl(case, lex_func=lambda s: ref_split(s, esc))
    if oracle_target(case, r2) is not None:
        return None
    for c in sorted(cls):
        if c in known:
            return known[c]
    return None


# ------------------------------------------------------------------ case generation

ALPHABET = ["ab", "+", "'a b'", '"c  d"', "''", "abcdefghijkl"]

POOL = ["x", "y1", "=", "+", "*", "//", "==", "(", ")", "f(x,", "g(a)", "self.t", "dagrt_state%y",
        "'a b'", '"c d"', "'a  b c'", "''", '""', "'q'", "f('a", "b')", "g(\"u", "v\")", "x='a", "'it''s'",
        "'it\\'s'", "\"a\\\"", "a'b", "c'd", "averyveryverylongidentifier_0123456789", "'&'", "'\\'",
        "write(*,*)", "'phase primary count:',", "yield", "component_id='y',", "'x y'z", "'! #'",
        "'a\\\\'", "\"\\\\\""]

PY_TEMPLATES = [
    "{v} = {f}({a}, {s}) + {g}[{s2}] * {a}",
    "raise self.StepError({s}, {s2})",
    "yield self.StateComputed(t=self.t, time_id={s}, component_id={s2}, state_component={v} + {f}({a}))",
    "{v} = {s} + {s2}",
    "if {f}({s}) == {s2}:",
    "for {v} in range({a}, {f}({a})):",
    "raise self.TransitionEvent({s})",
    "{v} = {f}({a}) + {f}({a} * 2) + {f}({a} * 3) + {f}({a} * 4) + {f}({a} * 5) + {g}({s})",
    "{v} = [{s}, {s2}, {a}]",
    "{v}[{s}] = ({a}, {s2})",
]
F_TEMPLATES = [
    "write(*,*) {s}, {v}",
    "write(dagrt_stderr,*) {s}",
    "call {f}({a}, {s})",
    "{v} = {s} // {s2}",
    "{v} = {f}({a}) + {f}({a} * 2) + {f}({a} * 3) + {f}({a} * 4) + {f}({a} * 5)",
    "if ({v} == {s}) then",
    "dagrt_nan_str = {s}",
    "{v} = merge({s}, {s2}, {a} > 0)",
]
NAMES = ["x", "self.global_state_y", "dagrt_state%dagrt_phase_primary_count", "tmp_0", "y"]
FUNCS = ["f", "self._functions.func_rhs", "g", "numpy.linalg.norm"]
TEXTS = ["y", "final", "a b", "a  b", "the component with a long name", "", "it's", 'say "hi"', "a\\b",
         "it's \"too  small", "x &", "primary phase", "  lead", "trail  ", "a\tb", "! no comment", "# no comment",
         "step rejected! halving the step size", "D:\\runs\\"]


def py_lit(rng, text):
    return repr(text)


def f_lit(rng, text):
    q = rng.choice(QUOTES)
    return q + text.replace(q, q + q) + q


def statement(rng, target):
    tpl = rng.choice(PY_TEMPLATES if target == "python" else F_TEMPLATES)
    lit = py_lit if target == "python" else f_lit
    texts = TEXTS if target == "python" else [t for t in TEXTS if "\t" not in t]
    return tpl.format(v=rng.choice(NAMES), a=rng.choice(NAMES), f=rng.choice(FUNCS), g=rng.choice(FUNCS),
                      s=lit(rng, rng.choice(texts)), s2=lit(rng, rng.choice(texts)))


def random_line(rng):
    n = rng.randint(0, 30)
    parts = []
    if rng.random() < 0.2:
        parts.append(rng.choice([" ", "  ", "\t"]))
    for i in range(n):
        parts.append(rng.choice(POOL))
        if i < n - 1 or rng.random() < 0.2:
            parts.append(rng.choice([" ", " ", " ", "  ", "\t", " \t ", "   "]))
    return "".join(parts)


def corpus():
    out = []
    d = os.path.join(common.VERIF, "corpus", PID)
    if os.path.isdir(d):
        for f in sorted(os.listdir(d)):
            if f.endswith(".json"):
                c = json.load(open(os.path.join(d, f)))
                out.append(norm_case(c["case"]))
    return out


def norm_case(c):
    if c.get("site") == "emit":
        if c["target"] == "fortran":
            return dict(site="emit", target="fortran", line=c["line"])
        return dict(site="emit", target="python", line=c["line"], clevel=int(c.get("clevel", 1)),
                    elevel=int(c.get("elevel", 1)))
    return dict(target=c["target"], line=c["line"], level=int(c.get("level", 0)),
                width=c.get("width"), indentation=c.get("indentation"))


def gen_cases(tier, seed):
    rng = random.Random(seed * 7919 + 20)
    _generator_runs.clear()
    cases = list(corpus())
    dist = {"corpus": len(cases)}
    # exhaustive small scope
    seqs = [()]
    full = 3 if tier == "quick" else 4
    for n in range(1, full + 1):
        seqs += list(itertools.product(ALPHABET, repeat=n))
    n_full = len(seqs)
    if tier == "quick":
        four = list(itertools.product(ALPHABET, repeat=4))
        seqs += rng.sample(four, 50)
    n0 = len(cases)
    for s in seqs:
        line = " ".join(s)
        for target in ("python", "fortran"):
            for level in range(4):
                for width in range(8, 25):
                    cases.append(dict(target=target, line=line, level=level, width=width, indentation=None))
    dist["exhaustive"] = len(cases) - n0
    dist["exhaustive_scope"] = ("all sequences of <= %d tokens over %r (+ %d sampled 4-token sequences) x levels 0-3 x "
                                "widths 8-24 x {python, fortran}" % (full, ALPHABET, len(seqs) - n_full))
    # random long lines, random level / width / indentation
    n0 = len(cases)
    nrand = 3000 if tier == "quick" else 40000
    for _ in range(nrand):
        cases.append(dict(target=rng.choice(["python", "fortran"]), line=random_line(rng),
                          level=rng.randint(0, 6),
                          width=rng.choice([None, None, rng.randint(-3, 100), rng.randint(20, 60)]),
                          indentation=rng.choice([None, None, "", " ", "  ", "    ", "\t"])))
    dist["random_lines"] = len(cases) - n0
    # statements of the two target languages
    n0 = len(cases)
    nst = 1200 if tier == "quick" else 20000
    for _ in range(nst):
        target = rng.choice(["python", "fortran"])
        cases.append(dict(target=target, line=statement(rng, target), level=rng.randint(0, 5),
                          width=rng.choice([None, None, None, rng.randint(30, 70)]), indentation=None))
    dist["statements"] = len(cases) - n0
    # lines the real code generators pass to wrap_line
    n0 = len(cases)
    gen_errors = []
    for target, fn in (("python", generator_lines_python), ("fortran", generator_lines_fortran)):
        try:
            seen = set()
            for line, level in fn(rng, 3 if tier == "quick" else 12):
                if (line, level) not in seen:
                    seen.add((line, level))
                    cases.append(dict(target=target, line=line, level=level, width=None, indentation=None))
        except Exception as ex:  # noqa: BLE001
            gen_errors.append("%s generator: %s: %s" % (target, type(ex).__name__, ex))
    dist["generator_lines"] = len(cases) - n0
    if gen_errors:
        dist["generator_errors"] = gen_errors
    # emission sites
    ecases, edist, efail = gen_emit_cases(tier, rng, _generator_runs)
    known = {(c.get("site"), c["target"], c["line"], c.get("clevel"), c.get("elevel")) for c in cases}
    for c in ecases:
        if (c["site"], c["target"], c["line"], c.get("clevel"), c.get("elevel")) not in known:
            cases.append(c)
    dist.update(edist)
    _text_failures[:] = efail
    return cases, dist


_generator_runs = {}      # filled by generator_lines_*: texts returned by the real generators
_text_failures = []       # failures found by the oracles that look at whole returned texts

# ------------------------------------------------------------------ emission-site cases

BANG_TEXTS = ["step rejected! halving the step size", "step size underflow! giving up after too many rejections",
              "! no comment", "done!", "a 'quoted' word!", "wait & see!"]
COMMENT_WORDS = ["{{{", "}}}", "instrumentation", "initialize", "scalar", "outputs", "to", "NaN", "it's", "&", "!",
                 "'open", "x = f(a) + 'b c'", "vim:foldmethod=marker:filetype=fortran", "<state>y", "a  b"]
F_DECLS = [
    "character (len=*), parameter :: {v} = {s}, {v}2 = {s2}",
    "write(*,*) {s}, {a}, {s2}",
    "write (dagrt_stderr,*) {s}",
    "if ({a} > 0) write(*,*) {s}, {s2}, {a}",
    "call {f}({a}, {s}, {a}, {s2}, {a}, {a}, {a})",
    "{v} = {s} // {s2} // {s} // {s2}",
]
F_PREAMBLES = [
    """
    ! messages used by the user-supplied right-hand sides
    character (len=*), parameter :: msg_reject = 'step rejected! halving the step size', msg_giveup = 'step size underflow! giving up after too many rejections'
    character (len=*), parameter :: msg_accept = 'step accepted, doubling the step size', msg_done = 'final time reached, writing the restart files'
        ! an indented comment line that is much longer than the width of eighty columns, and must not be wrapped at all & never
    integer, parameter :: n_messages = 4
    """,
    """
    use iso_c_binding
    real (kind=8), parameter :: tolerances(6) = (/ 1.0d-3, 1.0d-4, 1.0d-5, 1.0d-6, 1.0d-7, 1.0d-8 /), safety = 0.9d0
    character (len=*), parameter :: banner = "dagrt says: it's done!", sep = '----------------------------------------'
    """,
]
F_TEMPLATE_EXTRA = [
    "write(*,*) 'rhs evaluated! component y of the state, a rather long message that has to be wrapped', ${y}(1)",
    "! user template comment with a 'quote and some more words to make the comment longer than eighty columns",
    "if (${y}(1) > 1.0d10) write(*,*) 'blow-up!', ${y}(1), ${y}(2), ${y}(3), ${y}(4), ${y}(5), ${y}(6), ${y}(7)",
]


def fortran_line(rng):
    """One entry of module_emitter.code."""
    lead = " " * rng.choice([0, 0, 1, 2, 3, 4, 4, 5, 7, 8, 8, 12, 16, 20, 24, 33])
    k = rng.random()
    if k < 0.18:                  # comment line (leading blanks, any length, quotes, marker at the end)
        n = rng.choice([0, 1, 3, 8, 14, 25])
        body = "!" + rng.choice(["", " ", "  "]) + " ".join(rng.choice(COMMENT_WORDS + NAMES) for _ in range(n))
        return lead + body
    if k < 0.55:                  # statement with `!` (and other texts) inside character literals
        tpl = rng.choice(F_DECLS + F_TEMPLATES)
        texts = BANG_TEXTS if rng.random() < 0.7 else [t for t in TEXTS if "\t" not in t]
        return lead + tpl.format(v=rng.choice(NAMES), a=rng.choice(NAMES), f=rng.choice(FUNCS), g=rng.choice(FUNCS),
                                 s=f_lit(rng, rng.choice(texts)), s2=f_lit(rng, rng.choice(texts)))
    if k < 0.70:
        return lead + statement(rng, "fortran")
    if k < 0.78:                  # long tokens
        t = "x" * rng.choice([30, 75, 79, 80, 81, 120])
        return lead + " ".join(rng.choice([t, "=", "'" + t + "!'", "y", t[:40]]) for _ in range(rng.randint(1, 4)))
    if k < 0.84:                  # statement with a trailing comment (short: never wrapped by today's generator)
        return lead + rng.choice(["999 continue ! exit label", "stop ! done", "x = 1 ! it is one",
                                  "integer :: n_steps_between_outputs ! the number of steps between two outputs, "
                                  "a trailing comment that is long",
                                  statement(rng, "fortran") + " ! " + " ".join(rng.choice(NAMES) for _ in range(6))])
    return lead + random_line(rng)


def fortran_line_ok(rng):
    """fortran_line that the generator can emit (all literals terminated)."""
    while True:
        l = fortran_line(rng).lstrip(" ")
        if "\t" not in l and (is_comment_line("fortran", l) or ref_lex("fortran", l) is not None):
            return l


def scripted_fortran_module(rng, k):
    """Feed lines to the real emitters of a real CodeGenerator (module, subroutine, if, do blocks, a
    multi-line template) and return (module_emitter.code, get_code())."""
    import dagrt.codegen.fortran as F
    cg = F.CodeGenerator("scripted%d" % k, user_type_map={})
    for _ in range(rng.randint(0, 3)):
        cg.emit(fortran_line_ok(rng))
    with F.FortranSubroutineEmitter(cg.emitter, "s%d" % k, ("a", "b"), cg):
        for _ in range(rng.randint(1, 5)):
            cg.emit(fortran_line_ok(rng))
        with F.FortranIfEmitter(cg.emitter, "a > b", cg) as ife:
            for _ in range(rng.randint(1, 4)):
                cg.emit(fortran_line_ok(rng))
            with F.FortranDoEmitter(cg.emitter, "i", "1, 10", cg):
                for _ in range(rng.randint(1, 4)):
                    cg.emit(fortran_line_ok(rng))
                # a multi-line template (common indentation removed by the emitter)
                first = "      " + (fortran_line_ok(rng) or "continue")
                cg.emit("\n" + first + "\n" + "".join("      " + "  " * rng.randint(0, 2) + fortran_line_ok(rng) + "\n"
                                                      for _ in range(rng.randint(1, 3))))
            ife.emit_else()
            cg.emit(fortran_line_ok(rng))
    return list(cg.module_emitter.code), cg.get_code()


def gen_emit_cases(tier, rng, generator_runs):
    """Cases for the emission sites.  generator_runs: dict(fortran=[(code, text)], python=[(calls, text)]) from
    the real generators.  Returns (cases, dist, failures) with failures = [(case, result, oracle)] found
    by the oracles that look at whole returned texts."""
    cases, dist, failures = [], {}, []
    seen = set()

    def add(c):
        key = (c["target"], c["line"], c.get("clevel"), c.get("elevel"))
        if key not in seen:
            seen.add(key)
            cases.append(c)

    def fcase(line):
        return dict(site="emit", target="fortran", line=line)

    def pcase(line, cl=1, el=1):
        return dict(site="emit", target="python", line=line, clevel=cl, elevel=el)

    nf = 900 if tier == "quick" else 12000
    for _ in range(nf):
        add(fcase(fortran_line(rng)))
    dist["emit_fortran_lines"] = len(cases)
    n0 = len(cases)
    for _ in range(900 if tier == "quick" else 12000):
        k = rng.random()
        line = statement(rng, "python") if k < 0.6 else random_line(rng) if k < 0.9 else \
            "x = " + " + ".join("f('%s')" % rng.choice(BANG_TEXTS + ["# no comment"]) for _ in range(rng.randint(1, 6)))
        add(pcase(line, rng.choice([1, 1, 1, 1, 0, 2]), rng.choice([1, 1, 2, 2, 3, 4, 6, 0])))
    dist["emit_python_lines"] = len(cases) - n0

    # whole module texts: scripted use of the real emitters, and the real generators
    n0 = len(cases)
    n_mod = n_lines = 0
    mod_errors = []
    for k in range(12 if tier == "quick" else 150):
        try:
            code, text = scripted_fortran_module(rng, k)
        except ValueError:
            continue                       # an unterminated literal in a fed line: judged per line below
        except Exception as ex:  # noqa: BLE001
            mod_errors.append("scripted module %d: %s: %s" % (k, type(ex).__name__, ex))
            continue
        generator_runs.setdefault("fortran", []).append((code, text))
    for code, text in generator_runs.get("fortran", []):
        n_mod += 1
        n_lines += len(code)
        failures += module_oracle("fortran", code, text, fcase)
        for src in code:
            add(fcase(src))
    dist["emit_fortran_module_texts"] = n_mod
    dist["emit_fortran_module_source_lines"] = n_lines
    n_py = 0
    for calls, text in generator_runs.get("python", []):
        n_py += 1
        for name, ll in calls.items():
            for line, cl, el in ll:
                add(pcase(line, cl, el))
        for pr in python_text_oracle(text, {n: [x[0] for x in ll] for n, ll in calls.items()}):
            cands = calls.get(pr.get("function"), [])
            words = set((pr.get("physical_line") or "").split())
            hit = None
            for x in cands:                 # the emitted line that fails on its own, if there is one
                cx = pcase(*x)
                ox = oracle_emit(cx, run_emit(cx))
                if ox is not None and ox["kind"] == pr["kind"]:
                    hit = x
                    break
            if hit is None:
                hit = next((x for x in cands if words & set(x[0].split())), cands[0] if cands else ("", 1, 1))
            c = pcase(*hit)
            failures.append((c, run_emit(c), dict(pr, seen_in="class text returned by the Python generator")))
    dist["emit_python_class_texts"] = n_py
    dist["emit_lines_from_module_texts"] = len(cases) - n0
    if mod_errors:
        dist["emit_module_errors"] = mod_errors
    return cases, dist, failures


# ------------------------------------------------------------------ lines of the real generators

class _Underflow(RuntimeError):
    pass


_Underflow.__name__ = "TimeStepUnderflow"


def _program(rng, texts, long_expr, fortran=False):
    from dagrt.language import CodeBuilder, DAGCode
    from pymbolic import var
    comp = "ytype" if fortran else rng.choice(texts)
    with CodeBuilder(name="primary") as cb:
        cb("y", "<state>y")
        e = var("y")
        for i in range(1, long_expr + 1):
            e = e + var("<func>f")(0, var("y") * i)
        cb("<state>y", e)
        with cb.if_(var("<t>"), ">", 100):
            cb.raise_(_Underflow, rng.choice(texts))
        with cb.if_(var("<t>"), ">", 50):
            with cb.if_(var("<dt>"), ">", 5):
                cb.yield_state(var("<state>y") if fortran else e, comp, var("<t>"),
                               "final" if fortran else rng.choice(texts))
        cb.yield_state(var("<state>y"), comp, var("<t>"), "final")
        cb.switch_phase("secondary")
    with CodeBuilder(name="secondary") as cb2:
        cb2("<state>y", "2*<state>y")
        cb2.switch_phase("primary")
    return DAGCode.from_phases_list(
        [cb.as_execution_phase("secondary"), cb2.as_execution_phase("primary")], "primary")


def _spy(mod, sink):
    orig = mod.wrap_line

    def spy(line, level=0, **kw):
        sink.append((line, level))
        return orig(line, level, **kw)
    return orig, spy


def generator_lines_python(rng, nprog):
    import dagrt.codegen.python as P
    texts = ["y", "final", "a b", "the component with a long name", "a  b", "it's", "it's \"too  small"]
    sink = []
    orig, spy = _spy(P, sink)
    P.wrap_line = spy
    try:
        for k in range(nprog):
            code = _program(rng, texts if k else texts[:2], long_expr=rng.randint(1, 10))
            cg = P.CodeGenerator(class_name="Method")
            calls = {}

            def spy_emit(line, cg=cg, calls=calls, emit=cg._emit):
                calls.setdefault(cg._emitter.name, []).append(
                    (line, cg._class_emitter.level, cg._emitter.level))
                return emit(line)
            cg._emit = spy_emit
            try:
                text = cg(code)
                _generator_runs.setdefault("python", []).append((calls, text))
            except ValueError:
                pass        # the generator itself fails on such a text; the line is in sink and is judged there
    finally:
        P.wrap_line = orig
    return sink


def generator_lines_fortran(rng, nprog):
    import dagrt.codegen.fortran as F
    from dagrt.function_registry import base_function_registry, register_ode_rhs
    texts = ["underflow", "a b", "it's  too small", "step rejected! halving the step size and trying once more, "
             "this message is longer than the width"]
    sink = []
    orig, spy = _spy(F, sink)
    F.wrap_line = spy
    try:
        for k in range(max(2, nprog // 3)):
            code = _program(rng, texts, long_expr=rng.randint(1, 8), fortran=True)
            freg = register_ode_rhs(base_function_registry, "ytype", identifier="<func>f", input_names=("y",))
            tpl = "\n" + "".join(x + "\n" for x in F_TEMPLATE_EXTRA[:k % (len(F_TEMPLATE_EXTRA) + 1)]) \
                + "${result} = -2*${y}\n"
            freg = freg.register_codegen("<func>f", "fortran", F.CallCode(tpl))
            cg = F.CodeGenerator("mod%d" % k, function_registry=freg,
                                 user_type_map={"ytype": F.ArrayType((100,), F.BuiltinType("real*8"))},
                                 module_preamble=F_PREAMBLES[k % len(F_PREAMBLES)], trace=bool(k % 2 == 0),
                                 timing_function="second", emit_instrumentation=bool(k % 2 == 0))
            text = cg(code)
            _generator_runs.setdefault("fortran", []).append((list(cg.module_emitter.code), text))
    finally:
        F.wrap_line = orig
    return sink


# ------------------------------------------------------------------ Coq side

def coq_str(s):
    """A Coq term of type str.  Coq elaborates string literals at ~150 us per character, so the
    bytes are packed seven to a primitive 63-bit integer and unpacked inside vm_compute."""
    b = s.encode("latin1")           # raises for characters the 8-bit model cannot hold
    ints = [int.from_bytes(b[i:i + 7], "little") for i in range(0, len(b), 7)]
    return "(dec %d [%s]%%uint63)" % (len(b), "; ".join(map(str, ints)))


def coq_z(n):
    return "(%d)" % n if n < 0 else str(n)


HEADER = (
    "From Coq Require Import List String Ascii ZArith Bool Uint63.\nImport ListNotations.\n"
    "From Dagrt Require Import GenC20 Wrap WrapEmit.\nOpen Scope list_scope.\nOpen Scope Z_scope.\n"
    "Definition byte_of (x : int) : ascii := ascii_of_N (Z.to_N (Uint63.to_Z x)).\n"
    "Fixpoint unpack7 (n : nat) (x : int) : str :=\n"
    "  match n with O => [] | S k => byte_of (Uint63.land x 255%uint63) :: unpack7 k (Uint63.lsr x 8%uint63) end.\n"
    "Definition dec (len : nat) (l : list int) : str := firstn len (flat_map (unpack7 7) l).\n"
    "Definition run (py : bool) (line : str) (ind : option str) (lvl : nat) (w : Z) : wrapres :=\n"
    "  wrap_line_base (lex_of (if py then python_lex else fortran_lex))\n"
    "    (pad_with (if py then python_marker else fortran_marker)) line lvl w\n"
    "    (match ind with Some i => i | None => Str (if py then default_indentation else fortran_indentation) end).\n"
    "Definition same (r : wrapres) (e : option (list str)) : bool :=\n"
    "  match r, e with WrapOk a, Some b => strs_eqb a b | WrapValueError, None => true | _, _ => false end.\n"
    "Definition wcase := (bool * str * option str * list (option (list str) * list (nat * Z)))%type.\n"
    "Definition chkw (c : wcase) : bool :=\n"
    "  let '(py, line, ind, groups) := c in\n"
    "  forallb (fun g => forallb (fun lw => same (run py line ind (fst lw) (snd lw)) (fst g)) (snd g)) groups.\n"
    "(* emission sites: the physical lines of the returned text that come from one source line *)\n"
    "Definition erun (py : bool) (cl el : nat) (line : str) : emitres :=\n"
    "  if py then python_emit python_lex python_marker emitter_indent_amount (Str default_indentation)\n"
    "                         default_width cl el line\n"
    "  else fortran_emit_line fortran_lex fortran_marker fortran_comment fortran_indent_spaces default_width line.\n"
    "Definition esame (r : emitres) (e : option (list str)) : bool :=\n"
    "  match r, e with EmitOk a, Some b => strs_eqb a b | EmitValueError, None => true | _, _ => false end.\n"
    "Definition ecase := (bool * (nat * nat) * str * option (list str))%type.\n"
    "Definition chke (c : ecase) : bool :=\n"
    "  let '(py, lv, line, e) := c in esame (erun py (fst lv) (snd lv) line) e.\n"
    "Definition W (c : wcase) : wcase + ecase := inl c.\n"
    "Definition E (c : ecase) : wcase + ecase := inr c.\n"
    "Definition chk (c : wcase + ecase) : bool := match c with inl w => chkw w | inr e => chke e end.\n")


def build_terms(cases, results):
    """Group the cases by (target, line, indentation); inside a group, by expected output.
    Returns (terms, members) where members[i] = indices of the cases covered by term i."""
    groups = {}
    skipped = 0
    eterms, emembers = [], []
    for i, (c, r) in enumerate(zip(cases, results)):
        if (r[0] == "exc" and r[1] != "ValueError") or r[0] == "frame":
            skipped += 1
            continue                      # no such outcome in the model: reported by the oracles
        try:
            coq_str(c["line"])
        except UnicodeEncodeError:
            skipped += 1
            continue
        if c.get("site") == "emit":
            if "\n" in c["line"]:
                skipped += 1              # pytools' emitter splits the text at newlines: not modelled (EmitNewline)
                continue
            try:
                e = "(@None (list str))" if r[0] == "exc" else "(Some [%s])" % "; ".join(coq_str(x) for x in r[1])
            except UnicodeEncodeError:
                skipped += 1
                continue
            eterms.append("(E (%s, (%d%%nat, %d%%nat), %s, %s))" % (
                "true" if c["target"] == "python" else "false", c.get("clevel", 0), c.get("elevel", 0),
                coq_str(c["line"]), e))
            emembers.append([i])
            continue
        key = (c["target"], c["line"], c["indentation"])
        exp = None if r[0] == "exc" else tuple(r[1])
        groups.setdefault(key, {}).setdefault(exp, []).append(i)
    terms, members = [], []
    for (target, line, ind), byexp in groups.items():
        gs, idx = [], []
        for exp, ii in byexp.items():
            e = "(@None (list str))" if exp is None else "(Some [%s])" % "; ".join(coq_str(x) for x in exp)
            lw = "; ".join("(%d%%nat, %s)" % (cases[i]["level"],
                                             "default_width" if cases[i]["width"] is None else coq_z(cases[i]["width"]))
                           for i in ii)
            gs.append("(%s, [%s])" % (e, lw))
            idx += ii
        terms.append("(W (%s, %s, %s, [%s]))" % ("true" if target == "python" else "false", coq_str(line),
                                                "(@None str)" if ind is None else "(Some %s)" % coq_str(ind),
                                                "; ".join(gs)))
        members.append(idx)
    return terms + eterms, members + emembers, skipped


def balance(terms, members, shard):
    """Reorder so that consecutive chunks of `shard` terms (one coqc process each) have similar size."""
    order = sorted(range(len(terms)), key=lambda i: -len(terms[i]))
    k = max(1, -(-len(terms) // shard))
    buckets = [[] for _ in range(k)]
    for j, i in enumerate(order):
        r, q = divmod(j, k)
        buckets[q if r % 2 == 0 else k - 1 - q].append(i)
    flat = [i for b in buckets for i in b]
    return [terms[i] for i in flat], [members[i] for i in flat]


def model_term(case):
    if case.get("site") == "emit":
        return "erun %s %d%%nat %d%%nat %s" % ("true" if case["target"] == "python" else "false",
                                             case.get("clevel", 0), case.get("elevel", 0), coq_str(case["line"]))
    return "run %s %s %s %d%%nat %s" % (
        "true" if case["target"] == "python" else "false", coq_str(case["line"]),
        "(@None str)" if case["indentation"] is None else "(Some %s)" % coq_str(case["indentation"]),
        case["level"], "default_width" if case["width"] is None else coq_z(case["width"]))


# ------------------------------------------------------------------ shrinking

def size(case):
    if case.get("site") == "emit":
        return (len(case["line"]), case.get("clevel", 0) + case.get("elevel", 0), 0, 0)
    return (len(case["line"]), case["level"], 0 if case["width"] is None else 1,
            0 if case["indentation"] is None else 1)


def shrink(case, kind):
    def fails(c):
        r = run_impl(c)
        o = oracle(c, r)
        return o is not None and o["kind"] == kind and classify(c, r, o) is None

    changed = True
    while changed:
        changed = False
        cands = []
        words = case["line"].split(" ")
        for i in range(len(words)):
            cands.append(dict(case, line=" ".join(words[:i] + words[i + 1:])))
        if len(case["line"]) <= 60:
            for i in range(len(case["line"])):
                cands.append(dict(case, line=case["line"][:i] + case["line"][i + 1:]))
        if case.get("site") == "emit":
            if case["line"].startswith(" "):
                cands.append(dict(case, line=case["line"].lstrip(" ")))
                cands.append(dict(case, line=case["line"][1:]))
            if case.get("elevel", 0) > 1:
                cands.append(dict(case, elevel=case["elevel"] - 1))
        else:
            if case["level"] > 0:
                cands.append(dict(case, level=case["level"] - 1))
                cands.append(dict(case, level=0))
            if case["indentation"] is not None:
                cands.append(dict(case, indentation=None))
        for c in cands:
            if size(c) < size(case) and fails(c):
                case, changed = c, True
                break
    return case


# ------------------------------------------------------------------ the check

def main(tier):
    rep = common.Reporter(PID, tier)
    seed = common.seed()
    ps = common.proof_stage(rep, PID, gen=["c20"])
    f = facts()

    cases, dist = gen_cases(tier, seed)
    results = [run_impl(c) for c in cases]

    # implementation-level oracles on every case
    failing, known_hits = {}, {}
    n_target_applicable = n_ast = 0
    for c, r in zip(cases, results):
        if c.get("site") != "emit" and target_applies(c) is not None:
            n_target_applicable += 1
            if c["target"] == "python" and py_ast(c["line"]) is not None:
                n_ast += 1
        o = oracle(c, r)
        if o is None:
            continue
        entry = classify(c, r, o)
        if entry is not None:
            key = entry["class"]
            if key not in known_hits or size(c) < size(known_hits[key][0]):
                known_hits[key] = (c, r, o, entry)
            known_hits.setdefault("#" + key, [0])[0] += 1
            continue
        key = o["kind"] + ":" + c["target"]
        if key not in failing or size(c) < size(failing[key][0]):
            failing[key] = (c, r, o)
    for c, r, o in _text_failures:          # found in whole returned texts (module / class text oracles)
        entry = classify(c, r, o)
        if entry is not None:
            known_hits.setdefault(entry["class"], (c, r, o, entry))
            known_hits.setdefault("#" + entry["class"], [0])[0] += 1
            continue
        key = o["kind"] + ":" + c["target"]
        if key not in failing:              # a per-line case that fails on its own is the better replay
            failing[key] = (c, r, o)
    for key in sorted(k for k in known_hits if not k.startswith("#")):
        c, r, o, entry = known_hits[key]
        rep.known_finding(entry.get("line") or entry.get("what_fails"))
    for key, (c, r, o) in sorted(failing.items()):
        c2 = shrink(c, o["kind"])
        r2 = run_impl(c2)
        o2 = oracle(c2, r2)
        if o2 is None:                      # seen in a whole text only: keep what was seen there
            c2, r2, o2 = c, r, o
        rep.violation({"what": "the text returned by the code generator breaks the wrapping rules at an emission site"
                       if c2.get("site") == "emit" else "wrap_line changes more than the layout (or raises)",
                       "case": c2, "impl_result": r2, "oracle": o2,
                       "quote_patterns": sorted(quote_classes(c2)),
                       "tokenizer_in_tree": lexkind(c2["target"]),
                       "replay": "./check C20 --replay <this file>"})

    # correspondence with the Coq model
    n_eval, mism, errors, skipped = 0, [], [], 0
    if os.path.exists(os.path.join(common.COQ, "model", "Wrap.vo")) and os.path.exists(
            os.path.join(common.COQ, "gen", "GenC20.vo")):
        terms, members, skipped = build_terms(cases, results)
        shard = max(20, -(-len(terms) // (3 * common.NPROC)))
        terms, members = balance(terms, members, shard)
        bad, _, errors = common.eval_cases(PID, HEADER, terms, "chk", shard=shard)
        for t in bad:
            mism += members[t]
        n_eval = sum(len(mm) for mm in members)
    else:
        errors = ["model not built"]

    tie_broken = bool(mism or errors)
    if (not ps["ok"] or tie_broken) and not rep.violations:
        detail = {"what": "proof obligation or model/implementation correspondence no longer checks; "
                          "no failing input found by the implementation-level oracles",
                  "proof_stage": ps, "coq_errors": errors[:3], "translator_error": _facts.get("err")}
        if mism:
            # the cases of a term are compared together: find one that disagrees on its own
            first = None
            for i in mism[:40]:
                t1, _, _ = build_terms([cases[i]], [results[i]])
                b1, _, e1 = common.eval_cases(PID + "x", HEADER, t1, "chk")
                if b1 or e1:
                    first = i
                    break
            if first is None:
                first = mism[0]
            detail["first_disagreeing_case"] = {"case": cases[first], "impl_result": results[first],
                                                "model_result": common.eval_term(HEADER, model_term(cases[first]))}
            detail["n_cases_in_disagreeing_groups"] = len(mism)
        detail["broken"] = ("theorem file %s" % ps.get("theorem")) if not ps["ok"] else \
            "correspondence wrap_line ~ Dagrt.Wrap.wrap_line_base, get_code / _emit ~ Dagrt.WrapEmit"
        rep.violation(detail, no_input=True)
    elif not ps["ok"] or tie_broken:
        rep.coverage["broken_obligation"] = ps if not ps["ok"] else {"disagreeing_groups_cases": len(mism)}

    nontrivial = {(c.get("site"), c["target"], c["line"], c.get("level"), c.get("width"), c.get("indentation"),
                   c.get("clevel"), c.get("elevel"))
                  for c, r in zip(cases, results) if r[0] != "ok" or len(r[1]) > 1}
    emit_idx = [i for i, c in enumerate(cases) if c.get("site") == "emit"]
    n_comment = sum(1 for i in emit_idx if cases[i]["target"] == "fortran" and is_comment_line("fortran", cases[i]["line"]))
    n_bang = sum(1 for i in emit_idx if cases[i]["target"] == "fortran" and "!" in cases[i]["line"]
                 and not is_comment_line("fortran", cases[i]["line"]))
    pick = [0, len(cases) // 3, len(cases) // 2, len(cases) - 1] + emit_idx[:1] + emit_idx[-1:]
    rep.coverage.update(
        evaluations=len(cases), distinct_nontrivial=len(nontrivial),
        rule="cases = corpus + exhaustive small token sequences x levels x widths + random long lines (random "
             "level/width/indentation) + Python/Fortran statement families + lines the real generators pass to "
             "wrap_line + emission-site cases (source lines run through the real get_code / _emit and the texts "
             "returned by the real generators); non-trivial = the line is wrapped into >= 2 lines or the call "
             "raises; distinct by (site, target, line, level, width, indentation, emitter levels)",
        emission_site_cases=len(emit_idx),
        emission_site_cases_wrapped=sum(1 for i in emit_idx if results[i][0] == "ok" and len(results[i][1]) > 1),
        emission_site_fortran_comment_lines=n_comment,
        emission_site_fortran_statements_with_bang=n_bang,
        traces_validated_against_impl=n_eval, model_impl_disagreements=len(mism),
        cases_not_expressible_in_model=skipped,
        target_oracle_applicable=n_target_applicable, python_ast_compared=n_ast,
        known_finding_cases={k[1:]: v[0] for k, v in known_hits.items() if k.startswith("#")},
        tokenizer_in_tree={"python": f["python_lex"], "fortran": f["fortran_lex"]},
        input_distribution=dist,
        samples=[{"case": cases[i], "impl": results[i]} for i in pick],
        exhaustive=False,
    )
    rep.assumptions = [
        "ASCII input lines (Python's len() counts code points, the model 8-bit characters)",
        "token-level theorems: for every line, level, width, marker and whitespace indentation string",
        "target-level theorem (C20_layout_partial): only for lines on which the tokenizer in use agrees with the "
        "quote-aware tokenizer; refuted without that hypothesis for shlex (C20_layout_refuted_shlex)",
        "ast.parse / Fortran free-form lexing are not modelled in Coq: they are exercised by oracle B only",
        "oracle B and C20_tokens need a non-empty whitespace indentation string (both generators use blanks); "
        "no comment or continuation character outside string literals on the input line",
        "emission sites: the Python theorem (C20_emit_python) assumes no token consists only of characters that "
        "str.strip() removes but the tokenizer does not split at (VT, FF, FS..US, NEL, NBSP; witness "
        "C20_emit_python_blank_token_witness); lines with a newline inside a literal are an explicit unmodelled "
        "outcome (EmitNewline); the target-level part of oracle E is applied to lines without comment / "
        "continuation characters outside literals (a Fortran statement with a long trailing comment would be "
        "wrapped inside the comment; today's generator emits only `999 continue ! exit label`)",
    ]
    return rep.finish("proof")


def replay(path):
    r = json.load(open(path))
    c = r.get("case") or (r.get("first_disagreeing_case") or {}).get("case")
    if c is None:
        print("replay names a broken obligation, no input: %s" % r.get("broken"))
        return 1
    c = norm_case(c)
    res = run_impl(c)
    o = oracle(c, res)
    entry = classify(c, res, o) if o is not None else None
    print(json.dumps({"case": c, "impl_result": res, "oracle": o,
                      "known_finding": entry["class"] if entry else None}, indent=1))
    if r.get("first_disagreeing_case"):
        m = common.eval_term(HEADER, model_term(c))
        print("model: " + m)
        return 1
    return 1 if (o is not None and entry is None) else 0
