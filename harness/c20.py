"""C20: line wrapping of generated code changes layout only.

Tie: real dagrt.codegen.python.wrap_line / dagrt.codegen.fortran.wrap_line vs
coq/model/Wrap.v (evaluated with vm_compute, constants and the tokenizer kind from
coq/gen/GenC20.v) on an exhaustive small-scope stream, random long lines, statement
families of both target languages and the lines the two real code generators pass to
wrap_line for sample programs.

Oracles (independent of the model), run on every case:
  A  token level: the output lines are prefix + " ".join(consecutive tokens) + padding + marker,
     all tokens in order, each whole in one line, lines with >= 2 tokens fit the width, all but
     the last end with the marker in the padding column, continuation lines start with the
     indentation; the only exception is the tokenizer's ValueError.  Tokens are those of the
     standard library's shlex (or of a reference quote-aware splitter when the tree uses the
     repaired tokenizer).
  B  target level: what the target language reads (string literals whole, other characters in
     order, blanks outside literals ignored) is unchanged; Python statements parse to the same
     ast (ast.dump); Fortran continuation lines follow the free-form rules (& outside a
     character context, <= 255 continuation lines).
"""
import ast
import itertools
import json
import os
import random
import shlex
import warnings

from harness import common

warnings.filterwarnings("ignore", category=SyntaxWarning)      # ast.parse on lines that are not Python

PID = "C20"
WS = " \t\r\n"
QUOTES = "'\""

# ------------------------------------------------------------------ facts read from the tree


_facts = {}


def facts():
    if "f" not in _facts:
        from harness.tr import c20 as tr
        try:
            _facts["f"] = tr.facts(common.REPO)
            _facts["err"] = None
        except Exception as ex:  # noqa: BLE001 - fail closed: assume the unrepaired shape
            _facts["f"] = dict(width=80, indentation="    ", python_marker="\\", python_lex="LexShlex",
                               fortran_marker="&", fortran_lex="LexShlex", fortran_indentation=" ")
            _facts["err"] = "%s: %s" % (type(ex).__name__, ex)
    return _facts["f"]


def marker(target):
    return facts()["python_marker" if target == "python" else "fortran_marker"]


def lexkind(target):
    return facts()["python_lex" if target == "python" else "fortran_lex"]


def default_indentation(target):
    return facts()["indentation"] if target == "python" else facts()["fortran_indentation"]


# ------------------------------------------------------------------ the implementation

def _wrap(target):
    if target == "python":
        from dagrt.codegen.python import wrap_line
    else:
        from dagrt.codegen.fortran import wrap_line
    return wrap_line


def run_impl(case, lex_func=None):
    """case = dict(target, line, level, width (None = default), indentation (None = the generator's))."""
    kw = {}
    if case.get("width") is not None:
        kw["width"] = case["width"]
    ind = case.get("indentation")
    if ind is None and case["target"] == "fortran":
        ind = default_indentation("fortran")       # get_code passes indentation explicitly
    if ind is not None:
        kw["indentation"] = ind
    if lex_func is not None:
        kw["lex_func"] = lex_func
    try:
        out = _wrap(case["target"])(case["line"], case["level"], **kw)
    except Exception as ex:  # noqa: BLE001 - the class is the observable
        return ("exc", type(ex).__name__)
    if not isinstance(out, list) or not all(isinstance(x, str) for x in out):
        return ("exc", "Unrepresentable")
    return ("ok", out)


def eff(case):
    width = case["width"] if case.get("width") is not None else facts()["width"]
    ind = case["indentation"] if case.get("indentation") is not None else default_indentation(case["target"])
    return width, ind


# ------------------------------------------------------------------ reference readers (oracle side)

def ref_split(line, esc):
    """Quote-aware word splitter (reference; written from the target languages' rules)."""
    words, cur, q, i, n = [], "", None, 0, len(line)
    while i < n:
        c = line[i]
        if q is None:
            if c in WS:
                if cur:
                    words.append(cur)
                cur = ""
            else:
                cur += c
                if c in QUOTES:
                    q = c
        else:
            cur += c
            if esc and c == "\\":
                if i + 1 < n:
                    cur += line[i + 1]
                    i += 1
                else:
                    raise ValueError("No closing quotation")
            elif c == q:
                q = None
        i += 1
    if q is not None:
        raise ValueError("No closing quotation")
    if cur:
        words.append(cur)
    return words


def scan(line, target):
    """What the target language reads: list of ('lit', quote, body) / ('sym', char), or None when a
    literal is not terminated.  Python: backslash protects the next character inside a literal;
    Fortran: a doubled quote inside a literal is one character."""
    esc, dbl = (target == "python"), (target == "fortran")
    out, i, n = [], 0, len(line)
    while i < n:
        c = line[i]
        if c in WS:
            i += 1
        elif c in QUOTES:
            body, i = "", i + 1
            while True:
                if i >= n:
                    return None
                d = line[i]
                if esc and d == "\\":
                    if i + 1 >= n:
                        return None
                    body += d + line[i + 1]
                    i += 2
                elif d == c:
                    if dbl and i + 1 < n and line[i + 1] == c:
                        body += c
                        i += 2
                    else:
                        i += 1
                        break
                else:
                    body += d
                    i += 1
            out.append(("lit", c, body))
        else:
            out.append(("sym", c))
            i += 1
    return out


def target_reading(line, target):
    """scan(), or None when oracle B does not apply: a literal is not terminated, or a comment or
    continuation character stands outside the literals (the generators emit neither on wrapped lines;
    Fortran comment lines bypass wrap_line)."""
    items = scan(line, target)
    if items is None:
        return None
    special = "#\\" if target == "python" else "!&"
    if any(x[0] == "sym" and x[1] in special for x in items):
        return None
    return items


def ref_tokens(case):
    """Tokens of the input line by the tokenizer the tree is recognised to use, computed without
    the implementation: the standard library's shlex, or the reference splitter."""
    k = lexkind(case["target"])
    try:
        if k == "LexShlex":
            return shlex.split(case["line"], posix=False)
        return ref_split(case["line"], esc=(case["target"] == "python"))
    except ValueError:
        return None


def py_ast(src):
    """ast.dump of a Python statement; compound-statement headers get a body. None = not a statement."""
    for text in (src, src + "\n    pass", "if x:\n    pass\n" + src + "\n    pass",
                 "try:\n    pass\n" + src + "\n    pass"):
        try:
            return ast.dump(ast.parse(text))
        except (SyntaxError, ValueError):
            continue
    return None


def fortran_freeform(lines, m):
    """Free-form continuation rules for a statement given as physical lines (no leading & is used)."""
    if len(lines) > 256:
        return "more than 255 continuation lines"
    for i, l in enumerate(lines[:-1]):
        if not l.endswith(m):
            return "line %d does not end with the continuation marker" % i
        q, j, body = None, 0, l[:-1]
        while j < len(body):
            c = body[j]
            if q is None:
                if c in QUOTES:
                    q = c
                elif c == "!":
                    return "line %d: comment before the continuation marker" % i
            elif c == q:
                if j + 1 < len(body) and body[j + 1] == q:
                    j += 1
                else:
                    q = None
            j += 1
        if q is not None:
            return "line %d: continuation marker inside a character context" % i
        if i + 1 < len(lines) and lines[i + 1].lstrip(" ").startswith("&"):
            return "line %d starts with & (would join without the blank)" % (i + 1)
    return None


# ------------------------------------------------------------------ oracles

def oracle_tokens(case, result):
    """Oracle A.  Returns None or a dict(kind=..., detail=...)."""
    toks = ref_tokens(case)
    if result[0] == "exc":
        if result[1] == "ValueError" and toks is None:
            return None
        return {"kind": "exception", "exception": result[1],
                "detail": "wrap_line raised although the line tokenizes" if toks is not None
                else "wrap_line raised %s, the tokenizer's error is ValueError" % result[1]}
    if toks is None:
        return {"kind": "no-exception", "detail": "the tokenizer rejects the line (ValueError) but wrap_line returned"}
    lines = result[1]
    width, ind = eff(case)
    m = marker(case["target"])
    ilen = len(case["level"] * ind)
    pw = width - ilen
    if not lines:
        return {"kind": "structure", "detail": "no output line"}
    pos = 0
    for i, l in enumerate(lines):
        last = i == len(lines) - 1
        if not last:
            if not l.endswith(m):
                return {"kind": "continuation", "detail": "line %d does not end with the marker %r" % (i, m)}
            body = l[:-1]
            text = body.rstrip(" ")
            if body != text + " " * max(0, pw - 1 - len(text)):
                return {"kind": "continuation", "detail": "line %d: marker not in column %d" % (i, pw - 1)}
        else:
            text = l
        if i > 0:
            if not text.startswith(ind):
                return {"kind": "continuation", "detail": "line %d does not start with the indentation" % i}
            text = text[len(ind):]
        # the tokens of this line: the next consecutive run joined by single blanks
        j, acc = pos, None
        while j < len(toks):
            acc = toks[j] if acc is None else acc + " " + toks[j]
            j += 1
            if len(acc) >= len(text):
                break
        if (acc or "") != text:
            return {"kind": "tokens", "detail": "line %d is not the next tokens joined by single blanks "
                                                "(a token is split, dropped, reordered or altered)" % i,
                    "line_text": text, "next_tokens": toks[pos:pos + 4]}
        if j == pos and toks:
            return {"kind": "tokens", "detail": "line %d holds no token" % i}
        if j - pos >= 2 and ilen + len(l) > width:
            return {"kind": "width", "detail": "line %d holds %d tokens and is %d wide at indentation %d, width %d"
                                               % (i, j - pos, len(l), ilen, width)}
        pos = j
    if pos != len(toks):
        return {"kind": "tokens", "detail": "tokens after the last line are missing", "missing": toks[pos:pos + 4]}
    return None


def target_applies(case):
    """The target reading of the input line, or None when oracle B does not apply: not a statement the
    generators can emit (see target_reading), or the indentation string is empty / not whitespace
    (hypothesis ws_indent of C20_tokens: with an empty indentation string a line ending in `ab` + marker
    followed by `cd` joins to `abcd`; both generators use blanks)."""
    ind = eff(case)[1]
    if ind == "" or ind.strip(WS) != "":
        return None
    return target_reading(case["line"], case["target"])


def oracle_target(case, result):
    """Oracle B.  Returns None or a dict(kind=..., detail=...)."""
    target, line = case["target"], case["line"]
    want = target_applies(case)
    if want is None:
        return None
    if result[0] == "exc":
        return {"kind": "target-exception", "exception": result[1],
                "detail": "all string literals of the line are terminated, wrap_line raised"}
    lines = result[1]
    m = marker(target)
    joined = "".join([l[:-1] if l.endswith(m) else l for l in lines[:-1]] + lines[-1:])
    got = scan(joined, target)
    if got != want:
        return {"kind": "target-read", "detail": "the target language reads a different statement after wrapping",
                "unwrapped_reads": _show(want), "wrapped_reads": _show(got) if got is not None else None}
    if target == "python":
        a = py_ast(line)
        if a is not None:
            b = py_ast("\n".join(lines))
            if a != b:
                return {"kind": "python-ast", "detail": "ast.dump(ast.parse(...)) differs"
                        if b is not None else "the wrapped statement does not parse"}
    else:
        msg = fortran_freeform(lines, m)
        if msg:
            return {"kind": "fortran-freeform", "detail": msg}
    return None


def _show(items):
    return [x[1] + x[2] + x[1] if x[0] == "lit" else x[1] for x in items if x[0] == "lit"]


def oracle(case, result):
    return oracle_tokens(case, result) or oracle_target(case, result)


# ------------------------------------------------------------------ known-finding classes

def quote_classes(case):
    """Syntactic patterns on which shlex.split(posix=False) and the target language disagree."""
    line, target = case["line"], case["target"]
    out = set()
    # walk the line the way shlex does (posix=False) to find where quotes sit
    state = " "
    for i, c in enumerate(line):
        if state == " ":
            if c in WS:
                pass
            elif c in QUOTES:
                state = c
            else:
                state = "a"
        elif state == "a":
            if c in WS:
                state = " "
            elif c in QUOTES:
                out.add("midtoken-literal")        # a quote inside a word
        else:
            if c == state:
                state = " "
                if i + 1 < len(line) and line[i + 1] not in WS:
                    out.add("adjacent-quote")      # closing quote directly followed by a non-blank
            elif c == "\\" and target == "python":
                out.add("escaped-quote")           # backslash inside a quoted string
    return out


def known_entries():
    k = common.known_findings(PID)
    if not k:
        # the committed fragment (known_findings.json is assembled from it by harness.manifest)
        p = os.path.join(common.VERIF, "known_findings.d", PID + ".json")
        if os.path.exists(p):
            k = [f for f in json.load(open(p)) if f.get("status") == "open"]
    return {f.get("class"): f for f in k}


def classify(case, result, o):
    """A target-level failure is a known finding iff the tree still tokenizes with shlex, the line
    shows one of the listed quote patterns, an open entry names that pattern, and the very same
    call with a quote-aware tokenizer passes both oracles (so nothing but the tokenizer choice is
    at fault)."""
    if o["kind"] not in ("target-read", "python-ast", "fortran-freeform", "target-exception"):
        return None
    if lexkind(case["target"]) != "LexShlex":
        return None
    cls = quote_classes(case)
    if not cls:
        return None
    known = known_entries()
    esc = case["target"] == "python"
    r2 = run_impl(case, lex_func=lambda s: ref_split(s, esc))
    if oracle_target(case, r2) is not None:
        return None
    for c in sorted(cls):
        if c in known:
            return known[c]
    return None


# ------------------------------------------------------------------ case generation

ALPHABET = ["ab", "+", "'a b'", '"c  d"', "''", "abcdefghijkl"]

POOL = ["x", "y1", "=", "+", "*", "//", "==", "(", ")", "f(x,", "g(a)", "self.t", "dagrt_state%y",
        "'a b'", '"c d"', "'a  b c'", "''", '""', "'q'", "f('a", "b')", "g(\"u", "v\")", "x='a", "'it''s'",
        "'it\\'s'", "\"a\\\"", "a'b", "c'd", "averyveryverylongidentifier_0123456789", "'&'", "'\\'",
        "write(*,*)", "'phase primary count:',", "yield", "component_id='y',", "'x y'z", "'! #'"]

PY_TEMPLATES = [
    "{v} = {f}({a}, {s}) + {g}[{s2}] * {a}",
    "raise self.StepError({s}, {s2})",
    "yield self.StateComputed(t=self.t, time_id={s}, component_id={s2}, state_component={v} + {f}({a}))",
    "{v} = {s} + {s2}",
    "if {f}({s}) == {s2}:",
    "for {v} in range({a}, {f}({a})):",
    "raise self.TransitionEvent({s})",
    "{v} = {f}({a}) + {f}({a} * 2) + {f}({a} * 3) + {f}({a} * 4) + {f}({a} * 5) + {g}({s})",
    "{v} = [{s}, {s2}, {a}]",
    "{v}[{s}] = ({a}, {s2})",
]
F_TEMPLATES = [
    "write(*,*) {s}, {v}",
    "write(dagrt_stderr,*) {s}",
    "call {f}({a}, {s})",
    "{v} = {s} // {s2}",
    "{v} = {f}({a}) + {f}({a} * 2) + {f}({a} * 3) + {f}({a} * 4) + {f}({a} * 5)",
    "if ({v} == {s}) then",
    "dagrt_nan_str = {s}",
    "{v} = merge({s}, {s2}, {a} > 0)",
]
NAMES = ["x", "self.global_state_y", "dagrt_state%dagrt_phase_primary_count", "tmp_0", "y"]
FUNCS = ["f", "self._functions.func_rhs", "g", "numpy.linalg.norm"]
TEXTS = ["y", "final", "a b", "a  b", "the component with a long name", "", "it's", 'say "hi"', "a\\b",
         "it's \"too  small", "x &", "primary phase", "  lead", "trail  ", "a\tb", "! no comment", "# no comment"]


def py_lit(rng, text):
    return repr(text)


def f_lit(rng, text):
    q = rng.choice(QUOTES)
    return q + text.replace(q, q + q) + q


def statement(rng, target):
    tpl = rng.choice(PY_TEMPLATES if target == "python" else F_TEMPLATES)
    lit = py_lit if target == "python" else f_lit
    texts = TEXTS if target == "python" else [t for t in TEXTS if "\t" not in t]
    return tpl.format(v=rng.choice(NAMES), a=rng.choice(NAMES), f=rng.choice(FUNCS), g=rng.choice(FUNCS),
                      s=lit(rng, rng.choice(texts)), s2=lit(rng, rng.choice(texts)))


def random_line(rng):
    n = rng.randint(0, 30)
    parts = []
    if rng.random() < 0.2:
        parts.append(rng.choice([" ", "  ", "\t"]))
    for i in range(n):
        parts.append(rng.choice(POOL))
        if i < n - 1 or rng.random() < 0.2:
            parts.append(rng.choice([" ", " ", " ", "  ", "\t", " \t ", "   "]))
    return "".join(parts)


def corpus():
    out = []
    d = os.path.join(common.VERIF, "corpus", PID)
    if os.path.isdir(d):
        for f in sorted(os.listdir(d)):
            if f.endswith(".json"):
                c = json.load(open(os.path.join(d, f)))
                out.append(norm_case(c["case"]))
    return out


def norm_case(c):
    return dict(target=c["target"], line=c["line"], level=int(c.get("level", 0)),
                width=c.get("width"), indentation=c.get("indentation"))


def gen_cases(tier, seed):
    rng = random.Random(seed * 7919 + 20)
    cases = list(corpus())
    dist = {"corpus": len(cases)}
    # exhaustive small scope
    seqs = [()]
    full = 3 if tier == "quick" else 4
    for n in range(1, full + 1):
        seqs += list(itertools.product(ALPHABET, repeat=n))
    n_full = len(seqs)
    if tier == "quick":
        four = list(itertools.product(ALPHABET, repeat=4))
        seqs += rng.sample(four, 50)
    n0 = len(cases)
    for s in seqs:
        line = " ".join(s)
        for target in ("python", "fortran"):
            for level in range(4):
                for width in range(8, 25):
                    cases.append(dict(target=target, line=line, level=level, width=width, indentation=None))
    dist["exhaustive"] = len(cases) - n0
    dist["exhaustive_scope"] = ("all sequences of <= %d tokens over %r (+ %d sampled 4-token sequences) x levels 0-3 x "
                                "widths 8-24 x {python, fortran}" % (full, ALPHABET, len(seqs) - n_full))
    # random long lines, random level / width / indentation
    n0 = len(cases)
    nrand = 3000 if tier == "quick" else 40000
    for _ in range(nrand):
        cases.append(dict(target=rng.choice(["python", "fortran"]), line=random_line(rng),
                          level=rng.randint(0, 6),
                          width=rng.choice([None, None, rng.randint(-3, 100), rng.randint(20, 60)]),
                          indentation=rng.choice([None, None, "", " ", "  ", "    ", "\t"])))
    dist["random_lines"] = len(cases) - n0
    # statements of the two target languages
    n0 = len(cases)
    nst = 1200 if tier == "quick" else 20000
    for _ in range(nst):
        target = rng.choice(["python", "fortran"])
        cases.append(dict(target=target, line=statement(rng, target), level=rng.randint(0, 5),
                          width=rng.choice([None, None, None, rng.randint(30, 70)]), indentation=None))
    dist["statements"] = len(cases) - n0
    # lines the real code generators pass to wrap_line
    n0 = len(cases)
    gen_errors = []
    for target, fn in (("python", generator_lines_python), ("fortran", generator_lines_fortran)):
        try:
            seen = set()
            for line, level in fn(rng, 3 if tier == "quick" else 12):
                if (line, level) not in seen:
                    seen.add((line, level))
                    cases.append(dict(target=target, line=line, level=level, width=None, indentation=None))
        except Exception as ex:  # noqa: BLE001
            gen_errors.append("%s generator: %s: %s" % (target, type(ex).__name__, ex))
    dist["generator_lines"] = len(cases) - n0
    if gen_errors:
        dist["generator_errors"] = gen_errors
    return cases, dist


# ------------------------------------------------------------------ lines of the real generators

class _Underflow(RuntimeError):
    pass


_Underflow.__name__ = "TimeStepUnderflow"


def _program(rng, texts, long_expr, fortran=False):
    from dagrt.language import CodeBuilder, DAGCode
    from pymbolic import var
    comp = "ytype" if fortran else rng.choice(texts)
    with CodeBuilder(name="primary") as cb:
        cb("y", "<state>y")
        e = var("y")
        for i in range(1, long_expr + 1):
            e = e + var("<func>f")(0, var("y") * i)
        cb("<state>y", e)
        with cb.if_(var("<t>"), ">", 100):
            cb.raise_(_Underflow, rng.choice(texts))
        with cb.if_(var("<t>"), ">", 50):
            with cb.if_(var("<dt>"), ">", 5):
                cb.yield_state(var("<state>y") if fortran else e, comp, var("<t>"),
                               "final" if fortran else rng.choice(texts))
        cb.yield_state(var("<state>y"), comp, var("<t>"), "final")
        cb.switch_phase("secondary")
    with CodeBuilder(name="secondary") as cb2:
        cb2("<state>y", "2*<state>y")
        cb2.switch_phase("primary")
    return DAGCode.from_phases_list(
        [cb.as_execution_phase("secondary"), cb2.as_execution_phase("primary")], "primary")


def _spy(mod, sink):
    orig = mod.wrap_line

    def spy(line, level=0, **kw):
        sink.append((line, level))
        return orig(line, level, **kw)
    return orig, spy


def generator_lines_python(rng, nprog):
    import dagrt.codegen.python as P
    texts = ["y", "final", "a b", "the component with a long name", "a  b", "it's", "it's \"too  small"]
    sink = []
    orig, spy = _spy(P, sink)
    P.wrap_line = spy
    try:
        for k in range(nprog):
            code = _program(rng, texts if k else texts[:2], long_expr=rng.randint(1, 10))
            try:
                P.CodeGenerator(class_name="Method")(code)
            except ValueError:
                pass        # the generator itself fails on such a text; the line is in sink and is judged there
    finally:
        P.wrap_line = orig
    return sink


def generator_lines_fortran(rng, nprog):
    import dagrt.codegen.fortran as F
    from dagrt.function_registry import base_function_registry, register_ode_rhs
    texts = ["underflow", "a b", "it's  too small"]
    sink = []
    orig, spy = _spy(F, sink)
    F.wrap_line = spy
    try:
        for k in range(max(1, nprog // 3)):
            code = _program(rng, texts, long_expr=rng.randint(1, 8), fortran=True)
            freg = register_ode_rhs(base_function_registry, "ytype", identifier="<func>f", input_names=("y",))
            freg = freg.register_codegen("<func>f", "fortran", F.CallCode("\n${result} = -2*${y}\n"))
            F.CodeGenerator("mod%d" % k, function_registry=freg,
                            user_type_map={"ytype": F.ArrayType((100,), F.BuiltinType("real*8"))},
                            timing_function="second", emit_instrumentation=bool(k % 2 == 0))(code)
    finally:
        F.wrap_line = orig
    return sink


# ------------------------------------------------------------------ Coq side

def coq_str(s):
    """A Coq term of type str.  Coq elaborates string literals at ~150 us per character, so the
    bytes are packed seven to a primitive 63-bit integer and unpacked inside vm_compute."""
    b = s.encode("latin1")           # raises for characters the 8-bit model cannot hold
    ints = [int.from_bytes(b[i:i + 7], "little") for i in range(0, len(b), 7)]
    return "(dec %d [%s]%%uint63)" % (len(b), "; ".join(map(str, ints)))


def coq_z(n):
    return "(%d)" % n if n < 0 else str(n)


HEADER = (
    "From Coq Require Import List String Ascii ZArith Bool Uint63.\nImport ListNotations.\n"
    "From Dagrt Require Import GenC20 Wrap.\nOpen Scope list_scope.\nOpen Scope Z_scope.\n"
    "Definition byte_of (x : int) : ascii := ascii_of_N (Z.to_N (Uint63.to_Z x)).\n"
    "Fixpoint unpack7 (n : nat) (x : int) : str :=\n"
    "  match n with O => [] | S k => byte_of (Uint63.land x 255%uint63) :: unpack7 k (Uint63.lsr x 8%uint63) end.\n"
    "Definition dec (len : nat) (l : list int) : str := firstn len (flat_map (unpack7 7) l).\n"
    "Definition run (py : bool) (line : str) (ind : option str) (lvl : nat) (w : Z) : wrapres :=\n"
    "  wrap_line_base (lex_of (if py then python_lex else fortran_lex))\n"
    "    (pad_with (if py then python_marker else fortran_marker)) line lvl w\n"
    "    (match ind with Some i => i | None => Str (if py then default_indentation else fortran_indentation) end).\n"
    "Definition same (r : wrapres) (e : option (list str)) : bool :=\n"
    "  match r, e with WrapOk a, Some b => strs_eqb a b | WrapValueError, None => true | _, _ => false end.\n"
    "Definition chk (c : bool * str * option str * list (option (list str) * list (nat * Z))) : bool :=\n"
    "  let '(py, line, ind, groups) := c in\n"
    "  forallb (fun g => forallb (fun lw => same (run py line ind (fst lw) (snd lw)) (fst g)) (snd g)) groups.\n")


def build_terms(cases, results):
    """Group the cases by (target, line, indentation); inside a group, by expected output.
    Returns (terms, members) where members[i] = indices of the cases covered by term i."""
    groups = {}
    skipped = 0
    for i, (c, r) in enumerate(zip(cases, results)):
        if r[0] == "exc" and r[1] != "ValueError":
            skipped += 1
            continue                      # no such outcome in the model: reported by oracle A
        try:
            coq_str(c["line"])
        except UnicodeEncodeError:
            skipped += 1
            continue
        key = (c["target"], c["line"], c["indentation"])
        exp = None if r[0] == "exc" else tuple(r[1])
        groups.setdefault(key, {}).setdefault(exp, []).append(i)
    terms, members = [], []
    for (target, line, ind), byexp in groups.items():
        gs, idx = [], []
        for exp, ii in byexp.items():
            e = "(@None (list str))" if exp is None else "(Some [%s])" % "; ".join(coq_str(x) for x in exp)
            lw = "; ".join("(%d%%nat, %s)" % (cases[i]["level"],
                                             "default_width" if cases[i]["width"] is None else coq_z(cases[i]["width"]))
                           for i in ii)
            gs.append("(%s, [%s])" % (e, lw))
            idx += ii
        terms.append("(%s, %s, %s, [%s])" % ("true" if target == "python" else "false", coq_str(line),
                                            "(@None str)" if ind is None else "(Some %s)" % coq_str(ind),
                                            "; ".join(gs)))
        members.append(idx)
    return terms, members, skipped


def balance(terms, members, shard):
    """Reorder so that consecutive chunks of `shard` terms (one coqc process each) have similar size."""
    order = sorted(range(len(terms)), key=lambda i: -len(terms[i]))
    k = max(1, -(-len(terms) // shard))
    buckets = [[] for _ in range(k)]
    for j, i in enumerate(order):
        r, q = divmod(j, k)
        buckets[q if r % 2 == 0 else k - 1 - q].append(i)
    flat = [i for b in buckets for i in b]
    return [terms[i] for i in flat], [members[i] for i in flat]


def model_term(case):
    return "run %s %s %s %d%%nat %s" % (
        "true" if case["target"] == "python" else "false", coq_str(case["line"]),
        "(@None str)" if case["indentation"] is None else "(Some %s)" % coq_str(case["indentation"]),
        case["level"], "default_width" if case["width"] is None else coq_z(case["width"]))


# ------------------------------------------------------------------ shrinking

def size(case):
    return (len(case["line"]), case["level"], 0 if case["width"] is None else 1,
            0 if case["indentation"] is None else 1)


def shrink(case, kind):
    def fails(c):
        r = run_impl(c)
        o = oracle(c, r)
        return o is not None and o["kind"] == kind and classify(c, r, o) is None

    changed = True
    while changed:
        changed = False
        cands = []
        words = case["line"].split(" ")
        for i in range(len(words)):
            cands.append(dict(case, line=" ".join(words[:i] + words[i + 1:])))
        if len(case["line"]) <= 60:
            for i in range(len(case["line"])):
                cands.append(dict(case, line=case["line"][:i] + case["line"][i + 1:]))
        if case["level"] > 0:
            cands.append(dict(case, level=case["level"] - 1))
            cands.append(dict(case, level=0))
        if case["indentation"] is not None:
            cands.append(dict(case, indentation=None))
        for c in cands:
            if size(c) < size(case) and fails(c):
                case, changed = c, True
                break
    return case


# ------------------------------------------------------------------ the check

def main(tier):
    rep = common.Reporter(PID, tier)
    seed = common.seed()
    ps = common.proof_stage(rep, PID, gen=["c20"])
    f = facts()

    cases, dist = gen_cases(tier, seed)
    results = [run_impl(c) for c in cases]

    # implementation-level oracles on every case
    failing, known_hits = {}, {}
    n_target_applicable = n_ast = 0
    for c, r in zip(cases, results):
        if target_applies(c) is not None:
            n_target_applicable += 1
            if c["target"] == "python" and py_ast(c["line"]) is not None:
                n_ast += 1
        o = oracle(c, r)
        if o is None:
            continue
        entry = classify(c, r, o)
        if entry is not None:
            key = entry["class"]
            if key not in known_hits or size(c) < size(known_hits[key][0]):
                known_hits[key] = (c, r, o, entry)
            known_hits.setdefault("#" + key, [0])[0] += 1
            continue
        key = o["kind"] + ":" + c["target"]
        if key not in failing or size(c) < size(failing[key][0]):
            failing[key] = (c, r, o)
    for key in sorted(k for k in known_hits if not k.startswith("#")):
        c, r, o, entry = known_hits[key]
        rep.known_finding(entry.get("line") or entry.get("what_fails"))
    for key, (c, r, o) in sorted(failing.items()):
        c2 = shrink(c, o["kind"])
        r2 = run_impl(c2)
        rep.violation({"what": "wrap_line changes more than the layout (or raises)",
                       "case": c2, "impl_result": r2, "oracle": oracle(c2, r2),
                       "quote_patterns": sorted(quote_classes(c2)),
                       "tokenizer_in_tree": lexkind(c2["target"]),
                       "replay": "./check C20 --replay <this file>"})

    # correspondence with the Coq model
    n_eval, mism, errors, skipped = 0, [], [], 0
    if os.path.exists(os.path.join(common.COQ, "model", "Wrap.vo")) and os.path.exists(
            os.path.join(common.COQ, "gen", "GenC20.vo")):
        terms, members, skipped = build_terms(cases, results)
        shard = max(20, -(-len(terms) // (3 * common.NPROC)))
        terms, members = balance(terms, members, shard)
        bad, _, errors = common.eval_cases(PID, HEADER, terms, "chk", shard=shard)
        for t in bad:
            mism += members[t]
        n_eval = sum(len(mm) for mm in members)
    else:
        errors = ["model not built"]

    tie_broken = bool(mism or errors)
    if (not ps["ok"] or tie_broken) and not rep.violations:
        detail = {"what": "proof obligation or model/implementation correspondence no longer checks; "
                          "no failing input found by the implementation-level oracles",
                  "proof_stage": ps, "coq_errors": errors[:3], "translator_error": _facts.get("err")}
        if mism:
            # the cases of a term are compared together: find one that disagrees on its own
            first = None
            for i in mism[:40]:
                t1, _, _ = build_terms([cases[i]], [results[i]])
                b1, _, e1 = common.eval_cases(PID + "x", HEADER, t1, "chk")
                if b1 or e1:
                    first = i
                    break
            if first is None:
                first = mism[0]
            detail["first_disagreeing_case"] = {"case": cases[first], "impl_result": results[first],
                                                "model_result": common.eval_term(HEADER, model_term(cases[first]))}
            detail["n_cases_in_disagreeing_groups"] = len(mism)
        detail["broken"] = ("theorem file %s" % ps.get("theorem")) if not ps["ok"] else \
            "correspondence wrap_line ~ Dagrt.Wrap.wrap_line_base"
        rep.violation(detail, no_input=True)
    elif not ps["ok"] or tie_broken:
        rep.coverage["broken_obligation"] = ps if not ps["ok"] else {"disagreeing_groups_cases": len(mism)}

    nontrivial = {(c["target"], c["line"], c["level"], c["width"], c["indentation"])
                  for c, r in zip(cases, results) if r[0] != "ok" or len(r[1]) > 1}
    pick = [0, len(cases) // 3, len(cases) // 2, len(cases) - 1]
    rep.coverage.update(
        evaluations=len(cases), distinct_nontrivial=len(nontrivial),
        rule="cases = corpus + exhaustive small token sequences x levels x widths + random long lines (random "
             "level/width/indentation) + Python/Fortran statement families + lines the real generators pass to "
             "wrap_line; non-trivial = the line is wrapped into >= 2 lines or the call raises; distinct by "
             "(target, line, level, width, indentation)",
        traces_validated_against_impl=n_eval, model_impl_disagreements=len(mism),
        cases_not_expressible_in_model=skipped,
        target_oracle_applicable=n_target_applicable, python_ast_compared=n_ast,
        known_finding_cases={k[1:]: v[0] for k, v in known_hits.items() if k.startswith("#")},
        tokenizer_in_tree={"python": f["python_lex"], "fortran": f["fortran_lex"]},
        input_distribution=dist,
        samples=[{"case": cases[i], "impl": results[i]} for i in pick],
        exhaustive=False,
    )
    rep.assumptions = [
        "ASCII input lines (Python's len() counts code points, the model 8-bit characters)",
        "token-level theorems: for every line, level, width, marker and whitespace indentation string",
        "target-level theorem (C20_layout_partial): only for lines on which the tokenizer in use agrees with the "
        "quote-aware tokenizer; refuted without that hypothesis for shlex (C20_layout_refuted_shlex)",
        "ast.parse / Fortran free-form lexing are not modelled in Coq: they are exercised by oracle B only",
        "oracle B and C20_tokens need a non-empty whitespace indentation string (both generators use blanks); "
        "no comment or continuation character outside string literals on the input line",
    ]
    return rep.finish("proof")


def replay(path):
    r = json.load(open(path))
    c = r.get("case") or (r.get("first_disagreeing_case") or {}).get("case")
    if c is None:
        print("replay names a broken obligation, no input: %s" % r.get("broken"))
        return 1
    c = norm_case(c)
    res = run_impl(c)
    o = oracle(c, res)
    entry = classify(c, res, o) if o is not None else None
    print(json.dumps({"case": c, "impl_result": res, "oracle": o,
                      "known_finding": entry["class"] if entry else None}, indent=1))
    if r.get("first_disagreeing_case"):
        m = common.eval_term(HEADER, model_term(c))
        print("model: " + m)
        return 1
    return 1 if (o is not None and entry is None) else 0
