"""C01, call argument binding (coq/model/CallBind.v, theorems C01_bind_* in coq/props/C01.v).

The interpreter runs a call as `func(*parameters, **kw_parameters)` (Python's own binding against the
parameter names of builtins_python.builtin_*); generated Python code resolves a call of a built-in when it is
generated, with dagrt.utils.resolve_args against the arg_names of the function registry entry.

check(rep), called from harness/c01.py main():
* oracle A (implementation level, no model involved): on exhaustively enumerated small inputs the REAL
  resolve_args and a REAL Python call of a generated `def f(p1, ..., pn=dn)` succeed on the same inputs and
  return the same list;
* oracle B (implementation level): for every built-in and every legal call form (every split into a positional
  prefix and keywords, keywords in both orders; as a statement and inside an expression) the real
  NumpyInterpreter and the class from the real PythonCodeGenerator compute the same observations, nothing
  raises; every ill-formed call form (one positional too many, unknown keyword, positional and keyword for
  the same parameter, last argument missing) is rejected by both;
* correspondence (Coq, vm_compute): CallBind.resolve_args agrees with the real resolve_args on every enumerated
  input (value list, or the TypeError raised, classified by its message, with the names / leftover keys it
  mentions), CallBind.py_bind agrees with the real Python call (value list, or which TypeError CPython words);
  the rows of gen/GenBind.v agree with the live registry objects and inspect.signature of the callees.
"""
import contextlib
import io
import itertools
import json
import os
import random
import re

from harness import common

PID = "C01"
CASES_PID = "C01bind"
ROWS_PID = "C01bindrow"
HEADER = ("From Coq Require Import List ZArith String Bool.\nImport ListNotations.\n"
          "From Dagrt Require Import CallBind CallBindCheck.\n"
          "Open Scope string_scope.\nOpen Scope Z_scope.\n" +
          "".join('Definition s_%s := "%s".\n' % (n, n) for n in
                  ["a", "b", "c", "z", "x", "y", "a_cols", "b_cols", "arg", "n", "kw", "t", "zz"]))
ROWS_HEADER = HEADER.replace("CallBind CallBindCheck", "CallBind CallBindCheck GenBind")

PARAMS = ["a", "b", "c"]
KWCAND = ["a", "b", "c", "z"]


# ------------------------------------------------------------------ small inputs

def small_cases(full=False):
    """all (parameter list of length n <= 3, defaults for any subset, 0..n+1 positional values, keyword arguments:
    every ordered selection of up to 3 distinct names from a, b, c, z -- unknown names and names also given
    positionally included); the values tell where each came from (10+i positional, 20+j keyword, 30+i default).
    full (thorough tier): 0..4 positional values and selections of all 4 names as well"""
    out = []
    for n in range(4):
        names = PARAMS[:n]
        for dmask in itertools.product([0, 1], repeat=n):
            defs = [[names[i], 30 + i] for i in range(n) if dmask[i]]
            for npos in range(5 if full else n + 2):
                pos = [10 + i for i in range(npos)]
                for k in range(len(KWCAND) + 1 if full else len(KWCAND)):
                    for sel in itertools.permutations(KWCAND, k):
                        out.append({"names": names, "defs": defs, "pos": pos,
                                    "kws": [[s, 20 + KWCAND.index(s)] for s in sel]})
    return out


def random_cases(rng, n):
    """longer parameter lists, multi-letter names (one a prefix of another), defaults also for non-parameters"""
    pool = ["x", "y", "a", "a_cols", "b", "b_cols", "arg", "n", "kw", "t"]
    out = []
    for _ in range(n):
        names = rng.sample(pool, rng.randint(0, 6))
        dnames = [m for m in names if rng.random() < 0.4]
        if rng.random() < 0.2:
            dnames.append(rng.choice(pool))
        dnames = list(dict.fromkeys(dnames))
        if rng.random() < 0.6 and names:
            # defaults on a suffix, so that the call is also one of a real Python function
            k = rng.randint(0, len(names))
            dnames = names[k:]
        defs = [[m, 300 + i] for i, m in enumerate(dnames)]
        npos = rng.choice([0, 0, 1, 2, len(names), len(names) + 1, rng.randint(0, 7)])
        rest = [m for m in names[npos:]]
        kwn = [m for m in rest if rng.random() < 0.7]
        if rng.random() < 0.25:
            kwn.append(rng.choice(pool + ["zz"]))
        kwn = list(dict.fromkeys(kwn))
        rng.shuffle(kwn)
        out.append({"names": names, "defs": defs, "pos": [100 + i for i in range(npos)],
                    "kws": [[m, 200 + i] for i, m in enumerate(kwn)]})
    return out


def suffix_defaults(case):
    names, dn = case["names"], [d[0] for d in case["defs"]]
    return all(d in names for d in dn) and sorted(names.index(d) for d in dn) == \
        list(range(len(names) - len(dn), len(names)))


def real_resolve(case):
    from dagrt.utils import resolve_args
    d = {i: v for i, v in enumerate(case["pos"])}
    for k, v in case["kws"]:
        d[k] = v
    d0 = dict(d)
    try:
        r = resolve_args(tuple(case["names"]), dict((k, v) for k, v in case["defs"]), d)
    except TypeError as e:
        msg = str(e)
        if msg == "%d format: a real number is required, not str":
            return ["format"]
        m = re.fullmatch(r"argument '(.*)' specified both positionally and by keyword", msg)
        if m:
            return ["both", m.group(1)]
        m = re.fullmatch(r"argument '(.*)' not specified", msg)
        if m:
            return ["notspec", m.group(1)]
        m = re.fullmatch(r"leftover arguments after argument resolution: (.*)", msg)
        if m:
            return ["leftover", [int(x) if re.fullmatch(r"\d+", x) else x for x in m.group(1).split(", ")]]
        return ["typeerror", msg]      # a TypeError all the same (the model does not know this message)
    except Exception as e:  # noqa: BLE001
        return ["other", "%s: %s" % (type(e).__name__, e)]
    if d != d0:
        return ["tie", "the caller's arg_dict was modified"]      # not mirrored by the model; harmless for callers
    if not isinstance(r, tuple):
        return ["tie", "returned a %s" % type(r).__name__]
    return ["ok", list(r)]


_FUNCS = {}


def real_python(case):
    """the call f(*pos, **kws) of a real `def f(p1, ..., pn=dn): return [p1, ..., pn]`; None when the defaults are
    not on a suffix of the parameters (no such Python function exists)"""
    if not suffix_defaults(case):
        return None
    dd = dict((k, v) for k, v in case["defs"])
    src = "def f(%s):\n    return [%s]\n" % (
        ", ".join(n + ("=%d" % dd[n] if n in dd else "") for n in case["names"]), ", ".join(case["names"]))
    if src not in _FUNCS:
        ns = {}
        exec(src, ns)  # noqa: S102 - names come from the fixed pools above
        _FUNCS[src] = ns["f"]
    try:
        r = _FUNCS[src](*case["pos"], **dict((k, v) for k, v in case["kws"]))
    except TypeError as e:
        msg = str(e)
        m = re.fullmatch(r"f\(\) got an unexpected keyword argument '(.*)'", msg)
        if m:
            return ["unexpected", m.group(1)]
        m = re.fullmatch(r"f\(\) got multiple values for argument '(.*)'", msg)
        if m:
            return ["multiple", m.group(1)]
        m = re.fullmatch(r"f\(\) takes (?:from \d+ to )?\d+ positional arguments? but (\d+) (?:was|were) given", msg)
        if m:
            return ["toomany", int(m.group(1))]
        m = re.fullmatch(r"f\(\) missing \d+ required positional arguments?: (.*)", msg)
        if m:
            return ["missing", re.findall(r"'([^']*)'", m.group(1))]
        return ["typeerror", msg]
    except Exception as e:  # noqa: BLE001
        return ["other", "%s: %s" % (type(e).__name__, e)]
    return ["ok", list(r)]


def binding_differs(rr, rp):
    """oracle A: resolve_args returns a list iff the Python call binds, and then the same list"""
    if rp is None or rr[0] == "tie":
        return False
    if rr[0] == "other" or rp[0] == "other":
        return True
    if (rr[0] == "ok") != (rp[0] == "ok"):
        return True
    return rr[0] == "ok" and rr[1] != rp[1]


# ------------------------------------------------------------------ Coq terms

NAME_POOL = ["a", "b", "c", "z", "x", "y", "a_cols", "b_cols", "arg", "n", "kw", "t", "zz"]


def cs(s):
    """a Coq string; the names of the pools are abbreviated by constants defined in the header (string
    literals are slow to elaborate)"""
    if s in NAME_POOL:
        return "s_" + s
    return '"' + s.replace('"', '""') + '"'


def clist(items):
    return "[" + "; ".join(items) + "]"


def cpairs(l):
    return clist("(%s, %d)" % (cs(k), v) for k, v in l)


def real_to_coq(rr):
    if rr[0] == "ok":
        return "(XOk %s)" % clist("%d" % v for v in rr[1])
    if rr[0] == "format":
        return "XFormat"
    if rr[0] == "both":
        return "(XBoth %s)" % cs(rr[1])
    if rr[0] == "notspec":
        return "(XNotSpecified %s)" % cs(rr[1])
    if rr[0] == "leftover":
        return "(XLeftover %s)" % clist("KPos %d%%nat" % k if isinstance(k, int) else "KName %s" % cs(k)
                                         for k in rr[1])
    return "(XOther %s)" % cs(str(rr[1])[:80])


def py_to_coq(rp):
    if rp is None:
        return "None"
    if rp[0] == "ok":
        return "(Some (YOk %s))" % clist("%d" % v for v in rp[1])
    if rp[0] == "unexpected":
        return "(Some (YUnexpectedKeyword %s))" % cs(rp[1])
    if rp[0] == "multiple":
        return "(Some (YMultipleValues %s))" % cs(rp[1])
    if rp[0] == "toomany":
        return "(Some (YTooManyPositional %d%%nat))" % rp[1]
    if rp[0] == "missing":
        return "(Some (YMissing %s))" % clist(cs(n) for n in rp[1])
    return "(Some (YOther %s))" % cs(str(rp[1])[:80])


def case_term(case, rr, rp):
    return "(Build_bind_case %s %s %s %s %s %s)" % (
        clist(cs(n) for n in case["names"]), cpairs(case["defs"]), clist("%d" % v for v in case["pos"]),
        cpairs(case["kws"]), real_to_coq(rr), py_to_coq(rp))


# ------------------------------------------------------------------ the live registry

def live_rows():
    """what the running code holds for every built-in: [(identifier, arg_names as iterated, default names,
    callee name, callee parameter names, all plain parameters?, python pattern)]"""
    import inspect

    from dagrt.builtins_python import builtins
    from dagrt.function_registry import base_function_registry as bfr
    rows = []
    for ident in sorted(bfr.id_to_function):
        func = bfr.id_to_function[ident]
        impl = builtins.get(ident)
        params, plain = [], True
        if impl is not None:
            for p in inspect.signature(impl).parameters.values():
                params.append(p.name)
                plain = plain and p.kind == inspect.Parameter.POSITIONAL_OR_KEYWORD
        cg = func.language_to_codegen.get("python")
        rows.append({"id": ident, "arg_names": [str(x) for x in func.arg_names],
                     "default_names": [str(x) for x in func.default_dict],
                     "impl": getattr(impl, "__name__", None), "impl_params": params, "plain": plain,
                     "pattern": getattr(cg, "pattern", None)})
    return rows


def row_term(r):
    return "(Build_live_row %s %s %s %s %s)" % (
        cs(r["id"]), clist(cs(n) for n in r["arg_names"]), clist(cs(n) for n in r["default_names"]),
        cs(r["impl"] or ""), clist(cs(n) for n in r["impl_params"]))


def names_diagnosis(ident):
    for r in live_rows():
        if r["id"] == ident:
            return {"declared_arg_names": r["arg_names"], "implementation": r["impl"],
                    "implementation_parameters": r["impl_params"], "python_pattern": r["pattern"]}
    return None


# ------------------------------------------------------------------ oracle B: the built-ins on both backends

# the signatures of the language documentation (class docstrings in dagrt/function_registry.py), with an
# argument for every parameter; the values are chosen so that exchanging any two arguments changes the result
DOC = {
    "<builtin>norm_1": (["x"], {"x": "<state>b"}),
    "<builtin>norm_2": (["x"], {"x": "<state>b"}),
    "<builtin>norm_inf": (["x"], {"x": "<state>b"}),
    "<builtin>elementwise_abs": (["x"], {"x": "<state>c"}),
    "<builtin>dot_product": (["x", "y"], {"x": "<state>c", "y": "<state>b"}),
    "<builtin>len": (["x"], {"x": "<state>b"}),
    "<builtin>isnan": (["x"], {"x": "<state>b"}),
    "<builtin>array": (["n"], {"n": "2"}),
    "<builtin>matmul": (["a", "b", "a_cols", "b_cols"], {"a": "<state>p", "b": "<state>q", "a_cols": "3",
                                                        "b_cols": "2"}),
    "<builtin>transpose": (["a", "a_cols"], {"a": "<state>p", "a_cols": "3"}),
    "<builtin>linear_solve": (["a", "b", "a_cols", "b_cols"], {"a": "<state>m", "b": "<state>v", "a_cols": "2",
                                                              "b_cols": "1"}),
    "<builtin>svd": (["a", "a_cols"], {"a": "<state>p", "a_cols": "3"}),
    "<builtin>print": (["arg"], {"arg": "<state>b"}),
}
N_RESULTS = {"<builtin>svd": 3, "<builtin>print": 0}
ILLEGAL = ["extra_positional", "unknown_keyword", "positional_and_keyword", "missing_last"]


def state_values():
    import numpy as np
    return {"b": np.array([1.5, -2.0, 0.25]), "c": np.array([1 + 2j, 0.5j, 3.0]),
            "p": np.array([1.0, 2.0, 3.0, 4.0, 5.0, 7.0]), "q": np.array([0.5, -1.0, 2.0, 0.0, 1.0, 3.0]),
            "m": np.array([2.0, 1.0, 0.5, 3.0]), "v": np.array([1.0, -1.0])}


def legal_forms(ident):
    """every split of the documented parameters into a positional prefix and keywords (both keyword orders),
    as a statement `r = f(...)` and, for single-result built-ins, inside an expression"""
    names, _ = DOC[ident]
    out = []
    for k in range(len(names) + 1):
        orders = [names[k:]]
        if len(names) - k >= 2:
            orders.append(list(reversed(names[k:])))
        for kw in orders:
            for style in (["stmt", "expr"] if N_RESULTS.get(ident, 1) == 1 else ["stmt"]):
                out.append({"positional": k, "keywords": kw, "style": style})
    return out


def call_text(ident, form):
    names, vals = DOC[ident]
    if "illegal" in form:
        args = [vals[n] for n in names]
        kind = form["illegal"]
        if kind == "extra_positional":
            args.append(vals[names[0]])
        elif kind == "unknown_keyword":
            args.append("no_such_parameter=%s" % vals[names[0]])
        elif kind == "positional_and_keyword":
            args.append("%s=%s" % (names[0], vals[names[0]]))
        elif kind == "missing_last":
            args = args[:-1]
        return "%s(%s)" % (ident, ", ".join(args))
    k = form["positional"]
    args = [vals[n] for n in names[:k]] + ["%s=%s" % (n, vals[n]) for n in form["keywords"]]
    return "%s(%s)" % (ident, ", ".join(args))


def build_program(ident, forms):
    """(program for c01_extras-style running, the persistent names it uses)"""
    from harness.c01_extras import parse
    used = set()

    def prog(cb_cls):
        with cb_cls("main") as cb:
            for j, form in enumerate(forms):
                txt = call_text(ident, form)
                used.update(re.findall(r"<state>(\w+)", txt))
                nres = N_RESULTS.get(ident, 1)
                if nres == 0:
                    cb.assign((), txt)
                elif nres == 3:
                    outs = ["u%d" % j, "s%d" % j, "w%d" % j]
                    cb.assign(tuple(outs), txt)
                    for o in outs:
                        cb.yield_state(o, o, parse("<t>"), "final")
                else:
                    r = "r%d" % j
                    if ident == "<builtin>array":
                        # array(n) is uninitialised storage: only its length is observable
                        if form.get("style") == "expr":
                            cb.assign(r, "<builtin>len(%s)" % txt)
                        else:
                            cb.assign("z%d" % j, txt)
                            cb.assign(r, "<builtin>len(z%d)" % j)
                    elif form.get("style") == "expr":
                        cb.assign(r, "%s + 0" % txt)
                    else:
                        cb.assign(r, txt)
                    cb.yield_state(r, r, parse("<t>"), "final")
            cb.assign("<t>", "<t> + <dt>")
        return {"main": cb.as_execution_phase("main")}, "main"
    return prog, used


def run_both(ident, forms):
    """the program on the real interpreter and on the class from the real Python generator (as
    c01_extras.run_extra does), the text each writes to stdout included"""
    import copy

    from dagrt.codegen import PythonCodeGenerator
    from dagrt.exec_numpy import NumpyInterpreter, StateComputed, StepCompleted, StepFailed
    from dagrt.language import CodeBuilder, DAGCode

    from harness.c01_extras import observe
    prog, used = build_program(ident, forms)
    phases, first = prog(CodeBuilder)
    code = DAGCode(phases=phases, initial_phase=first)
    sv = state_values()
    init = {k: sv[k] for k in sorted(used)}
    names = sorted({"<state>" + k for k in init} | {"<t>", "<dt>"})
    kw = {"max_steps": 1}
    buf = io.StringIO()
    with contextlib.redirect_stdout(buf):
        interp = NumpyInterpreter(code, {})
        interp.set_up(t_start=0, dt_start=1, context=copy.deepcopy(init))
        ri = observe(interp, kw, names, lambda n: interp.context.get(n), (StepCompleted, StepFailed, StateComputed))
    ri["stdout"] = buf.getvalue()
    buf = io.StringIO()
    try:
        with contextlib.redirect_stdout(buf):
            cg = PythonCodeGenerator(class_name="Method")
            cls = cg.get_class(code)
            m = cls({})
            m.set_up(t_start=0, dt_start=1, context=copy.deepcopy(init))
            nm = cg._name_manager
            rg = observe(m, kw, names, lambda n: getattr(m, nm.name_global(n)[5:], None),
                         (cls.StepCompleted, cls.StepFailed, cls.StateComputed))
    except Exception as ex:  # noqa: BLE001
        rg = {"events": [], "end": "codegen failed: %s: %s" % (type(ex).__name__, str(ex)[:200]), "next": None}
    rg["stdout"] = buf.getvalue()
    return ri, rg, str(code)


def rejected(r):
    return r["end"].startswith("exception") or r["end"].startswith("codegen failed")


def judge(ident, forms):
    """None when the backends behave as the property demands on this program, else what differs"""
    from harness.c01_extras import first_difference
    ri, rg, text = run_both(ident, forms)
    if any("illegal" in f for f in forms):
        if rejected(ri) and rejected(rg):
            return None, text
        return {"ill_formed_call_not_rejected_by_both": {"interpreter": ri["end"], "generated": rg["end"]}}, text
    d = first_difference(ri, rg)
    if d is None and ri["stdout"] != rg["stdout"]:
        d = {"stdout": {"interpreter": ri["stdout"][:200], "generated": rg["stdout"][:200]}}
    if d is None and ri["end"] != "stopped":
        d = {"both_backends_raise_on_a_legal_call": ri["end"]}
    return d, text


def builtin_oracle():
    """[(identifier, forms, difference, program text)] smallest failing program per built-in and kind;
    number of programs run, number of call forms covered, built-ins without documented signature"""
    from dagrt.function_registry import base_function_registry as bfr
    bad, n_prog, n_forms = [], 0, 0
    present = [i for i in DOC if i in bfr]
    unknown = sorted(i for i in bfr.id_to_function if i.startswith("<builtin>") and i not in DOC)
    missing = sorted(i for i in DOC if i not in bfr)
    for ident in present:
        forms = legal_forms(ident)
        n_forms += len(forms)
        d, text = judge(ident, forms)
        n_prog += 1
        if d is not None:
            # narrow down to one call form
            for f in forms:
                d1, t1 = judge(ident, [f])
                n_prog += 1
                if d1 is not None:
                    forms, d, text = [f], d1, t1
                    break
            bad.append((ident, forms, d, text))
        for kind in ILLEGAL:
            f = {"illegal": kind}
            n_forms += 1
            d, text = judge(ident, [f])
            n_prog += 1
            if d is not None:
                bad.append((ident, [f], d, text))
    return bad, n_prog, n_forms, unknown, missing


# ------------------------------------------------------------------ the check

def check(rep):
    import time
    t0 = time.time()
    seed = common.seed()
    rng = random.Random(seed * 9176 + 5)
    ok_make, _log = common.make(["model/CallBindCheck.vo"])
    timing = {"make": round(time.time() - t0, 2)}

    small = small_cases(full=rep.tier != "quick")
    cases = small + random_cases(rng, 400 if rep.tier == "quick" else 20000)
    found = False
    worst = {}
    terms = []
    stats = {"ok": 0, "format": 0, "both": 0, "notspec": 0, "leftover": 0, "typeerror": 0, "tie": 0,
             "other": 0, "python_calls": 0}
    for case in cases:
        rr, rp = real_resolve(case), real_python(case)
        stats[rr[0]] += 1
        stats["python_calls"] += rp is not None
        terms.append(case_term(case, rr, rp))
        if binding_differs(rr, rp):
            kind = "accepts" if rr[0] == "ok" and rp[0] != "ok" else "rejects" if rp[0] == "ok" and rr[0] != "ok" \
                else "other"
            size = len(json.dumps(case))
            if kind not in worst or size < worst[kind][0]:
                worst[kind] = (size, case, rr, rp)
    for kind, (_, case, rr, rp) in sorted(worst.items()):
        found = True
        rep.violation({"what": "dagrt.utils.resolve_args (generated code) and Python's call binding (interpreter) "
                               "disagree on a call: resolve_args %s what Python %s" % (
                                   {"accepts": "accepts", "rejects": "rejects", "other": "treats differently"}[kind],
                                   {"accepts": "rejects", "rejects": "accepts", "other": "does"}[kind]),
                       "bind_case": case, "resolve_args": rr, "python_call": rp})

    timing["real_calls_and_oracle_A"] = round(time.time() - t0, 2)
    bad, n_prog, n_forms, unknown, missing = builtin_oracle()
    timing["oracle_B"] = round(time.time() - t0, 2)
    seen_kinds = set()
    for ident, forms, d, text in bad:
        # one report per built-in for legal forms, one per kind of ill-formed call (the first built-in)
        kind = ("illegal", forms[0]["illegal"]) if "illegal" in forms[0] else ("legal", ident)
        if kind in seen_kinds or len(seen_kinds) >= 3:
            continue
        seen_kinds.add(kind)
        found = True
        rep.violation({"what": "interpreter and generated Python class disagree on a call of a built-in "
                               "(harness/c01_bind.py)" if kind[0] == "legal" else
                               "an ill-formed call of a built-in is not rejected by both backends",
                       "bind_program": {"builtin": ident, "forms": forms}, "call": [call_text(ident, f) for f in forms],
                       "program": text, "oracle": d, "names": names_diagnosis(ident)})
    if missing and not found:
        found = True
        rep.violation({"what": "documented built-ins are no longer in base_function_registry",
                       "bind_builtin": missing[0], "missing": missing})

    # implementation-level statement (ii): declared names = parameters of the interpreter's callee
    rows = live_rows()
    for r in rows:
        if r["id"].startswith("<builtin>") and (r["arg_names"] != r["impl_params"] or not r["plain"]) and not found:
            found = True
            rep.violation({"what": "the arg_names a built-in declares in the function registry are not the parameter "
                                   "names of the function the interpreter calls", "bind_builtin": r["id"],
                           "names": names_diagnosis(r["id"])})

    # correspondence with the model, inside Coq
    mism, n_eval, errors, row_mism = [], 0, [], []
    if ok_make and os.path.exists(os.path.join(common.COQ, "model", "CallBindCheck.vo")):
        import threading
        row_res = []
        have_gen = os.path.exists(os.path.join(common.COQ, "gen", "GenBind.vo"))
        th = threading.Thread(target=lambda: row_res.append(common.eval_cases(
            ROWS_PID, ROWS_HEADER, [row_term(r) for r in rows if r["id"].startswith("<builtin>")],
            "chk_row builtin_table")))
        if have_gen:
            th.start()          # its own files (prefix C01bindrow_), evaluated while the cases are
        mism, n_eval, errors = common.eval_cases(CASES_PID, HEADER, terms, "chk_bind", shard=800)
        if have_gen:
            th.join()
            row_mism, _n, e2 = row_res[0] if row_res else ([], 0, ["evaluation of the registry rows failed"])
            errors += e2
        else:
            errors.append("gen/GenBind.vo not built")
    else:
        errors = ["model/CallBindCheck.vo not built"]
    timing["coq"] = round(time.time() - t0, 2)
    if (mism or row_mism or errors) and not found and not rep.violations:
        detail = {"what": "model/implementation correspondence of the call-binding model no longer checks; no "
                          "failing input found by the implementation-level oracles",
                  "coq_errors": errors[:2], "n_disagreements": len(mism), "n_row_disagreements": len(row_mism)}
        if mism:
            c = cases[mism[0]]
            detail["first_disagreeing_input"] = {"bind_case": c, "resolve_args": real_resolve(c),
                                                 "python_call": real_python(c)}
            detail["broken"] = "correspondence dagrt.utils.resolve_args / Python call ~ Dagrt.CallBind"
        elif row_mism:
            brows = [r for r in rows if r["id"].startswith("<builtin>")]
            detail["first_disagreeing_row"] = brows[row_mism[0]]
            detail["broken"] = "coq/gen/GenBind.v (harness/tr/bind.py) does not describe the live function registry"
        else:
            detail["broken"] = "Coq evaluation of the call-binding cases failed"
        rep.violation(detail, no_input=True)

    rep.coverage["call_binding"] = {
        "inputs": len(cases), "exhaustive_small_scope": len(small),
        "rule": "every parameter list a,b,c of length n <= 3 x defaults for every subset x 0..n+1 positional values x "
                "every ordered selection of up to 3 distinct keyword names from a,b,c,z (thorough: 0..4 positional "
                "values, up to 4 keywords); plus random longer ones",
        "real_resolve_args_outcomes": stats,
        "compared_with_real_python_calls": stats["python_calls"],
        "model_evaluations_in_coq": n_eval, "model_impl_disagreements": len(mism),
        "registry_rows_compared": len([r for r in rows if r["id"].startswith("<builtin>")]),
        "registry_row_disagreements": len(row_mism),
        "builtin_programs_run_on_both_backends": n_prog, "builtin_call_forms": n_forms,
        "builtins_without_documented_signature_not_run": unknown,
        "wall_s": round(time.time() - t0, 2), "wall_s_cumulative": timing,
    }
    return found


# ------------------------------------------------------------------ replay

def replay(r):
    if "bind_case" in r:
        case = r["bind_case"]
        rr, rp = real_resolve(case), real_python(case)
        bad = binding_differs(rr, rp)
        print(json.dumps({"bind_case": case, "resolve_args": rr, "python_call": rp, "disagree": bad}, indent=1))
        return 1 if bad else 0
    if "bind_program" in r:
        ident, forms = r["bind_program"]["builtin"], r["bind_program"]["forms"]
        d, text = judge(ident, forms)
        print(text)
        print(json.dumps({"builtin": ident, "call": [call_text(ident, f) for f in forms], "difference": d,
                          "names": names_diagnosis(ident)}, indent=1, default=str))
        return 1 if d is not None else 0
    if "bind_builtin" in r:
        from dagrt.function_registry import base_function_registry as bfr
        d = names_diagnosis(r["bind_builtin"])
        print(json.dumps({"builtin": r["bind_builtin"], "names": d}, indent=1, default=str))
        bad = r["bind_builtin"] not in bfr or d is None or d["declared_arg_names"] != d["implementation_parameters"]
        return 1 if bad else 0
    return None
