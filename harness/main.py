"""Entry point: python -m harness.main <PID> [--tier quick|thorough] [--replay file]"""
import argparse
import importlib
import os
import sys


def main():
    ap = argparse.ArgumentParser()
    ap.add_argument("pid")
    ap.add_argument("--tier", default=os.environ.get("VERIF_TIER", "quick"))
    ap.add_argument("--replay")
    a = ap.parse_args()
    mod = importlib.import_module("harness." + a.pid.lower())
    if a.replay:
        sys.exit(mod.replay(a.replay))
    try:
        rc = mod.main(a.tier)
    except Exception:  # noqa: BLE001
        # the harness could not drive this tree to the end: the tie between model and code is
        # broken (an interface the check relies on changed); report it, never pass silently
        import json
        import traceback
        from harness import common
        tb = traceback.format_exc()
        d = os.path.join(common.VERIF, "replays", a.pid)
        os.makedirs(d, exist_ok=True)
        path = os.path.join(d, "%s_harness_error.json" % a.tier)
        with open(path, "w") as f:
            json.dump({"property": a.pid, "broken": "the check's harness raised while driving the implementation "
                       "(correspondence cannot be established)", "traceback": tb[-4000:]}, f, indent=1)
        print("VIOLATION property=%s replay=%s no-failing-input-found" % (a.pid, os.path.relpath(path, common.VERIF)),
              flush=True)
        sys.stderr.write(tb)
        rc = 1
    sys.exit(rc)


if __name__ == "__main__":
    main()
