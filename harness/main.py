"""Entry point: python -m harness.main <PID> [--tier quick|thorough] [--replay file]"""
import argparse
import importlib
import os
import sys


def main():
    ap = argparse.ArgumentParser()
    ap.add_argument("pid")
    ap.add_argument("--tier", default=os.environ.get("VERIF_TIER", "quick"))
    ap.add_argument("--replay")
    a = ap.parse_args()
    mod = importlib.import_module("harness." + a.pid.lower())
    if a.replay:
        sys.exit(mod.replay(a.replay))
    sys.exit(mod.main(a.tier))


if __name__ == "__main__":
    main()
