"""Shared helpers for the properties built on coq/model/Lang.v (C08, C02, C01, C11):
expression/statement representation, conversion to pymbolic / dagrt objects and to
Coq terms, the deterministic test oracle for user functions (mirrored by
coq/model/TestOracle.v), value canonicalisation, a recording variable store.

Python-side representation (JSON-able):
  expr  = ["int", z] | ["bool", b] | ["none"] | ["var", x] | ["not", e] | ["if", c, t, e]
        | ["bin", op, a, b]   op in floordiv, rem, sub, lt, le, gt, ge, eq, ne
        | ["nary", op, [e...]] op in sum, prod, min, max, and, or
        | ["call", f, [e...], [[name, e]...]]
  value = ["int", z] | ["bool", b] | ["none"] | ["arr", [z...]]
  stmt kind = ["assign", x, sub|None, rhs, [[i, lo, hi]...]] | ["call", [x...], f, [e...], [[n, e]...]]
        | ["yield", comp, tid, time, e] | ["fail"] | ["raise", k] | ["switch", p] | ["nop"]
"""
import random

CMP = {"lt": "<", "le": "<=", "gt": ">", "ge": ">=", "eq": "==", "ne": "!="}
CMP_COQ = {"lt": "CLt", "le": "CLe", "gt": "CGt", "ge": "CGe", "eq": "CEq", "ne": "CNe"}


class UserFunctionError(Exception):
    """marker exception raised by the test oracle's user functions"""


class UserTypeError(UserFunctionError, TypeError):
    """a user function failing with a TypeError"""


class UserValueError(UserFunctionError, ValueError):
    """a user function failing with a ValueError"""


# one marker class per built-in exception class a user function may plausibly fail with (a wrapper
# in the stepper that catches one of these "to give a better message" must not swallow the user's)
USER_EXCEPTIONS = [UserFunctionError, UserTypeError, UserValueError] + [
    type("User" + b.__name__, (UserFunctionError, b), {"__doc__": "a user function failing with a " + b.__name__})
    for b in (AttributeError, KeyError, IndexError, RuntimeError, NotImplementedError, ZeroDivisionError,
              AssertionError, NameError, OSError)]


# ------------------------------------------------------------------ to pymbolic

def to_pym(e):
    import pymbolic.primitives as p
    k = e[0]
    if k == "int":
        return int(e[1])
    if k == "npint":          # a NumPy-typed integer constant (e.g. an entry of a coefficient array)
        import numpy as np
        return np.int64(e[1])
    if k == "bool":
        return bool(e[1])
    if k == "none":
        return None
    if k == "var":
        return p.Variable(e[1])
    if k == "not":
        return p.LogicalNot(to_pym(e[1]))
    if k == "if":
        return p.If(to_pym(e[1]), to_pym(e[2]), to_pym(e[3]))
    if k == "bin":
        a, b = to_pym(e[2]), to_pym(e[3])
        if e[1] == "floordiv":
            return p.FloorDiv(a, b)
        if e[1] == "rem":
            return p.Remainder(a, b)
        if e[1] == "sub":
            return p.Subscript(a, b)
        return p.Comparison(a, CMP[e[1]], b)
    if k == "pow":
        return p.Power(to_pym(e[1]), to_pym(e[2]))
    if k == "lookup":
        return p.Lookup(to_pym(e[1]), e[2])
    if k == "nparr":          # a NumPy object array of expressions (e.g. a coefficient table times a variable)
        import numpy as np
        a = np.empty(len(e[1]), dtype=object)
        for i, c in enumerate(e[1]):
            a[i] = to_pym(c)
        return a
    if k == "nary":
        ch = tuple(to_pym(c) for c in e[2])
        return {"sum": p.Sum, "prod": p.Product, "min": p.Min, "max": p.Max,
                "and": p.LogicalAnd, "or": p.LogicalOr}[e[1]](ch)
    if k == "call":
        args = tuple(to_pym(c) for c in e[2])
        if e[3]:
            from immutabledict import immutabledict
            return p.CallWithKwargs(p.Variable(e[1]), args, immutabledict({n: to_pym(v) for n, v in e[3]}))
        return p.Call(p.Variable(e[1]), args)
    raise ValueError(e)


def from_pym(x):
    """pymbolic expression -> representation (raises ValueError outside the modelled node set)."""
    import numpy as np
    import pymbolic.primitives as p
    if x is None:
        return ["none"]
    if isinstance(x, (bool, np.bool_)):
        return ["bool", bool(x)]
    if isinstance(x, np.integer):
        return ["npint", int(x)]
    if isinstance(x, int):
        return ["int", int(x)]
    if isinstance(x, p.Variable):
        return ["var", x.name]
    if isinstance(x, p.LogicalNot):
        return ["not", from_pym(x.child)]
    if isinstance(x, p.If):
        return ["if", from_pym(x.condition), from_pym(x.then), from_pym(x.else_)]
    if isinstance(x, p.FloorDiv):
        return ["bin", "floordiv", from_pym(x.numerator), from_pym(x.denominator)]
    if isinstance(x, p.Remainder):
        return ["bin", "rem", from_pym(x.numerator), from_pym(x.denominator)]
    if isinstance(x, p.Subscript):
        idx = x.index
        if isinstance(idx, tuple):
            if len(idx) != 1:
                raise ValueError("multi-index")
            idx = idx[0]
        return ["bin", "sub", from_pym(x.aggregate), from_pym(idx)]
    if isinstance(x, p.Comparison):
        inv = {v: k for k, v in CMP.items()}
        return ["bin", inv[x.operator], from_pym(x.left), from_pym(x.right)]
    if isinstance(x, p.Power):
        return ["pow", from_pym(x.base), from_pym(x.exponent)]
    if isinstance(x, p.Lookup):
        return ["lookup", from_pym(x.aggregate), x.name]
    if isinstance(x, np.ndarray) and x.dtype == object and x.ndim == 1:
        return ["nparr", [from_pym(c) for c in x]]
    for cls, nm in ((p.Sum, "sum"), (p.Product, "prod"), (p.Min, "min"), (p.Max, "max"),
                    (p.LogicalAnd, "and"), (p.LogicalOr, "or")):
        if isinstance(x, cls):
            return ["nary", nm, [from_pym(c) for c in x.children]]
    if isinstance(x, p.CallWithKwargs):
        return ["call", x.function.name, [from_pym(c) for c in x.parameters],
                [[n, from_pym(v)] for n, v in x.kw_parameters.items()]]
    if isinstance(x, p.Call):
        return ["call", x.function.name, [from_pym(c) for c in x.parameters], []]
    raise ValueError("unmodelled expression node %r" % type(x))


def kind_from_real(stmt):
    """Read a real statement back (Assign.__init__ flattens its right-hand side)."""
    from dagrt import language as L
    if isinstance(stmt, L.Assign):
        sub = stmt.assignee_subscript
        if sub:
            if len(sub) != 1:
                raise ValueError("multi-index")
            sub = from_pym(sub[0])
        else:
            sub = None
        return ["assign", stmt.assignee, sub, from_pym(stmt.rhs),
                [[i, from_pym(lo), from_pym(hi)] for i, lo, hi in stmt.loops]]
    if isinstance(stmt, L.AssignFunctionCall):
        return ["call", list(stmt.assignees), stmt.function_id, [from_pym(e) for e in stmt.parameters],
                [[n, from_pym(e)] for n, e in stmt.kw_parameters.items()]]
    if isinstance(stmt, L.AssignImplicit):
        return ["implicit", list(stmt.assignees), list(stmt.solve_variables), [from_pym(e) for e in stmt.expressions],
                [[n, from_pym(e)] for n, e in stmt.other_params.items()], stmt.solver_id]
    if isinstance(stmt, L.YieldState):
        return ["yield", stmt.component_id, stmt.time_id, from_pym(stmt.time), from_pym(stmt.expression)]
    if isinstance(stmt, L.FailStep):
        return ["fail"]
    if isinstance(stmt, L.Raise):
        return ["raise", stmt.error_condition.__name__]
    if isinstance(stmt, L.SwitchPhase):
        return ["switch", stmt.next_phase]
    if isinstance(stmt, L.Nop):
        return ["nop"]
    raise ValueError("unmodelled statement %r" % type(stmt))


def coq_str(s):
    return '"' + s.replace('"', '""') + '"'


def to_coq(e):
    k = e[0]
    if k in ("int", "npint"):     # same value; the model has one integer type
        return "(EInt (%d))" % e[1]
    if k == "bool":
        return "(EBool %s)" % ("true" if e[1] else "false")
    if k == "none":
        return "ENone"
    if k == "var":
        return "(EVar %s)" % coq_str(e[1])
    if k == "not":
        return "(ENot %s)" % to_coq(e[1])
    if k == "if":
        return "(EIf %s %s %s)" % (to_coq(e[1]), to_coq(e[2]), to_coq(e[3]))
    if k == "bin":
        op = {"floordiv": "BFloorDiv", "rem": "BRem", "sub": "BSub"}.get(e[1]) or "(BCmp %s)" % CMP_COQ[e[1]]
        return "(EBin %s %s %s)" % (op, to_coq(e[2]), to_coq(e[3]))
    if k == "nary":
        op = {"sum": "NSum", "prod": "NProd", "min": "NMin", "max": "NMax", "and": "NAnd", "or": "NOr"}[e[1]]
        return "(ENary %s [%s])" % (op, "; ".join(to_coq(c) for c in e[2]))
    if k == "call":
        return "(ENary (NCall %s [%s]) [%s])" % (
            coq_str(e[1]), "; ".join(coq_str(n) for n, _ in e[3]),
            "; ".join(to_coq(c) for c in list(e[2]) + [v for _, v in e[3]]))
    raise ValueError(e)


def val_to_coq(v):
    k = v[0]
    if k == "int":
        return "(VInt (%d))" % v[1]
    if k == "bool":
        return "(VBool %s)" % ("true" if v[1] else "false")
    if k == "none":
        return "VNone"
    if k == "arr":
        return "(VArr [%s])" % "; ".join("(%d)" % z for z in v[1])
    raise ValueError(v)


def val_to_py(v):
    import numpy as np
    k = v[0]
    if k == "int":
        return int(v[1])
    if k == "bool":
        return bool(v[1])
    if k == "none":
        return None
    if k == "arr":
        return np.array(v[1], dtype=np.int64)
    raise ValueError(v)


def canon_val(x):
    """Python/numpy value -> value representation (None if outside the model's universe)."""
    import numpy as np
    if x is None:
        return ["none"]
    if isinstance(x, (bool, np.bool_)):
        return ["bool", bool(x)]
    if isinstance(x, (int, np.integer)):
        return ["int", int(x)]
    if isinstance(x, np.ndarray) and x.ndim == 1 and np.issubdtype(x.dtype, np.integer):
        return ["arr", [int(z) for z in x]]
    if isinstance(x, np.ndarray) and x.ndim == 0 and np.issubdtype(x.dtype, np.integer):
        return ["int", int(x)]
    return ["other", repr(type(x))]


def store_to_coq(d):
    """dict name -> value  =>  Coq store term"""
    t = "empty"
    for k in sorted(d):
        t = "(upd %s %s %s)" % (t, coq_str(k), val_to_coq(d[k]))
    return t


def kind_to_coq(k):
    t = k[0]
    if t == "assign":
        sub = "None" if k[2] is None else "(Some %s)" % to_coq(k[2])
        loops = "; ".join("(%s, %s, %s)" % (coq_str(i), to_coq(lo), to_coq(hi)) for i, lo, hi in k[4])
        return "(KAssign %s %s %s [%s])" % (coq_str(k[1]), sub, to_coq(k[3]), loops)
    if t == "call":
        return "(KCall [%s] %s [%s] [%s])" % (
            "; ".join(coq_str(x) for x in k[1]), coq_str(k[2]),
            "; ".join(to_coq(e) for e in k[3]),
            "; ".join("(%s, %s)" % (coq_str(n), to_coq(e)) for n, e in k[4]))
    if t == "yield":
        return "(KYield %s %s %s %s)" % (coq_str(k[1]), coq_str(k[2]), to_coq(k[3]), to_coq(k[4]))
    if t == "fail":
        return "KFail"
    if t == "raise":
        return "(KRaise %s)" % coq_str(k[1])
    if t == "switch":
        return "(KSwitch %s)" % coq_str(k[1])
    if t == "nop":
        return "KNop"
    raise ValueError(k)


def stmt_to_coq(sid, deps, cond, kind):
    return "(Build_stmt %d%%nat [%s] %s %s)" % (sid, "; ".join("%d%%nat" % d for d in deps), to_coq(cond),
                                               kind_to_coq(kind))


RAISE_CLASSES = {"ValueError": ValueError, "RuntimeError": RuntimeError, "ArithmeticError": ArithmeticError}


def kind_to_real(k, cond=None, sid=None, deps=()):
    """Build the real dagrt.language statement."""
    from dagrt import language as L
    kw = {}
    if sid is not None:
        kw["id"] = sid
        kw["depends_on"] = frozenset(deps)
    if cond is not None:
        kw["condition"] = to_pym(cond)
    t = k[0]
    if t == "assign":
        return L.Assign(assignee=k[1], assignee_subscript=() if k[2] is None else (to_pym(k[2]),),
                        expression=to_pym(k[3]), loops=[(i, to_pym(lo), to_pym(hi)) for i, lo, hi in k[4]], **kw)
    if t == "call":
        return L.AssignFunctionCall(assignees=tuple(k[1]), function_id=k[2],
                                    parameters=tuple(to_pym(e) for e in k[3]),
                                    kw_parameters={n: to_pym(e) for n, e in k[4]}, **kw)
    if t == "implicit":
        return L.AssignImplicit(assignees=tuple(k[1]), solve_variables=tuple(k[2]),
                                expressions=tuple(to_pym(e) for e in k[3]),
                                other_params={n: to_pym(e) for n, e in k[4]}, solver_id=k[5], **kw)
    if t == "yield":
        return L.YieldState(expression=to_pym(k[4]), component_id=k[1], time=to_pym(k[3]), time_id=k[2], **kw)
    if t == "fail":
        return L.FailStep(**kw)
    if t == "raise":
        return L.Raise(RAISE_CLASSES[k[1]], "msg", **kw)
    if t == "switch":
        return L.SwitchPhase(k[1], **kw)
    if t == "nop":
        return L.Nop(**kw)
    raise ValueError(k)


# ------------------------------------------------------------------ reference executor for AssignImplicit

class _Overlay(dict):
    """the unknowns of an implicit solve bound on top of the interpreter's variable store"""

    def __init__(self, bound, base):
        super().__init__(bound)
        self.base = base

    def __getitem__(self, k):
        return dict.__getitem__(self, k) if dict.__contains__(self, k) else self.base[k]

    def __contains__(self, k):
        return dict.__contains__(self, k) or k in self.base


def implicit_mixin(base_cls):
    """NumpyInterpreter leaves exec_AssignImplicit to the user.  This reference executor does what the
    documentation of AssignImplicit says a solver is given: the values of other_params (evaluated in the
    variable store: a name equal to an unknown there means the stored variable), and the expressions, in
    which the solve_variables are unknowns of the solver (bound to the starting guess, never looked up in
    the store) and every other name is a stored variable.  Result k: guess_k - expression_k(guess) (one
    fixed-point sweep; any deterministic function of what a solver may read serves the property)."""
    class WithImplicit(base_cls):
        def exec_AssignImplicit(self, stmt):
            from dagrt.expression import EvaluationMapper
            params = {n: self.eval_mapper(e) for n, e in stmt.other_params.items()}
            guess = params.get("guess", 0)
            start = {v: guess for v in stmt.solve_variables}
            ev = EvaluationMapper(_Overlay(start, self.context), self.functions)
            for name, v, e in zip(stmt.assignees, stmt.solve_variables, stmt.expressions):
                self.context[name] = start[v] - ev(e)
    return WithImplicit


# ------------------------------------------------------------------ test oracle (mirrors TestOracle.v)

def _as_int(x):
    import numpy as np
    if isinstance(x, (bool, np.bool_)):
        return 1 if x else 0
    if isinstance(x, (int, np.integer)):
        return int(x)
    raise UserFunctionError("non-integer argument")


def test_F(name, nres):
    """The user function registered under `name`: a pure function of its arguments.
    h = fold(a*3+z over positional, start len(name)) + sum(len(kwname)*kwvalue);
    name containing 'raise': raises when h mod 3 == 0; name containing 'arr': returns
    the array [h, h+1, ..] of length (h mod 3)+1; name containing 'len': length of its
    first (array) argument; otherwise nres results h, h+1, ...  (nres = last character
    of the name if it is a digit, else 1)."""
    import numpy as np

    def f(*args, **kwargs):
        if "len" in name:
            if len(args) >= 1 and isinstance(args[0], np.ndarray):
                return len(args[0])
            raise UserFunctionError("len of non-array")
        h = len(name)
        for a in args:
            h = h * 3 + _as_int(a)
        for k in kwargs:
            h += len(k) * _as_int(kwargs[k])
        if "raise" in name and h % 3 == 0:
            raise USER_EXCEPTIONS[(h // 3) % len(USER_EXCEPTIONS)](name)
        if "arr" in name:
            return np.array([h + i for i in range(h % 3 + 1)], dtype=np.int64)
        if nres == 1:
            return h
        return tuple(h + i for i in range(nres))
    return f


def nres_of(name):
    return int(name[-1]) if name[-1].isdigit() else 1


def function_map(names):
    return {n: test_F(n, nres_of(n)) for n in names}


# ------------------------------------------------------------------ recording store

class RecDict(dict):
    """dict recording accesses (installed as interpreter.context)"""

    def __init__(self, *a, **k):
        super().__init__(*a, **k)
        self.log = []

    def __getitem__(self, k):
        self.log.append(("get", k))
        return super().__getitem__(k)

    def __contains__(self, k):
        self.log.append(("in", k))
        return super().__contains__(k)

    def __setitem__(self, k, v):
        self.log.append(("set", k))
        super().__setitem__(k, v)

    def __delitem__(self, k):
        self.log.append(("del", k))
        super().__delitem__(k)

    def pop(self, k, *d):
        self.log.append(("del", k))
        return super().pop(k, *d)

    def get(self, k, d=None):
        self.log.append(("get", k))
        return super().get(k, d)

    def canon_log(self):
        out = []
        i = 0
        while i < len(self.log):
            op, k = self.log[i]
            if op == "in":
                if i + 1 < len(self.log) and self.log[i + 1] == ("get", k):
                    i += 1
                out.append(["rd", k])
            elif op == "get":
                out.append(["rd", k])
            elif op == "set":
                out.append(["wr", k])
            else:
                out.append(["dl", k])
            i += 1
        return out


def access_to_coq(a):
    return "(%s %s)" % ({"rd": "Rd", "wr": "Wr", "dl": "Dl"}[a[0]], coq_str(a[1]))


# ------------------------------------------------------------------ random generation

class Gen:
    """Random, mostly well-typed expressions over int scalars, bool flags and int arrays."""

    def __init__(self, rng, ints, arrs=(), flags=(), funcs=("<func>f", "<func>g2x"), loopvars=(), pow_nodes=False):
        self.rng = rng
        self.pow_nodes = pow_nodes
        self.lookup_nodes = False
        self.ints = list(ints)
        self.arrs = list(arrs)
        self.flags = list(flags)
        self.funcs = list(funcs)
        self.loopvars = list(loopvars)

    def objarr(self):
        """a NumPy object array holding expressions (evaluated entry by entry by the interpreter); only at the
        top of a right-hand side, call argument or yielded expression -- Assign flattens its rhs and pymbolic's
        flattener rejects arrays inside sums.  Outside the Coq model: oracle-only stream."""
        r = self.rng
        return ["nparr", [["var", r.choice(self.ints)] if self.ints else ["int", 0], self.int_expr(1)]]

    def int_expr(self, d=3):
        r = self.rng
        if d <= 0 or r.random() < 0.3:
            c = r.random()
            pool = self.ints + self.loopvars
            if c < 0.6 and pool:
                return ["var", r.choice(pool)]
            return ["int", r.randint(-3, 6)]
        c = r.random()
        if self.lookup_nodes and r.random() < 0.2 and self.ints:
            # attribute lookups (x.real, x.imag): outside the Coq model, exercised by the oracles only
            return ["lookup", ["var", r.choice(self.ints)], r.choice(["real", "imag"])]
        if self.pow_nodes and r.random() < 0.25:
            # small powers incl. nested ones and negative constant bases (outside the Coq model)
            base = r.choice([self.int_expr(d - 1), ["int", r.choice([-2, -1, 2, 3])], ["npint", r.choice([-2, -1, 2])],
                             ["pow", self.int_expr(0), ["int", r.choice([0, 1, 2])]]])
            ex = r.choice([["int", 0], ["int", 1], ["int", 2], ["pow", ["int", 2], ["int", r.choice([0, 1, 2])]]])
            return ["bin", "rem", ["pow", base, ex], ["int", 97]]
        if c < 0.25:
            return ["nary", "sum", [self.int_expr(d - 1) for _ in range(r.randint(2, 3))]]
        if c < 0.4:
            return ["nary", "prod", [self.int_expr(d - 2) for _ in range(2)]]
        if c < 0.5:
            # constant non-zero divisors only: numpy integer scalars (array elements) give x // 0 == 0
            # with a warning where Python ints raise ZeroDivisionError
            return ["bin", r.choice(["floordiv", "rem"]), self.int_expr(d - 1), ["int", r.choice([2, 3, -2])]]
        if c < 0.6:
            return ["nary", r.choice(["min", "max"]), [self.int_expr(d - 1) for _ in range(r.randint(2, 3))]]
        if c < 0.72:
            return ["if", self.bool_expr(d - 1), self.int_expr(d - 1), self.int_expr(d - 1)]
        if c < 0.85 and self.arrs:
            return ["bin", "sub", ["var", r.choice(self.arrs)], self.index_expr()]
        if c < 0.95 and self.funcs:
            f = r.choice([g for g in self.funcs if nres_of(g) == 1 and "arr" not in g and "len" not in g]
                         or ["<func>f"])
            kw = [["k", self.int_expr(d - 2)]] if r.random() < 0.3 else []
            return ["call", f, [self.int_expr(d - 2) for _ in range(r.randint(0, 2))], kw]
        return ["var", r.choice(self.ints)] if self.ints else ["int", 1]

    def index_expr(self):
        r = self.rng
        c = r.random()
        if c < 0.5 and self.loopvars:
            return ["var", r.choice(self.loopvars)]
        if c < 0.7 and self.ints:
            return ["bin", "rem", ["var", r.choice(self.ints)], ["int", 2]]
        return ["int", r.randint(-1, 1)]

    def bool_expr(self, d=2):
        r = self.rng
        c = r.random()
        if d <= 0 or c < 0.3:
            if self.flags and r.random() < 0.5:
                return ["var", r.choice(self.flags)]
            return ["bin", r.choice(list(CMP)), self.int_expr(1), self.int_expr(1)]
        if c < 0.4:
            return ["not", self.bool_expr(d - 1)]
        if c < 0.5:
            # a comparison compared with a truth value (Python would chain `a < b == True`)
            return ["bin", r.choice(["eq", "ne"]), self.bool_expr(0), ["bool", r.random() < 0.5]]
        if c < 0.8:
            return ["nary", r.choice(["and", "or"]), [self.bool_expr(d - 1) for _ in range(r.randint(2, 3))]]
        return ["bin", r.choice(list(CMP)), self.int_expr(d - 1), self.int_expr(d - 1)]


def expr_vars(e):
    """Independent recomputation of the variables mentioned by an expression (not function symbols)."""
    k = e[0]
    if k == "var":
        return {e[1]}
    if k == "not":
        return expr_vars(e[1])
    if k == "if":
        return expr_vars(e[1]) | expr_vars(e[2]) | expr_vars(e[3])
    if k == "bin":
        return expr_vars(e[2]) | expr_vars(e[3])
    if k == "nary":
        return set().union(*[expr_vars(c) for c in e[2]]) if e[2] else set()
    if k == "call":
        return set().union(set(), *[expr_vars(c) for c in e[2]], *[expr_vars(v) for _, v in e[3]])
    if k == "pow":
        return expr_vars(e[1]) | expr_vars(e[2])
    if k == "lookup":
        return expr_vars(e[1])
    if k == "nparr":
        return set().union(set(), *[expr_vars(c) for c in e[1]])
    return set()
