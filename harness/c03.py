"""C03: the compiled Fortran stepper computes the same states as the interpreter.

For every generated method description (1-3 phases built with the REAL CodeBuilder, restricted to the
subset the Fortran target supports):
  * the real dagrt.codegen.fortran.CodeGenerator emits a module, gfortran -g compiles it together with
    a generated driver that calls `run` n times and prints every field of dagrt_state_type after each
    call (harness/fortran_rt.py);
  * the REAL NumpyInterpreter runs the same description step by step.
Oracle (independent of the model): generator exception, compiler exit status, program stderr, and
equality of persistent variables / <ret_*> slots / next phase after every call.
Tie: the same programs are given to coq/model/FortranTarget.v (target model fcall, interpreter model
istep, the builder model of C02 for the statements) and evaluated by vm_compute; the model must
reproduce the printed Fortran states and the interpreter's states, and say whether the module
compiles.  The hypotheses of theorem C03_pipeline_partial (`supported`) are evaluated on every case.
"""
import concurrent.futures
import json
import os
import random

from harness import common, lang
from harness import fortran_rt as rt

PID = "C03"
MODULE = "m03"
NY = 3                     # size of the user type "y"
COMPS = ["y", "z", "w"]    # state components; user type = component name, extents fortran_rt.UTYPE_SIZES
RHS_OF = {"y": "<func>rhs", "z": "<func>rhsz", "w": "<func>rhsw"}
TIDS = ["final", "mid"]
# -g as the test-suite does, plus: local reals start as signalling NaN and using one traps, so that
# "the generated code reads a local variable that has no value" is an observable abort instead of a
# silent use of whatever the stack holds
FFLAGS = ("-g", "-finit-real=snan", "-ffpe-trap=invalid")
HEADER = ("From Coq Require Import List ZArith String Bool.\nImport ListNotations.\n"
          "From Dagrt Require Import GenLang GenC03 Lang LangCheck Builder Sched FortranTarget FortranCheck.\n"
          "Open Scope string_scope.\nOpen Scope Z_scope.\n"
          "Definition chk := chk3 lang_del_guarded lang_lhs_sub_reads lang_loop_bound_reads\n"
          "  c03_cond_honoured c03_ite_flag_first c03_ubound_m1 c03_switch_exits c03_next_first c03_guard_outside\n"
          "  c03_ne_fortran\n"
          "  (is_state_of state_exact state_prefixes) (is_state_of interp_keep_exact interp_keep_prefixes)\n"
          "  exec_state_token.\n")


class Boom(Exception):
    """error condition used by generated raise_ statements"""


class Other(Exception):
    """second error condition"""


RAISES = {"Boom": Boom, "Other": Other}


# ------------------------------------------------------------------ expressions

def to_pym(e):
    import pymbolic.primitives as p
    k = e[0]
    if k == "pow":
        return p.Power(to_pym(e[1]), to_pym(e[2]))
    if k == "not":
        return p.LogicalNot(to_pym(e[1]))
    if k == "if":
        return p.If(to_pym(e[1]), to_pym(e[2]), to_pym(e[3]))
    if k == "bin":
        a, b = to_pym(e[2]), to_pym(e[3])
        if e[1] == "sub":
            return p.Subscript(a, b)
        if e[1] in lang.CMP:
            return p.Comparison(a, lang.CMP[e[1]], b)
        raise ValueError("operator outside the Fortran subset: %r" % (e[1],))
    if k == "nary":
        ch = tuple(to_pym(c) for c in e[2])
        return {"sum": p.Sum, "prod": p.Product, "min": p.Min, "max": p.Max,
                "and": p.LogicalAnd, "or": p.LogicalOr}[e[1]](ch)
    if k == "call":
        args = tuple(to_pym(c) for c in e[2])
        if e[3]:
            from immutabledict import immutabledict
            return p.CallWithKwargs(p.Variable(e[1]), args, immutabledict({n: to_pym(v) for n, v in e[3]}))
        return p.Call(p.Variable(e[1]), args)
    return lang.to_pym(e)


def has_pow(e):
    if not isinstance(e, list):
        return False
    if e and e[0] == "pow":
        return True
    return any(has_pow(c) for c in e)


def pow_base_pow(e):
    """a power whose base is itself a power"""
    if not isinstance(e, list):
        return False
    if len(e) == 3 and e[0] == "pow" and isinstance(e[1], list) and e[1] and e[1][0] == "pow":
        return True
    return any(pow_base_pow(c) for c in e)


def pow_neg_const_base(e):
    if not isinstance(e, list):
        return False
    if len(e) == 3 and e[0] == "pow" and e[1][0] == "int" and e[1][1] < 0:
        return True
    return any(pow_neg_const_base(c) for c in e)


def has_ne(e):
    if not isinstance(e, list):
        return False
    if len(e) >= 2 and e[0] == "bin" and e[1] == "ne":
        return True
    return any(has_ne(c) for c in e)


def has_if(e):
    if not isinstance(e, list):
        return False
    if e and e[0] == "if":
        return True
    return any(has_if(c) for c in e)


def has_notnot(e):
    if not isinstance(e, list):
        return False
    if len(e) == 2 and e[0] == "not" and isinstance(e[1], list) and e[1] and e[1][0] == "not":
        return True
    return any(has_notnot(c) for c in e)


def or_under_and(e):
    if not isinstance(e, list):
        return False
    if len(e) == 3 and e[0] == "nary" and e[1] == "and" and any(
            isinstance(c, list) and len(c) == 3 and c[0] == "nary" and c[1] == "or" for c in e[2]):
        return True
    return any(or_under_and(c) for c in e)


def minmax_int_arg(e, loopvars):
    """a min/max one of whose arguments is built from loop counters only"""
    if not isinstance(e, list):
        return False
    if len(e) == 3 and e[0] == "nary" and e[1] in ("min", "max"):
        if any(not real_safe(c, loopvars) for c in e[2]):
            return True
    return any(minmax_int_arg(c, loopvars) for c in e)


def real_safe(e, loopvars):
    """the Fortran kind of e is real (not a pure loop-counter expression)"""
    k = e[0]
    if k == "int":
        return True
    if k == "var":
        return e[1] not in loopvars
    if k == "nary" and e[1] in ("sum", "prod"):
        # pymbolic.flatten (Assign.__init__) drops the neutral element: i + 0 is i again
        neutral = ["int", 0] if e[1] == "sum" else ["int", 1]
        return any(real_safe(c, loopvars) for c in e[2] if c != neutral)
    if k == "if":
        return real_safe(e[2], loopvars) or real_safe(e[3], loopvars)
    if k == "pow":
        return real_safe(e[1], loopvars)
    return True


# ------------------------------------------------------------------ real objects

def add_real(cb, k):
    import pymbolic.primitives as p
    t = k[0]
    if t == "assign":
        lhs = p.Variable(k[1])
        if k[2] is not None:
            lhs = lhs[to_pym(k[2])]
        cb.assign(lhs, to_pym(k[3]), loops=[(i, to_pym(lo), to_pym(hi)) for i, lo, hi in k[4]])
    elif t == "call":
        cb.assign(tuple(p.Variable(x) for x in k[1]), to_pym(["call", k[2], k[3], k[4]]))
    elif t == "yield":
        cb.yield_state(to_pym(k[4]), k[1], to_pym(k[3]), k[2])
    elif t == "fail":
        cb.fail_step()
    elif t == "raise":
        cb.raise_(RAISES[k[1]], "msg")
    elif t == "switch":
        cb.switch_phase(k[1])
    else:
        raise ValueError(k)


def build_real(case):
    """drive one real CodeBuilder per phase -> DAGCode"""
    from dagrt.language import CodeBuilder, DAGCode
    phases = []
    for ph in case["phases"]:
        cb = CodeBuilder(ph["name"])
        stack = []
        for c in ph["prog"]:
            if c[0] == "stmt":
                add_real(cb, c[1])
            elif c[0] == "if":
                ctx = cb.if_(to_pym(c[1]))
                ctx.__enter__()
                stack.append(ctx)
            elif c[0] in ("endif", "endelse"):
                stack.pop().__exit__(None, None, None)
            elif c[0] == "else":
                ctx = cb.else_()
                ctx.__enter__()
                stack.append(ctx)
            else:
                raise ValueError(c)
        assert not stack
        phase = cb.as_execution_phase(ph["next"])
        if case.get("raw_guards"):
            phase = inline_guards(phase, case["raw_guards"])
        phases.append(phase)
    return DAGCode.from_phases_list(phases, case["initial"])


def inline_guards(phase, case_mode=True):
    """the same phase as a hand-written method description: every `<cond>` flag is replaced by the expression it
    was assigned (the statements carry the comparisons themselves as guards, which the statement language allows and
    verify_code accepts), the flag assignments are dropped, and the statements are chained by dependency edges in
    the order they were written, so that the only admissible schedule is the written one.  A guard is then
    evaluated when its statement is reached, not where the `if` stood."""
    from pymbolic import substitute
    from pymbolic.primitives import Variable
    flags, kept = {}, []

    def written(st):        # the builder numbers its statements <phase>_<n> in the order they were written
        tail = st.id.rsplit("_", 1)[-1]
        return (int(tail) if tail.isdigit() else -1, st.id)
    for st in sorted(phase.statements, key=written):
        cond = st.condition
        if not isinstance(cond, bool):
            cond = substitute(cond, {Variable(n): e for n, e in flags.items()})
        if type(st).__name__ == "Assign" and st.assignee.startswith("<cond>") and not st.loops:
            flags[st.assignee] = substitute(st.expression, {Variable(n): e for n, e in flags.items()})
            continue
        if case_mode == "distinct" and not isinstance(cond, bool):
            # the same guard, spelt differently for every statement, so that simplify_ast finds nothing to merge
            # (used to confirm the open finding merged_guard_reevaluated: the difference must then disappear)
            from pymbolic.primitives import Comparison, LogicalAnd
            cond = LogicalAnd((cond, Comparison(len(kept), "==", len(kept))))
        kept.append(st.copy(condition=cond))
    out = []
    for k, st in enumerate(kept):
        out.append(st.copy(depends_on=frozenset([kept[k - 1].id] if k else [])))
    from dagrt.language import ExecutionPhase
    return ExecutionPhase(phase.name, phase.next_phase, out)


def prog_exprs(case):
    for ph in case["phases"]:
        for c in ph["prog"]:
            if c[0] == "if":
                yield c[1], []
            elif c[0] == "stmt":
                k = c[1]
                if k[0] == "assign":
                    lv = [l[0] for l in k[4]]
                    yield k[3], lv
                    if k[2] is not None:
                        yield k[2], lv
                    for n, (_, lo, hi) in enumerate(k[4]):
                        yield lo, lv[:n]
                        yield hi, lv[:n]
                elif k[0] == "call":
                    for e in k[3]:
                        yield e, []
                    for _, e in k[4]:
                        yield e, []
                elif k[0] == "yield":
                    yield k[3], []
                    yield k[4], []


def used_functions(case):
    out = set()

    def walk(e):
        if isinstance(e, list):
            if len(e) == 4 and e[0] == "call" and isinstance(e[1], str) and e[1] in rt.USER_FUNCS:
                out.add(e[1])
            for c in e:
                walk(c)
    for ph in case["phases"]:
        for c in ph["prog"]:
            if c[0] == "stmt" and c[1][0] == "call" and c[1][2] in rt.USER_FUNCS:
                out.add(c[1][2])
            walk(c)
    return sorted(out)


def features(case):
    f = set()
    all_lv = [l[0] for ph in case["phases"] for c in ph["prog"] if c[0] == "stmt" and c[1][0] == "assign"
              for l in c[1][4]]
    for e, lv in prog_exprs(case):
        if has_pow(e):
            f.add("pow")
        if pow_base_pow(e):
            f.add("pow_base_pow")
        if pow_neg_const_base(e):
            f.add("pow_neg_const_base")
        if has_ne(e):
            f.add("ne")
        if has_if(e):
            f.add("cond_expr")
        if minmax_int_arg(e, all_lv):
            f.add("minmax_int")
        if has_notnot(e):
            f.add("notnot")
        if or_under_and(e):
            f.add("or_under_and")
    if case.get("raw_guards"):
        f.add("raw_guards")
    for ph in case["phases"]:
        depth = 0
        for c in ph["prog"]:
            if c[0] in ("if", "else"):
                depth += 1
            if c[0] in ("endif", "endelse"):
                depth -= 1
            if c[0] == "if":
                f.add("if")
            if c[0] == "else":
                f.add("else")
            if c[0] == "stmt":
                k = c[1]
                f.add(k[0])
                if k[0] == "assign" and k[4]:
                    f.add("loop%d" % len(k[4]))
                    lvs = [l[0] for l in k[4]]
                    if depth > 0:
                        f.add("guarded_loop")
                        if any(not persistent(v) and v not in lvs
                               for _, lo, hi in k[4] for v in lang_vars(lo) | lang_vars(hi)):
                            f.add("guarded_loop_local_bound")
                if k[0] == "assign" and k[2] is not None:
                    f.add("subscript_lhs")
                if k[0] == "assign" and k[1].startswith("<state>") and k[3][0] != "var":
                    f.add("utype_arith")
    if len(case["phases"]) > 1:
        f.add("phases%d" % len(case["phases"]))
    for fn in used_functions(case):
        f.add(fn)
    txt = json.dumps(case["phases"])
    for b in LINALG:
        if b in txt:
            f.add(b.replace("<builtin>", ""))
            f.add("linalg")
    for b in ("norm_2", "isnan", "elementwise_abs", "len"):
        if "<builtin>%s" % b in txt:
            f.add(b)
            if sum(1 for c in COMPS if _applied(case, "<builtin>%s" % b, c)) >= 2:
                f.add(b + "_on_two_types")
    if alias_live(case):
        f.add("array_alias_live")
    arrs = array_names(case)
    for ph in case["phases"]:
        for c in ph["prog"]:
            if c[0] == "stmt" and c[1][0] == "assign" and c[1][2] is None and c[1][3][0] == "nary" \
                    and c[1][3][1] in ("sum", "prod") and any(a[0] == "var" and a[1] in arrs for a in c[1][3][2]) \
                    and ('["assign", "%s", [' % c[1][1]) in txt:
                f.add("array_arith_indexed")
    ncomp = sum(1 for c in COMPS if ("<state>%s" % c) in txt)
    if ncomp >= 2:
        f.add("components%d" % ncomp)
    return sorted(f)


def _applied(case, fn, comp):
    """is the function applied to a value of the component's user type (<state>c or its temporary ct)"""
    names = ("<state>%s" % comp, comp + "t")
    found = []

    def walk(e):
        if isinstance(e, list):
            if len(e) == 4 and e[0] == "call" and e[1] == fn and any(a in (["var", n] for n in names) for a in e[2]):
                found.append(1)
            if len(e) == 5 and e[0] == "call" and e[2] == fn and any(a in (["var", n] for n in names) for a in e[3]):
                found.append(1)
            for c in e:
                walk(c)
    for ph in case["phases"]:
        walk(ph["prog"])
    return bool(found)


# ------------------------------------------------------------------ values

def canon(x):
    """Python / numpy value -> int | bool | [int] | None | str(other)"""
    import numpy as np
    if x is None:
        return None
    if isinstance(x, (bool, np.bool_)):
        return bool(x)
    if isinstance(x, (int, np.integer)):
        return int(x)
    if isinstance(x, (float, np.floating)):
        if x != x or x in (float("inf"), float("-inf")) or abs(x) >= 2 ** 53:
            return "float:%r" % float(x)
        return int(x) if x == int(x) else rt.fmt_float(float(x))
    if isinstance(x, np.ndarray) and x.ndim == 1:
        out = [canon(z) for z in x]
        ok = all((isinstance(z, int) and not isinstance(z, bool)) or (isinstance(z, str) and z.startswith("f:"))
                 for z in out)
        return out if ok else "array:%r" % (out,)
    if isinstance(x, np.ndarray) and x.ndim == 0:
        return canon(x.item())
    return "other:%s" % type(x).__name__


def is_ret(name):
    return name.startswith("<ret_")


def persistent(name):
    return name in ("<t>", "<dt>") or name.startswith("<state>") or name.startswith("<p>")


# ------------------------------------------------------------------ the two real runs

def run_interp(case, code):
    """Step the REAL interpreter; after every finished step (completed or failed) record the persistent
    variables, the <ret_*> slots as the yields so far leave them, and the next phase."""
    import numpy as np
    from dagrt.exec_numpy import NumpyInterpreter
    tids = sorted(TIDS_OF(case))
    interp = NumpyInterpreter(code, rt.python_functions(used_functions(case)))
    init = case["init"]
    interp.set_up(t_start=init["<t>"], dt_start=init["<dt>"],
                  context={k[len("<state>"):]: np.array(v, dtype=np.int64) for k, v in init.items()
                           if k.startswith("<state>")})
    for k, v in init.items():
        if k.startswith("<p>"):
            interp.context[k] = v
    steps, slots, end = [], {}, ["done"]
    try:
        if case["nsteps"] > 0:
            for ev in interp.run():
                nm = type(ev).__name__
                if nm == "StateComputed":
                    slots["<ret_time_id>" + ev.component_id] = tids.index(ev.time_id)
                    slots["<ret_time>" + ev.component_id] = canon(ev.t)
                    slots["<ret_state>" + ev.component_id] = canon(ev.state_component)
                else:
                    st = {k: canon(v) for k, v in interp.context.items()}
                    st.update(slots)
                    st["next_phase"] = interp.next_phase
                    st["failed"] = nm == "StepFailed"
                    steps.append(st)
                    if len(steps) >= case["nsteps"]:
                        break
    except Exception as ex:  # noqa: BLE001
        if type(ex).__name__ in RAISES and type(ex) is RAISES[type(ex).__name__]:
            end = ["halt", type(ex).__name__]
        else:
            end = ["crash", type(ex).__name__, str(ex)[:200]]
    return {"steps": steps, "end": end}


def TIDS_OF(case):
    out = set()
    for ph in case["phases"]:
        for c in ph["prog"]:
            if c[0] == "stmt" and c[1][0] == "yield":
                out.add(c[1][2])
    return out


def run_fortran(case, code):
    gen = rt.generate(code, MODULE, dict(rt.UTYPE_SIZES), used_functions(case))
    if "error" in gen:
        return {"gen_error": gen["error"], "message": gen["message"]}
    drv = rt.make_driver(MODULE, gen, case["init"], case["nsteps"], dict(rt.UTYPE_SIZES))
    libs = ("-llapack", "-lblas") if any(b in json.dumps(case["phases"]) for b in ("linear_solve", "svd")) else ()
    res = rt.build_and_run([(MODULE + ".f90", gen["text"]), ("drv.f90", drv)], options=FFLAGS, timeout=60, libs=libs)
    ne_in_code = any("!=" in ln for ln in gen["text"].splitlines() if not ln.lstrip().startswith("! "))
    out = {"symbols": [list(s) for s in gen["symbols"]], "phases": gen["phases"], "time_ids": gen["time_ids"],
           "ne_in_code": ne_in_code,
           "compile_rc": res["compile_rc"], "compile_stderr": res["compile_stderr"]}
    if res["compile_rc"] != 0:
        return out
    steps, done = rt.parse_output(res["stdout"], gen)
    for st in steps:
        for k in list(st):
            if is_ret(k) and isinstance(st[k], str) and st[k].lower().startswith("nan"):
                st[k] = None            # slot still holds the NaN written by initialize
    out.update(run_rc=res["run_rc"], stderr=res["stderr"], steps=steps, done=done,
               trapped=bool(res["run_rc"] not in (0, None) and "SIGFPE" in res["stderr"]))
    return out


def run_case(case):
    """worker: both real runs of one case"""
    try:
        code = build_real(case)
    except Exception as ex:  # noqa: BLE001
        return {"builder_error": "%s: %s" % (type(ex).__name__, str(ex)[:200])}
    try:
        return {"fortran": run_fortran(case, code), "interp": run_interp(case, code)}
    except Exception as ex:  # noqa: BLE001 - a bug of the harness must not look like a pass
        import traceback
        return {"harness_error": "%s: %s" % (type(ex).__name__, ex), "traceback": traceback.format_exc()[-1500:]}


# ------------------------------------------------------------------ oracle (independent of the model)

def oracle(case, res):
    """Decide the property for one case on the two real runs.  None, or a dict naming the failure."""
    if "builder_error" in res:
        return {"kind": "skip", "why": "builder: " + res["builder_error"]}
    if "harness_error" in res:
        return {"kind": "harness_error", "error": res["harness_error"], "traceback": res.get("traceback")}
    f, i = res["fortran"], res["interp"]
    if i["end"][0] == "crash":
        return {"kind": "skip", "why": "interpreter raised %s (%s)" % (i["end"][1], i["end"][2])}
    if "gen_error" in f:
        return {"kind": "generation_error", "exception": f["gen_error"], "message": f["message"]}
    if f["compile_rc"] != 0:
        return {"kind": "compile_error", "stderr": f["compile_stderr"], "ne_in_code": f.get("ne_in_code", False)}
    names = [s[0] for s in f["symbols"]]
    for k, (fs, is_) in enumerate(zip(f["steps"], i["steps"])):
        for n in names:
            fv, iv = fs.get(n), is_.get(n)
            if not same_value(fv, iv):
                return {"kind": "state_differs", "call": k + 1, "variable": n, "fortran": fv, "interpreter": iv}
        if fs.get("next_phase") != is_["next_phase"]:
            return {"kind": "state_differs", "call": k + 1, "variable": "dagrt_next_phase",
                    "fortran": fs.get("next_phase"), "interpreter": is_["next_phase"]}
    if i["end"][0] == "halt":
        if len(f["steps"]) != len(i["steps"]) or f["done"] or i["end"][1] not in f["stderr"]:
            return {"kind": "termination_differs", "interpreter": i["end"], "fortran_calls": len(f["steps"]),
                    "fortran_stderr": f["stderr"][:300]}
        return None
    if len(f["steps"]) != len(i["steps"]) or not f["done"] or f["run_rc"] != 0:
        return {"kind": "termination_differs", "interpreter": i["end"], "fortran_calls": len(f["steps"]),
                "interpreter_steps": len(i["steps"]), "fortran_rc": f["run_rc"], "fortran_stderr": f["stderr"][:300],
                "fortran_trapped": f.get("trapped", False)}
    if f["stderr"].strip():
        return {"kind": "runtime_stderr", "stderr": f["stderr"][:600]}
    return None


def uses_default(case):
    """a call of <func>sq that leaves its defaulted argument y out"""
    found = []

    def walk(e):
        if isinstance(e, list):
            if len(e) == 4 and e[0] == "call" and e[1] == "<func>sq" and len(e[2]) == 1 and not e[3]:
                found.append(e)
            if len(e) == 5 and e[0] == "call" and e[2] == "<func>sq" and len(e[3]) == 1 and not e[4]:
                found.append(e)
            for c in e:
                walk(c)
    for ph in case["phases"]:
        walk(ph["prog"])
    return bool(found)


# ---- arrays copied by name (interpreter: by reference; Fortran: by value)
ARRAY_FUNCS = ("<builtin>array", "<builtin>matmul", "<builtin>transpose", "<builtin>linear_solve", "<builtin>svd")


def array_names(case):
    """name -> length (None when unknown) of every variable that holds a <builtin>array-like array"""
    out, changed = {}, True
    while changed:
        changed = False
        for ph in case["phases"]:
            for c in ph["prog"]:
                if c[0] != "stmt":
                    continue
                k = c[1]
                if k[0] == "call" and k[2] in ARRAY_FUNCS:
                    n = k[3][0][1] if k[2] == "<builtin>array" and k[3] and k[3][0][0] == "int" else None
                    for x in k[1]:
                        if x not in out or (out[x] is None and n is not None):
                            out[x], changed = n, True
                if k[0] == "assign" and k[2] is None and not k[4] and k[3][0] == "var" and k[3][1] in out:
                    if k[1] not in out or (out[k[1]] is None and out[k[3][1]] is not None):
                        out[k[1]], changed = out[k[3][1]], True
    return out


def alias_copies(case):
    """[(phase index, statement index, x, v)] of the assignments `x <- v` of an array variable by name"""
    arrs = array_names(case)
    return [(pi, ci, c[1][1], c[1][3][1]) for pi, ph in enumerate(case["phases"]) for ci, c in enumerate(ph["prog"])
            if c[0] == "stmt" and c[1][0] == "assign" and c[1][2] is None and not c[1][4]
            and c[1][3][0] == "var" and c[1][3][1] in arrs]


def alias_live(case):
    """an array is copied by name and BOTH names are used afterwards (or the source is persistent)"""
    for pi, ci, x, v in alias_copies(case):
        later = json.dumps(case["phases"][pi]["prog"][ci + 1:])
        if persistent(v) or ('"%s"' % v in later and ('"%s"' % x in later or persistent(x))):
            return True
    return False


def dealias(case):
    """the same program with every copy by name written element-wise (None if a length is unknown)"""
    import copy
    arrs = array_names(case)
    new = copy.deepcopy(strip(case))
    for pi, ph in enumerate(new["phases"]):
        prog = []
        for c in ph["prog"]:
            if c[0] == "stmt" and c[1][0] == "assign" and c[1][2] is None and not c[1][4] \
                    and c[1][3][0] == "var" and c[1][3][1] in arrs:
                n = arrs[c[1][3][1]]
                if n is None:
                    return None
                x, v = c[1][1], c[1][3][1]
                prog.append(["stmt", ["call", [x], "<builtin>array", [["int", n]], []]])
                prog.append(["stmt", ["assign", x, ["var", "q9"], ["bin", "sub", ["var", v], ["var", "q9"]],
                                      [["q9", ["int", 0], ["int", n]]]]])
            else:
                prog.append(c)
        ph["prog"] = prog
    return new


def is_alias_finding(case, o):
    """narrow matcher of the open finding array_alias_in_place_write: the states differ, the program copies an
    array variable by name, and it stops failing when the copies are written element-wise"""
    if o["kind"] != "state_differs" or not alias_copies(case):
        return False
    d = dealias(case)
    if d is None:
        return False
    try:
        return oracle(d, run_case(d)) is None
    except Exception:  # noqa: BLE001
        return False


def _as_number(v):
    if isinstance(v, bool):
        return None
    if isinstance(v, int):
        return float(v)
    if isinstance(v, str) and v.startswith("f:"):
        return float(v[2:])
    return None


def same_value(a, b):
    """integers, booleans, None: equal and of the same type; as soon as a non-integral number is involved:
    equal to 10 significant digits (absolute 1e-9 near zero); lists element-wise"""
    if isinstance(a, list) and isinstance(b, list):
        return len(a) == len(b) and all(same_value(x, y) for x, y in zip(a, b))
    x, y = _as_number(a), _as_number(b)
    if x is not None and y is not None and (isinstance(a, str) or isinstance(b, str)):
        return abs(x - y) <= 1e-9 * max(1.0, abs(x), abs(y))
    return a == b and type(a) is type(b)


def reassoc(e):
    """the expression with every chain of powers associated to the right, the way Fortran reads `a**b**c`"""
    def append(t, x):
        return ["pow", t[1], append(t[2], x)] if t[0] == "pow" else ["pow", t, x]
    if not isinstance(e, list):
        return e
    if len(e) == 3 and e[0] == "pow":
        b, x = reassoc(e[1]), reassoc(e[2])
        return append(b, x) if b[0] == "pow" else ["pow", b, x]
    return [reassoc(c) for c in e]


def is_power_finding(case, o):
    """narrow matcher of the finding power_base_not_parenthesised: some base is itself a power, and either the states
    differ and stop differing when the interpreter is given the powers associated the way Fortran reads the printed text,
    or that reading raises a negative constant to a power (which gfortran rejects) where the program does not"""
    if not any(pow_base_pow(ph["prog"]) for ph in case["phases"]):
        return False
    import copy
    d = copy.deepcopy(strip(case))
    for ph in d["phases"]:
        ph["prog"] = reassoc(ph["prog"])
    if o["kind"] == "compile_error":
        return o["stderr"].count("\nError:") == 1 and "Raising a negative REAL" in o["stderr"] \
            and any(pow_neg_const_base(ph["prog"]) for ph in d["phases"]) \
            and not any(pow_neg_const_base(ph["prog"]) for ph in case["phases"])
    if o["kind"] != "state_differs":
        return False
    try:
        return oracle(d, run_case(d)) is None
    except Exception:  # noqa: BLE001
        return False


def guard_rewritten_under_itself(case):
    """hand-written guards only: inside an if block, a statement assigns a variable of the block's own condition
    and another statement of the same block follows it (so that two adjacent statements carry one guard, the first
    of which changes the guard's value)"""
    if not case.get("raw_guards"):
        return False

    def vars_of(e, acc):
        if isinstance(e, list):
            if len(e) == 2 and e[0] == "var" and isinstance(e[1], str):
                acc.add(e[1])
            for c in e:
                vars_of(c, acc)
        return acc
    for ph in case["phases"]:
        stack, last_if = [], set()      # frames: [variables of the block's condition, a statement of the block wrote one]
        for c in ph["prog"]:
            if c[0] == "if":
                stack.append([vars_of(c[1], set()), False])
            elif c[0] == "else":
                stack.append([set(last_if), False])
            elif c[0] in ("endif", "endelse"):
                fr = stack.pop()
                last_if = fr[0] if c[0] == "endif" else set()
            elif c[0] == "stmt":
                if any(fr[1] for fr in stack):
                    return True
                k = c[1]
                written = [k[1]] if k[0] == "assign" else list(k[1]) if k[0] == "call" else []
                for fr in stack:
                    if any(w in fr[0] for w in written):
                        fr[1] = True
    return False


def agrees_unmerged(case):
    """the same hand-written program with every guard spelt differently (nothing for simplify_ast to merge): do
    interpreter and compiled stepper agree then?  (one extra gfortran run per failing candidate)"""
    d = dict(strip(case), raw_guards="distinct")
    try:
        return oracle(d, run_case(d)) is None
    except Exception:  # noqa: BLE001
        return False


def classify(case, o):
    """narrow classes used for known findings"""
    feats = features(case)
    if o["kind"] == "state_differs" and guard_rewritten_under_itself(case) and agrees_unmerged(case):
        return "merged_guard_reevaluated"
    if o["kind"] == "generation_error" and o["exception"] == "ValueError" and "NoneType" in o["message"] \
            and "pow" in feats:
        return "power_kind_none"
    if is_power_finding(case, o):
        return "power_base_not_parenthesised"
    if o["kind"] == "compile_error" and "pow_neg_const_base" in feats and o["stderr"].count("\nError:") == 1 \
            and "Raising a negative REAL" in o["stderr"]:
        return "power_negative_constant_base"
    if o["kind"] == "termination_differs" and "array_arith_indexed" in feats and not o.get("fortran_trapped") \
            and o.get("fortran_rc") not in (0, None):
        return "array_expression_lower_bound"
    if is_alias_finding(case, o):
        return "array_alias_in_place_write"
    if o["kind"] == "generation_error" and o["exception"] == "ValueError" \
            and "mismatched user types" in o["message"] and "elementwise_abs_on_two_types" in feats:
        return "elementwise_abs_two_user_types"
    if o["kind"] == "generation_error" and o["exception"] == "TypeError" and "sequence item" in o["message"] \
            and uses_default(case):
        return "default_argument_unsupported"
    if o["kind"] == "compile_error" and "minmax_int" in feats and o["stderr"].count("\nError:") == 1 \
            and "intrinsic" in o["stderr"] and "must be INTEGER" in o["stderr"] \
            and ("min" in o["stderr"] or "max" in o["stderr"]):
        return "minmax_integer_argument"
    if o["kind"] == "compile_error" and "notnot" in feats and o["stderr"].count("\nError:") == 1 \
            and "cannot be used as a defined operator" in o["stderr"]:
        return "double_negation_not_fortran"
    if o["kind"] == "compile_error" and "ne" in feats and o.get("ne_in_code"):
        return "ne_not_fortran"
    if o["kind"] == "termination_differs" and o.get("fortran_trapped") and "guarded_loop_local_bound" in feats:
        return "guard_inside_loops_unset_bound"
    return o["kind"]


# ------------------------------------------------------------------ Coq terms

def bcall_to_coq(c):
    if c[0] == "stmt":
        return "(BStmt %s)" % lang.kind_to_coq(c[1])
    if c[0] == "if":
        return "(BIf %s)" % lang.to_coq(c[1])
    return {"endif": "BEndIf", "else": "BElse", "endelse": "BEndElse"}[c[0]]


def value_to_coq(v):
    if v is None:
        return "None"
    if isinstance(v, bool):
        return "(Some (VBool %s))" % ("true" if v else "false")
    if isinstance(v, int):
        return "(Some (VInt (%d)))" % v
    if isinstance(v, list):
        return "(Some (VArr [%s]))" % "; ".join("(%d)" % z for z in v)
    raise ValueError(v)


def representable(v):
    return v is None or isinstance(v, (bool, int)) or (isinstance(v, list) and all(isinstance(z, int) for z in v))


def steps_to_coq(steps, univ):
    return "[%s]" % "; ".join("mkX [%s] %s" % ("; ".join(value_to_coq(st.get(n)) for n in univ),
                                                lang.coq_str(st["next_phase"])) for st in steps)


def end_to_coq(end):
    if end[0] == "halt":
        return "(XHalt %s)" % lang.coq_str(end[1])
    if end[0] == "abort":
        return "XAbort"
    return "XDone"


def modelled(case):
    """inside the expression language of coq/model/Lang.v"""
    feats = features(case)
    return "pow" not in feats and "utype_arith" not in feats and "norm_2" not in feats and "linalg" not in feats \
        and "array_alias_live" not in feats and "array_arith_indexed" not in feats


def case_term(case, res):
    """Coq term of one case, or None when the case is outside the model's universe"""
    if not modelled(case) or "builder_error" in res or "harness_error" in res:
        return None
    f, i = res["fortran"], res["interp"]
    if i["end"][0] == "crash" or "gen_error" in f:
        return None
    compiles = f["compile_rc"] == 0
    univ = [s[0] for s in f["symbols"]]
    fsteps = f.get("steps", []) if compiles else []
    for st in list(fsteps) + i["steps"]:
        if not all(representable(st.get(n)) for n in univ):
            return None
    if compiles and i["end"][0] == "halt":
        fend = ["halt", i["end"][1]] if i["end"][1] in f.get("stderr", "") else ["done"]
    elif compiles and f.get("trapped"):
        fend = ["abort"]            # died in call len(fsteps)+1: the model must call that call undefined
    else:
        fend = ["done"]
    init = {}
    for k, v in case["init"].items():
        init[k] = ["arr", v] if isinstance(v, list) else (["bool", v] if isinstance(v, bool) else ["int", v])
    phases = "; ".join("mkB %s %s [%s]" % (lang.coq_str(ph["name"]), lang.coq_str(ph["next"]),
                                           "; ".join(bcall_to_coq(c) for c in ph["prog"]))
                       for ph in case["phases"])
    return "(mkCase [%s] %s %s [%s] [%s] %s %s %s %s %s)" % (
        phases, lang.store_to_coq(init), lang.coq_str(case["initial"]),
        "; ".join(lang.coq_str(n) for n in univ), "; ".join(lang.coq_str(t) for t in sorted(TIDS_OF(case))),
        "true" if compiles else "false", steps_to_coq(fsteps, univ), end_to_coq(fend),
        steps_to_coq(i["steps"], univ), end_to_coq(i["end"]))


# ------------------------------------------------------------------ generation

PS = ["<p>x", "<p>y", "<p>k"]
LOCALS = ["u", "v", "w"]
B = 40


class PGen:
    """One random method description inside the Fortran-supported subset."""

    def __init__(self, rng, allow):
        self.r = rng
        self.allow = allow              # optional features: pow, ne, cond_expr, utype_arith, raise, zero_trip
        self.na = rng.choice([3, 4])
        c = rng.random()
        # state components, each of its own user type / extent
        self.comps = [] if c < 0.25 else (["y"] if c < 0.45 else rng.sample(COMPS, rng.choice([2, 2, 3])))
        self.use_y = bool(self.comps)
        self.use_arr = rng.random() < 0.65
        self.use_bool = rng.random() < 0.4
        self.use_gl = rng.random() < 0.35     # a guarded loop whose bound is assigned under the same guard
        n = rng.choice([1, 1, 2, 2, 3])
        self.names = ["pa", "pb", "pc"][:n]

    # ---- expressions
    def const(self):
        return ["int", self.r.randint(-3, 6)]

    def leaf(self, scope):
        r = self.r
        pool = list(PS) + ["<t>"] + sorted(scope["locals"]) + [lv for lv, _, _ in scope["loops"]]
        if r.random() < 0.7:
            return ["var", r.choice(pool)]
        return self.const()

    def index(self, scope):
        ok = [lv for lv, lo, hi in scope["loops"] if lo >= 0 and hi <= self.na]
        if ok and self.r.random() < 0.7:
            return ["var", self.r.choice(ok)]
        return ["int", self.r.randint(0, self.na - 1)]

    def num(self, d, scope):
        r = self.r
        if d <= 0 or r.random() < 0.25:
            return self.leaf(scope)
        c = r.random()
        if c < 0.30:
            return ["nary", "sum", [self.num(d - 1, scope) for _ in range(r.randint(2, 3))]]
        if c < 0.42:
            return ["nary", "prod", [["int", r.choice([-2, -1, 2, 3])], self.num(d - 1, scope)]]
        if c < 0.52:
            lvs = [lv for lv, _, _ in scope["loops"]]
            args = [self.num(d - 1, scope) for _ in range(r.randint(2, 3))]
            args = [a if real_safe(a, lvs) else ["nary", "sum", [a, ["int", r.choice([1, 2])]]] for a in args]
            return ["nary", r.choice(["min", "max"]), args]
        if c < 0.64 and "cond_expr" in self.allow:
            cnd = self.nested_bool(scope) if r.random() < 0.4 else self.boolean(d - 1, scope)
            return ["if", cnd, self.num(d - 1, scope), self.num(d - 1, scope)]
        if c < 0.76 and scope["arr"]:
            return ["bin", "sub", ["var", r.choice(scope["arr"])], self.index(scope)]
        if c < 0.86:
            if r.random() < 0.5:
                return ["call", "<func>sq", [self.small(scope)], [["y", self.small(scope)]]]
            return ["call", "<func>sq", [self.small(scope), self.small(scope)], []]
        if c < 0.90 and scope["arr"]:
            return ["call", "<builtin>len", [["var", r.choice(scope["arr"])]], []]
        if c < 0.94 and "pow" in self.allow:
            # variable base only: an integer exponent is printed 2d0 and gfortran rejects a negative
            # CONSTANT base raised to a real power at compile time
            return ["pow", ["var", r.choice(PS)], ["int", r.choice([2, 3])]]
        return self.leaf(scope)

    def small(self, scope):
        """argument of sq: kept small so that squares stay exact"""
        e = self.num(1, scope)
        lvs = [lv for lv, _, _ in scope["loops"]]
        if not real_safe(e, lvs):
            e = ["nary", "sum", [e, ["int", 1]]]
        return ["nary", "min", [["nary", "max", [e, ["int", -9]]], ["int", 9]]]

    def clamp(self, e, scope):
        lvs = [lv for lv, _, _ in scope["loops"]]
        if not real_safe(e, lvs):
            e = ["nary", "sum", [e, ["int", 1]]]
        return ["nary", "min", [["nary", "max", [e, ["int", -B]]], ["int", B]]]

    def boolean(self, d, scope):
        r = self.r
        c = r.random()
        ops = ["lt", "le", "gt", "ge", "eq"] + (["ne", "ne"] if "ne" in self.allow else [])
        if d <= 0 or c < 0.45:
            if self.use_bool and r.random() < 0.3:
                return ["var", "<p>f"]
            return ["bin", r.choice(ops), self.num(1, scope), self.num(1, scope)]
        if c < 0.6:
            b = self.boolean(d - 1, scope)
            # `.not. .not. x` is rejected by gfortran (open finding double_negation_not_fortran)
            return b[1] if b[0] == "not" else ["not", b]
        if c < 0.85:
            return ["nary", r.choice(["and", "or"]), [self.boolean(d - 1, scope) for _ in range(r.randint(2, 3))]]
        return ["bin", r.choice(ops), self.num(d - 1, scope), self.num(d - 1, scope)]

    def batom(self, scope):
        """a comparison of small sums whose truth value changes from step to step, or a flag"""
        r = self.r
        if self.use_bool and r.random() < 0.25:
            return ["var", "<p>f"]
        ops = ["lt", "le", "gt", "ge", "eq"] + (["ne"] if "ne" in self.allow else [])
        lhs = r.choice([["var", r.choice(PS)], ["nary", "sum", [["var", r.choice(PS)], ["var", r.choice(PS + ["<t>"])]]],
                        ["nary", "sum", [["var", r.choice(PS)], ["int", r.randint(-2, 2) or 1]]]])
        rhs = r.choice([["int", r.randint(-1, 6)], ["var", r.choice(PS)],
                        ["nary", "sum", [["var", r.choice(PS)], ["int", r.randint(-3, 3) or 2]]]])
        return ["bin", r.choice(ops), lhs, rhs]

    def nested_bool(self, scope):
        """and / or / not nested directly inside each other (precedence and parenthesisation of the printer)"""
        r = self.r
        A, B, C, D = (self.batom(scope) for _ in range(4))
        AND = lambda *a: ["nary", "and", list(a)]
        OR = lambda *a: ["nary", "or", list(a)]
        NOT = lambda a: ["not", a]
        shapes = [AND(A, OR(B, C)), AND(OR(A, B), C), OR(AND(A, B), C), OR(A, AND(B, C)),
                  NOT(AND(A, B)), NOT(OR(A, B)), AND(NOT(OR(A, B)), C), OR(NOT(AND(A, B)), C),
                  AND(A, OR(B, AND(C, D))), OR(A, AND(B, OR(C, D))), AND(OR(A, B), OR(C, D)),
                  OR(AND(A, B), AND(C, D)), AND(A, NOT(B), OR(C, D)), OR(A, NOT(AND(B, NOT(C)))),
                  AND(A, AND(B, OR(C, D))), OR(OR(A, B), AND(C, D)), NOT(AND(A, OR(B, C)))]
        return r.choice(shapes)

    # ---- statements
    def loops(self, scope, for_index):
        r = self.r
        n = r.choice([1, 1, 1, 2])
        out = []
        for k in range(n):
            lv = ["i", "j"][k]
            if for_index:
                lo = r.choice([0, 0, 1])
                hi = r.randint(lo + 1, self.na)
                los, his = ["int", lo], ["int", hi]
            else:
                lo = r.choice([0, 0, 1])
                hi = r.randint(lo + (0 if "zero_trip" in self.allow and r.random() < 0.2 else 1), lo + 3)
                if "zero_trip" in self.allow and r.random() < 0.08:
                    hi = lo - r.randint(1, 2)           # negative range
                los, his = ["int", lo], ["int", hi]
                c = r.random()
                if k == 1 and c < 0.4:
                    his, hi = ["nary", "sum", [["var", "i"], ["int", 1]]], 4
                elif c < 0.25:
                    # data-dependent bound, between 0 (or 1) and 3
                    low = 0 if "zero_trip" in self.allow else 1
                    his = ["nary", "min", [["nary", "max", [["var", r.choice(PS)], ["int", low]]], ["int", 3]]]
                    los, lo, hi = ["int", 0], 0, 3
            out.append((lv, los, his, lo, hi))
        return out

    def stmts(self, scope, top):
        """one or more builder calls (a list)"""
        r = self.r
        if len(self.comps) >= 2 and r.random() < 0.15:
            return self.comp_stmts(scope)
        c = r.random()
        lp = []
        if c < 0.26:
            x = r.choice(PS + LOCALS)
            rhs = self.clamp(self.num(2, scope), scope)
            if x in LOCALS and top:
                scope["new_locals"].add(x)
            elif x in LOCALS and x not in scope["locals"]:
                x = r.choice(PS)
            return [["stmt", ["assign", x, None, rhs, []]]]
        if c < 0.40:
            lp = self.loops(scope, False)
            x = r.choice(PS + sorted(scope["locals"]))
            sc = dict(scope, loops=[(lv, lo, hi) for lv, _, _, lo, hi in lp])
            rhs = self.clamp(["nary", "sum", [["var", x], self.num(1, sc)]], sc)
            return [["stmt", ["assign", x, None, rhs, [[lv, lo, hi] for lv, lo, hi, _, _ in lp]]]]
        if c < 0.50 and scope["warr"]:
            a = r.choice(scope["warr"])
            if r.random() < 0.5:
                lp = self.loops(scope, True)[:1]
                sc = dict(scope, loops=[(lv, lo, hi) for lv, _, _, lo, hi in lp])
                return [["stmt", ["assign", a, ["var", lp[0][0]], self.clamp(self.num(1, sc), sc),
                                  [[lv, lo, hi] for lv, lo, hi, _, _ in lp]]]]
            return [["stmt", ["assign", a, ["int", r.randint(0, self.na - 1)], self.clamp(self.num(1, scope), scope), []]]]
        if c < 0.60:
            if r.random() < 0.5:
                xs = r.sample(PS + (LOCALS if top else sorted(scope["locals"])), 2)
                for x in xs:
                    if x in LOCALS and top:
                        scope["new_locals"].add(x)
                return [["stmt", ["call", xs, "<func>two", [self.small(scope)], []]]]
            x = r.choice(PS)
            if r.random() < 0.5:
                return [["stmt", ["call", [x], "<func>sq", [self.small(scope)], [["y", self.small(scope)]]]]]
            return [["stmt", ["call", [x], "<func>sq", [self.small(scope), self.small(scope)], []]]]
        if c < 0.70 and self.comps:
            return self.comp_stmts(scope)
        if c < 0.80 and self.comps:
            cp = r.choice(self.comps)
            tm = ["var", "<t>"] if r.random() < 0.6 else ["nary", "sum", [["var", "<t>"], ["int", r.randint(1, 3)]]]
            return [["stmt", ["yield", cp, r.choice(TIDS), tm, ["var", "<state>" + cp]]]]
        if c < 0.86:
            return [["stmt", ["assign", "<t>", None, ["nary", "sum", [["var", "<t>"], ["var", "<dt>"]]], []]]]
        if c < 0.92 and self.use_bool:
            return [["stmt", ["assign", "<p>f", None,
                              self.nested_bool(scope) if r.random() < 0.6 else self.boolean(2, scope), []]]]
        return [["stmt", ["assign", r.choice(PS), None, self.clamp(self.num(2, scope), scope), []]]]

    def rhs_pair(self, cp):
        return [["stmt", ["call", [cp + "t"], RHS_OF[cp], [["var", "<t>"], ["var", "<state>" + cp]], []]],
                ["stmt", ["assign", "<state>" + cp, None, ["var", cp + "t"], []]]]

    def comp_stmts(self, scope):
        """operations on the state components; preferably the SAME built-in on several components of different
        user types (the Fortran generator emits one helper subroutine per function and argument kinds)"""
        r = self.r
        if r.random() < 0.3:
            return self.rhs_pair(r.choice(self.comps))
        cps = list(self.comps)
        r.shuffle(cps)
        cps = cps[:r.choice([1, 2, 2, 3])]
        kinds = ["len", "len", "len", "abs", "norm", "norm"] + (["isnan"] if self.use_bool else []) \
            + (["lin"] if "utype_arith" in self.allow else [])
        b = r.choice(kinds)
        out = []
        for cp in cps:
            st = ["var", "<state>" + cp]
            if b == "len":
                out.append(["stmt", ["call", [r.choice(PS)], "<builtin>len", [st], []]])
            elif b == "abs":
                out.append(["stmt", ["call", [cp + "t"], "<builtin>elementwise_abs", [st], []]])
                out.append(["stmt", ["assign", "<state>" + cp, None, ["var", cp + "t"], []]])
            elif b == "isnan":
                out.append(["stmt", ["call", ["<p>f"], "<builtin>isnan", [st], []]])
            elif b == "lin":
                out.append(["stmt", ["assign", "<state>" + cp, None,
                                     ["nary", "sum", [st, ["nary", "prod", [["int", r.choice([2, -1])], st]]]], []]])
        if b == "norm":
            calls = [["call", "<builtin>norm_2", [["var", "<state>" + cp]], []] for cp in cps]
            if len(calls) == 1:
                out.append(["stmt", ["call", ["<p>n"], "<builtin>norm_2", calls[0][2], []]])
            else:
                out.append(["stmt", ["assign", "<p>n", None, ["nary", "sum", calls], []]])
        return out

    def guarded_loop(self, scope):
        """with if_(c): m <- small value in -1..3;  x <- x + ... [i = lo..m]   (m has no value while c is false)"""
        r = self.r
        x = r.choice(PS)
        bound = ["nary", "min", [["nary", "max", [self.num(1, scope), ["int", -1]]], ["int", 3]]]
        lo = r.choice([0, 0, 1])
        sc = dict(scope, loops=[("i", lo, 3)])
        rhs = self.clamp(["nary", "sum", [["var", x], self.num(1, sc)]], sc)
        return [["if", self.boolean(1, scope)],
                ["stmt", ["assign", "m", None, bound, []]],
                ["stmt", ["assign", x, None, rhs, [["i", ["int", lo], ["var", "m"]]]]],
                ["endif"]]

    def control(self):
        r = self.r
        c = r.random()
        if c < 0.45:
            return ["stmt", ["fail"]]
        if c < 0.93 or "raise" not in self.allow:
            return ["stmt", ["switch", r.choice(self.names)]]
        return ["stmt", ["raise", r.choice(sorted(RAISES))]]

    def phase(self, name, first):
        r = self.r
        prog = []
        scope = {"locals": set(), "new_locals": set(), "loops": [], "arr": [], "warr": []}
        if self.use_arr and not first:
            scope["arr"], scope["warr"] = ["<p>a"], ["<p>a"]
        if first:
            for v in PS:
                prog.append(["stmt", ["assign", v, None, ["nary", "sum", [["var", v], ["int", r.choice([1, 1, 2])]]], []]])
            if self.use_bool:
                prog.append(["stmt", ["assign", "<p>f", None, ["bin", "gt", ["var", r.choice(PS)], ["int", r.randint(0, 3)]], []]])
            for cp in self.comps:
                prog.extend(self.rhs_pair(cp))
            if self.use_arr:
                prog.append(["stmt", ["call", ["a"], "<builtin>array", [["int", self.na]], []]])
                sc = dict(scope, loops=[("i", 0, self.na)])
                prog.append(["stmt", ["assign", "a", ["var", "i"], self.clamp(self.num(1, sc), sc),
                                      [["i", ["int", 0], ["int", self.na]]]]])
                prog.append(["stmt", ["assign", "<p>a", None, ["var", "a"], []]])
                scope["arr"], scope["warr"] = ["<p>a"], ["<p>a"]
        n = r.randint(3, 8)
        depth, can_else, stack, gl_done = 0, False, [], False
        while n > 0:
            c = r.random()
            if c < 0.16 and depth < 2:
                prog.append(["if", self.nested_bool(scope) if r.random() < 0.5 else self.boolean(1, scope)])
                stack.append("if")
                depth += 1
                can_else = False
                n -= 1
            elif c < 0.27 and stack:
                kind = stack.pop()
                prog.append(["endif"] if kind == "if" else ["endelse"])
                depth -= 1
                can_else = kind == "if"
            elif can_else and depth < 2 and c < 0.55:
                prog.append(["else"])
                stack.append("else")
                depth += 1
                can_else = False
            elif c < 0.46 and depth > 0:
                prog.append(self.control())
                can_else = False
                n -= 1
            elif c < 0.53 and depth < 2 and self.use_gl and not gl_done:
                prog.extend(self.guarded_loop(scope))
                can_else, gl_done = True, True
                n -= 2
            else:
                prog.extend(self.stmts(scope, depth == 0))
                if depth == 0:
                    scope["locals"] |= scope["new_locals"]
                scope["new_locals"] = set()
                can_else = False
                n -= 1
        while stack:
            kind = stack.pop()
            prog.append(["endif"] if kind == "if" else ["endelse"])
        if r.random() < 0.15:
            prog.append(self.control())
        return prog

    def case(self):
        r = self.r
        phases = []
        for k, nm in enumerate(self.names):
            phases.append({"name": nm, "next": r.choice(self.names), "prog": self.phase(nm, k == 0)})
        init = {"<t>": 0, "<dt>": 1}
        for v in PS:
            init[v] = r.randint(-2, 5)
        if self.use_bool:
            init["<p>f"] = r.random() < 0.5
        for cp in self.comps:
            init["<state>" + cp] = [r.randint(-2, 4) for _ in range(rt.UTYPE_SIZES[cp])]
        if "<p>n" in json.dumps(phases):
            init["<p>n"] = 0
        return {"phases": phases, "initial": self.names[0], "init": init, "nsteps": r.choice([2, 3, 3, 4])}


LINALG = ("<builtin>matmul", "<builtin>transpose", "<builtin>linear_solve", "<builtin>svd")


def linalg_case(rng):
    """array built-ins on NON-SQUARE shapes, flat column-major arrays filled by loops; every call form:
    positional, trailing keywords, all keywords; column counts as constants, persistent scalars or sums"""
    V = lambda x: ["var", x]
    I = lambda z: ["int", z]
    S = lambda *a: ["nary", "sum", list(a)]
    P = lambda *a: ["nary", "prod", list(a)]
    A = lambda x, rhs, loops=(), sub=None: ["stmt", ["assign", x, sub, rhs, [list(l) for l in loops]]]
    shapes = [(m, k, n) for m in (1, 2, 3) for k in (1, 2, 3) for n in (1, 2, 3) if not (m == k == n)]
    m, k, n = rng.choice(shapes)
    prog = [A("<p>x", S(V("<p>x"), I(1)))]
    init = {"<t>": 0, "<dt>": 1, "<p>x": rng.randint(-1, 2), "<p>k": k, "<p>l": 0}
    # touch <p>k so that it is declared (and stays k)
    prog.append(A("<p>k", ["nary", "max", [V("<p>k"), I(k)]]))

    def fill(name, size, c1, c2):
        prog.append(["stmt", ["call", [name], "<builtin>array", [I(size)], []]])
        prog.append(A(name, S(P(I(c1), V("i"), V("i")), P(I(c2), V("i")), V("<p>x")), [("i", I(0), I(size))], sub=V("i")))

    def cols(c, persistent_ok):
        d = rng.random()
        if d < 0.4:
            return I(c)
        if d < 0.6 and persistent_ok:
            return V("<p>k")
        return S(I(c - 1), I(1)) if c > 1 else I(1)

    def call(xs, f, pos, kwnames):
        """pos: all arguments in order; the last len(kwnames) of them passed by keyword"""
        npos = len(pos) - len(kwnames)
        return ["stmt", ["call", xs, f, pos[:npos], [[nm, e] for nm, e in zip(kwnames, pos[npos:])]]]

    fill("a", m * k, rng.choice([1, -1, 2]), rng.choice([-3, 2, 1]))
    fill("b", k * n, rng.choice([1, 2]), rng.choice([-2, 1, 3]))
    forms = [[], ["b_cols"], ["a_cols", "b_cols"], ["a", "b", "a_cols", "b_cols"]]
    prog.append(call(["c"], "<builtin>matmul", [V("a"), V("b"), cols(k, True), cols(n, False)], rng.choice(forms)))
    prog.append(A("<p>c", V("c")))
    prog.append(call(["d"], "<builtin>transpose", [V("a"), cols(k, True)], rng.choice([[], ["a_cols"], ["a", "a_cols"]])))
    prog.append(A("<p>d", V("d")))
    # (n x k) . (k x m): the transposes, so the result is c transposed
    prog.append(call(["e"], "<builtin>transpose", [V("b"), I(n)], []))
    prog.append(call(["g"], "<builtin>matmul", [V("e"), V("d"), I(k), I(m)], rng.choice(forms)))
    prog.append(A("<p>g", V("g")))
    prog.append(["stmt", ["call", ["<p>l"], "<builtin>len", [V("g")], []]])
    if rng.random() < 0.7:
        # A (q x q), diagonally dominant, with r right-hand sides
        q, r_ = rng.choice([(2, 1), (2, 3), (3, 1), (3, 2)])
        prog.append(["stmt", ["call", ["h"], "<builtin>array", [I(q * q)], []]])
        prog.append(A("h", S(V("i"), I(-2)), [("i", I(0), I(q * q))], sub=V("i")))
        prog.append(A("h", S(I(7), V("j"), V("<p>x")), [("j", I(0), I(q))], sub=S(P(V("j"), I(q)), V("j"))))
        fill("r", q * r_, 1, -2)
        prog.append(call(["s"], "<builtin>linear_solve", [V("h"), V("r"), I(q), I(r_)],
                         rng.choice([[], ["a_cols", "b_cols"], ["b", "a_cols", "b_cols"]])))
        prog.append(A("<p>s", V("s")))
        # h . s must give r back
        prog.append(call(["u"], "<builtin>matmul", [V("h"), V("s"), I(q), I(r_)], []))
        prog.append(A("<p>u", V("u")))
    if rng.random() < 0.5:
        prog.append(call(["uu", "sg", "vt"], "<builtin>svd", [V("a"), I(k)], rng.choice([[], ["a_cols"]])))
        prog.append(A("<p>sg", V("sg")))
    return {"phases": [{"name": "pa", "next": "pa", "prog": prog}], "initial": "pa", "init": init,
            "nsteps": rng.choice([2, 3])}


def power_case(rng):
    """powers: a power as base and as exponent, negated / sum / subscript / loop-counter bases, exponents 0, positive,
    negative (results then are non-integral: float sinks <p>q, <p>r), inside sums, products and guards"""
    V = lambda x: ["var", x]
    I = lambda z: ["int", z]
    S = lambda *a: ["nary", "sum", list(a)]
    P = lambda *a: ["nary", "prod", list(a)]
    PW = lambda b, e: ["pow", b, e]
    A = lambda x, rhs, loops=(), sub=None: ["stmt", ["assign", x, sub, rhs, [list(l) for l in loops]]]
    x = V("<p>x")
    sb = ["nary", "min", [["nary", "max", [x, I(-3)]], I(3)]]          # small base, may be negative or zero
    nz = S(P(sb, sb), I(1))                                              # >= 1
    ints = [PW(PW(sb, I(2)), I(3)), PW(PW(sb, I(3)), I(2)), PW(sb, PW(I(2), I(2))), PW(PW(sb, I(2)), PW(I(2), I(1))),
            PW(S(sb, I(1)), I(2)), PW(P(I(-1), sb), I(3)), PW(sb, I(0)), PW(PW(PW(sb, I(1)), I(2)), I(2)),
            S(P(I(2), PW(sb, I(2))), PW(sb, I(3))), P(PW(sb, I(2)), PW(S(sb, I(2)), I(2))),
            PW(nz, I(2)), S(PW(PW(nz, I(2)), I(2)), I(-1))]
    flts = [PW(nz, I(-1)), PW(nz, I(-2)), PW(PW(nz, I(-1)), I(2)), PW(PW(nz, I(2)), I(-1)),
            S(PW(S(V("<p>q"), I(1)), I(2)), PW(nz, I(-1)))]
    prog = [A("<p>x", S(x, I(1)))]
    for tgt in ("<p>z", "<p>w"):
        prog.append(A(tgt, rng.choice(ints)))
    prog.append(A("<p>q", rng.choice(flts)))
    prog.append(A("<p>r", rng.choice(flts)))
    prog.append(A("<p>s", S(V("<p>s"), PW(V("i"), I(2)), PW(PW(V("i"), I(2)), I(2))), [("i", I(0), I(3))]))
    # a bare loop counter (a Fortran INTEGER) as base with negative exponents, i = 1..5: integer arithmetic would give
    # i**(-2) = 0 for i >= 2; for contrast the same with the counter inside a product (real-kinded base)
    prog.append(A("<p>h", S(V("<p>h"), PW(V("i"), I(-1)), PW(V("i"), I(-2))), [("i", I(1), I(6))]))
    prog.append(A("<p>c", S(V("<p>c"), PW(P(I(2), V("i")), I(-1)), PW(P(I(2), V("i")), I(-2))), [("i", I(1), I(6))]))
    prog += [["if", ["bin", rng.choice(["gt", "le"]), rng.choice(ints), I(rng.choice([3, 8, 60]))]],
             A("<p>g", S(V("<p>g"), I(1))), ["endif"], ["else"], A("<p>g", S(V("<p>g"), I(10))), ["endelse"]]
    init = {"<t>": 0, "<dt>": 1, "<p>x": rng.randint(-4, -1), "<p>z": 0, "<p>w": 0, "<p>q": 0, "<p>r": 0, "<p>s": 0, "<p>g": 0,
            "<p>h": 0, "<p>c": 0}
    return {"phases": [{"name": "pa", "next": "pa", "prog": prog}], "initial": "pa", "init": init, "nsteps": 4}


def alias_case(rng):
    """an array copied by name, then an element written through one name and read through the other"""
    V = lambda x: ["var", x]
    I = lambda z: ["int", z]
    S = lambda *a: ["nary", "sum", list(a)]
    A = lambda x, rhs, loops=(), sub=None: ["stmt", ["assign", x, sub, rhs, [list(l) for l in loops]]]
    SUB = lambda a, i: ["bin", "sub", a, i]
    n = rng.choice([2, 3])
    j = rng.randint(0, n - 1)
    o = (j + 1) % n
    init = {"<t>": 0, "<dt>": 1, "<p>x": rng.randint(0, 2), "<p>n": 0, "<p>m": 0}
    fill = [["stmt", ["call", ["a"], "<builtin>array", [I(n)], []]],
            A("a", S(V("i"), V("<p>x")), [("i", I(0), I(n))], sub=V("i"))]
    form = rng.choice(["local", "local_rev", "chain", "persistent"])
    if form == "persistent":
        phases = [{"name": "pa", "next": "pb", "prog": [A("<p>x", S(V("<p>x"), I(1)))] + fill + [
            A("<p>a", V("a")), A("a", I(9), sub=I(j)), A("<p>n", SUB(V("<p>a"), I(o)))]},
            {"name": "pb", "next": "pb", "prog": [
                A("x", V("<p>a")), A("x", S(I(7), V("<p>x")), sub=I(j)),
                A("<p>m", S(SUB(V("<p>a"), I(j)), SUB(V("x"), I(o)))), A("<p>x", S(V("<p>x"), I(1)))]}]
        return {"phases": phases, "initial": "pa", "init": init, "nsteps": 3}
    prog = [A("<p>x", S(V("<p>x"), I(1)))] + fill
    if form == "chain":
        prog += [A("y", V("a")), A("x", V("y"))]
    else:
        prog += [A("x", V("a"))]
    w, r_ = ("a", "x") if form == "local_rev" else ("x", "a")
    # the value read through the other name; reading the written name as well orders the read after the write
    prog += [A(w, S(I(7), V("<p>x")), sub=I(j)),
             A("<p>n", S(SUB(V(r_), I(j)), SUB(V(w), I(o)))),
             A("<p>m", SUB(V(w), I(j)))]
    return {"phases": [{"name": "pa", "next": "pa", "prog": prog}], "initial": "pa", "init": init, "nsteps": 2}


def gen_cases(tier, seed):
    rng = random.Random(seed * 104729 + 3)
    nrand = 24 if tier == "quick" else 600
    out = []
    for n in range(nrand):
        allow = {"cond_expr", "ne", "zero_trip"}
        if rng.random() < 0.15:
            allow.add("pow")
        if rng.random() < 0.25:
            allow.add("utype_arith")
        if rng.random() < 0.3:
            allow.add("raise")
        out.append(PGen(rng, allow).case())
    rng2 = random.Random(seed * 7919 + 11)
    for n in range(8 if tier == "quick" else 120):
        out.append(linalg_case(rng2))
    rng4 = random.Random(seed * 53 + 7)
    for n in range(6 if tier == "quick" else 80):
        out.append(power_case(rng4))
    rng3 = random.Random(seed * 31 + 5)
    for n in range(4 if tier == "quick" else 40):
        out.append(alias_case(rng3))
    # hand-written guards: builder programs whose flags are inlined (inline_guards); only guards that are plain
    # comparisons / boolean combinations of variables and constants -- the Fortran target emits a guard verbatim,
    # the rewriting passes that lower conditional expressions and calls visit statement expressions only
    rng5 = random.Random(seed * 613 + 29)
    want, tries = (10 if tier == "quick" else 80), 0
    while want and tries < 2000:
        tries += 1
        c = PGen(rng5, {"ne", "zero_trip"}).case()
        guards = [x[1] for ph in c["phases"] for x in ph["prog"] if x[0] == "if"]
        # (and no guard that is itself a negation: its else branch would carry `not not X`, the open finding
        # double_negation_not_fortran, which has its own corpus witness)
        if guards and all(guard_plain(g) and g[0] != "not" for g in guards):
            c["raw_guards"] = True
            out.append(c)
            want -= 1
    return out


def guard_plain(e):
    """no conditional expression and no call inside a guard"""
    if isinstance(e, list):
        if e and e[0] in ("if", "call"):
            return False
        return all(guard_plain(c) for c in e)
    return True


def corpus():
    out = []
    d = os.path.join(common.VERIF, "corpus", PID)
    if os.path.isdir(d):
        for f in sorted(os.listdir(d)):
            if f.endswith(".json"):
                c = json.load(open(os.path.join(d, f)))
                c["file"] = "corpus/%s/%s" % (PID, f)
                out.append(c)
    return out


# ------------------------------------------------------------------ shrinking

def size(case):
    return sum(len(ph["prog"]) for ph in case["phases"]) + case["nsteps"]


def _balanced(prog):
    d, last_if_closed = 0, False
    stack = []
    for c in prog:
        if c[0] == "if":
            stack.append("if")
        elif c[0] == "else":
            stack.append("else")
        elif c[0] == "endif":
            if not stack or stack.pop() != "if":
                return False
        elif c[0] == "endelse":
            if not stack or stack.pop() != "else":
                return False
    return not stack


def well_formed(case):
    """every persistent name that is read is assigned somewhere (else the generator does not declare it),
    locals are assigned at top level before they are read, switch targets exist"""
    written, read = set(), set()
    names = {ph["name"] for ph in case["phases"]}
    for ph in case["phases"]:
        defs, depth = [set()], 0
        local_def = set()
        for c in ph["prog"]:
            local_def = set().union(*defs)
            if c[0] in ("if", "else"):
                if c[0] == "if":
                    used = lang_vars(c[1])
                    read |= used
                    if any(not persistent(v) and v not in local_def for v in used):
                        return False
                depth += 1
                defs.append(set())
            elif c[0] in ("endif", "endelse"):
                depth -= 1
                defs.pop()
            else:
                k = c[1]
                lvs = set(l[0] for l in k[4]) if k[0] == "assign" else set()
                used = set()
                if k[0] == "assign":
                    used |= lang_vars(k[3]) | (lang_vars(k[2]) if k[2] is not None else set())
                    for _, lo, hi in k[4]:
                        used |= lang_vars(lo) | lang_vars(hi)
                    if k[2] is not None:
                        used.add(k[1])
                elif k[0] == "call":
                    for e in k[3]:
                        used |= lang_vars(e)
                    for _, e in k[4]:
                        used |= lang_vars(e)
                elif k[0] == "yield":
                    used |= lang_vars(k[3]) | lang_vars(k[4])
                elif k[0] == "switch" and k[1] not in names:
                    return False
                used -= lvs
                read |= used
                if any(not persistent(v) and v not in local_def for v in used):
                    return False
                ws = [k[1]] if k[0] == "assign" and k[2] is None else (list(k[1]) if k[0] == "call" else [])
                written |= set(ws)
                defs[-1] |= set(ws)
    return all(v in written for v in read if persistent(v) and v not in ("<t>", "<dt>")) and \
        case["initial"] in names and all(ph["next"] in names for ph in case["phases"])


def lang_vars(e):
    if not isinstance(e, list):
        return set()
    if len(e) == 2 and e[0] == "var":
        return {e[1]}
    if e and e[0] == "call" and len(e) == 4 and isinstance(e[1], str):
        out = set()
        for c in e[2]:
            out |= lang_vars(c)
        for _, c in e[3]:
            out |= lang_vars(c)
        return out
    out = set()
    for c in e:
        if isinstance(c, list):
            out |= lang_vars(c)
    return out


def neighbours(case):
    for c in _neighbours(case):
        if well_formed(c):
            yield c


def _neighbours(case):
    if case["nsteps"] > 1:
        yield dict(case, nsteps=case["nsteps"] - 1)
    for pi, ph in enumerate(case["phases"]):
        prog = ph["prog"]
        for i, c in enumerate(prog):
            if c[0] == "stmt":
                cand = prog[:i] + prog[i + 1:]
            elif c[0] == "if":
                # drop the whole if ... endif [else ... endelse] group
                d, j = 0, i
                while j < len(prog):
                    if prog[j][0] in ("if", "else"):
                        d += 1
                    elif prog[j][0] in ("endif", "endelse"):
                        d -= 1
                        if d == 0 and not (j + 1 < len(prog) and prog[j + 1][0] == "else"):
                            break
                    j += 1
                cand = prog[:i] + prog[j + 1:]
            else:
                continue
            if _balanced(cand):
                phases = list(case["phases"])
                phases[pi] = dict(ph, prog=cand)
                yield dict(case, phases=phases)


def shrink(case, cls, budget=60):
    """greedy: drop statements / if-groups / steps while the same failure class persists"""
    changed = True
    while changed and budget > 0:
        changed = False
        for cand in neighbours(case):
            if budget <= 0:
                break
            budget -= 1
            try:
                res = run_case(cand)
            except Exception:  # noqa: BLE001
                continue
            o = oracle(cand, res)
            if o is not None and o["kind"] != "skip" and classify(cand, o) == cls:
                case, changed = cand, True
                break
    return case


# ------------------------------------------------------------------ logical operators: printer vs model
# trees: ["atom", n] | ["not", t] | ["and", [t...]] | ["or", [t...]]

HEADER_P = ("From Coq Require Import List Arith Bool.\nImport ListNotations.\n"
            "From Dagrt Require Import GenC03 FortranPrinter.\n"
            "Definition chkp (c : bexp * list tok) : bool :=\n"
            "  wf (fst c) && toks_eqb (bprint c03_prec_or_child c03_prec_or_own c03_prec_and_child c03_prec_and_own\n"
            "                                 c03_prec_not_child c03_prec_not_own 0 (fst c)) (snd c).\n")


def bt_to_pym(t):
    import pymbolic.primitives as p
    if t[0] == "atom":
        return p.Variable("b%d" % t[1])
    if t[0] == "not":
        return p.LogicalNot(bt_to_pym(t[1]))
    return (p.LogicalAnd if t[0] == "and" else p.LogicalOr)(tuple(bt_to_pym(c) for c in t[1]))


def bt_to_coq(t):
    if t[0] == "atom":
        return "(BAtom %d)" % t[1]
    if t[0] == "not":
        return "(BNot %s)" % bt_to_coq(t[1])
    return "(%s [%s])" % ("BAnd" if t[0] == "and" else "BOr", "; ".join(bt_to_coq(c) for c in t[1]))


def bt_eval(t, v):
    if t[0] == "atom":
        return v[t[1]]
    if t[0] == "not":
        return not bt_eval(t[1], v)
    vals = [bt_eval(c, v) for c in t[1]]
    return all(vals) if t[0] == "and" else any(vals)


def bt_atoms(t):
    if t[0] == "atom":
        return {t[1]}
    if t[0] == "not":
        return bt_atoms(t[1])
    return set().union(*[bt_atoms(c) for c in t[1]])


def bt_size(t):
    if t[0] == "atom":
        return 1
    if t[0] == "not":
        return 1 + bt_size(t[1])
    return 1 + sum(bt_size(c) for c in t[1])


def bt_print(t):
    """the REAL printer on the tree -> (text, tokens)"""
    from dagrt.codegen.expressions import FortranExpressionMapper

    class Names(dict):
        def __getitem__(self, k):
            return k
    text = FortranExpressionMapper(Names())(bt_to_pym(t))
    toks = text.replace("(", " ( ").replace(")", " ) ").split()
    return text, toks


def toks_to_coq(toks):
    out = []
    for w in toks:
        out.append({"(": "TLP", ")": "TRP", ".and.": "TAnd", ".or.": "TOr", ".not.": "TNot"}.get(w)
                   or "TAtom %d" % int(w[1:]))
    return "[%s]" % "; ".join(out)


def bt_oracle(t):
    """Fortran gives .not. > .and. > .or. the precedence Python gives not > and > or: evaluate the printed text
    with Python's parser for every valuation of the atoms and compare with the tree."""
    import itertools
    try:
        text, toks = bt_print(t)
    except Exception as ex:  # noqa: BLE001
        return {"kind": "printer_raises", "exception": type(ex).__name__}, None
    pyt = " ".join({".and.": "and", ".or.": "or", ".not.": "not"}.get(w, w) for w in toks)
    atoms = sorted(bt_atoms(t))
    for bits in itertools.product((False, True), repeat=len(atoms)):
        v = dict(zip(atoms, bits))
        try:
            got = eval(pyt, {"__builtins__": {}}, {"b%d" % n: b for n, b in v.items()})
        except SyntaxError:
            return {"kind": "printed_text_not_an_expression", "text": text}, toks
        if got != bt_eval(t, v):
            return {"kind": "printed_text_means_something_else", "text": text,
                    "valuation": {"b%d" % n: b for n, b in v.items()}, "tree_value": bt_eval(t, v),
                    "value_of_text_with_fortran_precedence": got}, toks
    return None, toks


def bt_cases(tier, seed):
    """all trees with at most 3 (thorough: 4) operators over 2-ary and/or and not (no not-not), atoms numbered
    left to right, plus random trees with 2-3-ary operators"""
    def relabel(t, ctr):
        if t[0] == "atom":
            ctr[0] += 1
            return ["atom", ctr[0] - 1]
        if t[0] == "not":
            return ["not", relabel(t[1], ctr)]
        return [t[0], [relabel(c, ctr) for c in t[1]]]

    memo = {}

    def trees(n):          # n operators
        if n in memo:
            return memo[n]
        out = []
        if n == 0:
            out = [["atom", 0]]
        else:
            for t in trees(n - 1):
                if t[0] != "not":
                    out.append(["not", t])
            for a in range(n):
                for l in trees(a):
                    for r_ in trees(n - 1 - a):
                        out.append(["and", [l, r_]])
                        out.append(["or", [l, r_]])
        memo[n] = out
        return out
    cases = []
    for n in range(1, (3 if tier == "quick" else 4) + 1):
        cases += [relabel(t, [0]) for t in trees(n)]
    rng = random.Random(seed * 7 + 33)

    def rnd(d, top=True):
        c = rng.random()
        if d <= 0 or (c < 0.25 and not top):
            return ["atom", rng.randint(0, 4)]
        if c < 0.4:
            t = rnd(d - 1, False)
            return t if t[0] == "not" else ["not", t]
        return [rng.choice(["and", "or"]), [rnd(d - 1, False) for _ in range(rng.randint(2, 3))]]
    for _ in range(150 if tier == "quick" else 1500):
        cases.append(rnd(rng.randint(2, 4)))
    return cases


# ---- powers: printer vs model.  trees: ["patom", n] | ["ppow", base, exponent]
HEADER_PW = ("From Coq Require Import List Arith Bool.\nImport ListNotations.\n"
             "From Dagrt Require Import GenC03 FortranPrinter.\n"
             "Definition chkw (c : pexp * list ptok) : bool :=\n"
             "  ptoks_eqb (pprint c03_prec_pow_base c03_prec_pow_exp c03_prec_pow_own 0 (fst c)) (snd c)\n"
             "  && Bool.eqb c03_power_paren (c03_prec_pow_own <? c03_prec_pow_base)\n"
             "  && (negb c03_power_paren || match pread (S (psize (fst c))) (snd c) with\n"
             "                               | Some (e, []) => pexp_eqb e (fst c) | _ => false end).\n")
PT_VALUES = [2, 3, 2, 1, 2, 3]


def pt_to_pym(t):
    import pymbolic.primitives as p
    return p.Variable("b%d" % t[1]) if t[0] == "patom" else p.Power(pt_to_pym(t[1]), pt_to_pym(t[2]))


def pt_to_coq(t):
    return "(PAtom %d)" % t[1] if t[0] == "patom" else "(PPow %s %s)" % (pt_to_coq(t[1]), pt_to_coq(t[2]))


def pt_eval(t):
    return PT_VALUES[t[1] % len(PT_VALUES)] if t[0] == "patom" else pt_eval(t[1]) ** pt_eval(t[2])


def pt_size(t):
    return 1 if t[0] == "patom" else 1 + pt_size(t[1]) + pt_size(t[2])


def pt_base_pow(t):
    return t[0] == "ppow" and (t[1][0] == "ppow" or pt_base_pow(t[1]) or pt_base_pow(t[2]))


def pt_print(t):
    from dagrt.codegen.expressions import FortranExpressionMapper

    class Names(dict):
        def __getitem__(self, k):
            return k
    text = FortranExpressionMapper(Names())(pt_to_pym(t))
    return text, text.replace("(", " ( ").replace(")", " ) ").replace("**", " ** ").split()


def pt_oracle(t):
    """Python's `**` associates to the right as Fortran's does: evaluate the printed text with Python's parser for
    small values of the atoms (exact integers) and compare with the value of the tree"""
    try:
        text, toks = pt_print(t)
    except Exception as ex:  # noqa: BLE001
        return {"kind": "printer_raises", "exception": type(ex).__name__}, None
    names = {"b%d" % n: PT_VALUES[n % len(PT_VALUES)] for n in range(16)}
    try:
        got = eval(" ".join(toks), {"__builtins__": {}}, names)
    except SyntaxError:
        return {"kind": "printed_text_not_an_expression", "text": text}, toks
    if got != pt_eval(t):
        return {"kind": "printed_text_means_something_else", "text": text, "atoms": {k: names[k] for k in sorted(names)[:6]},
                "tree_value": pt_eval(t), "value_of_text_with_fortran_associativity": got}, toks
    return None, toks


def pt_cases(tier):
    """all trees with at most 3 (thorough: 4) powers, atoms numbered left to right (values 2, 3, 2, 1, 2: exact)"""
    memo = {}

    def trees(n):
        if n not in memo:
            memo[n] = [["patom", 0]] if n == 0 else [["ppow", l, r_] for a in range(n) for l in trees(a)
                                                     for r_ in trees(n - 1 - a)]
        return memo[n]

    def relabel(t, ctr):
        if t[0] == "patom":
            ctr[0] += 1
            return ["patom", ctr[0] - 1]
        return ["ppow", relabel(t[1], ctr), relabel(t[2], ctr)]
    return [relabel(t, [0]) for n in range(0, (3 if tier == "quick" else 4) + 1) for t in trees(n)]


def pt_to_coq_toks(toks):
    return "[%s]" % "; ".join({"(": "PL", ")": "PR", "**": "PStar"}.get(w) or "PA %d" % int(w[1:]) for w in toks)


def check_power_printer(rep, tier):
    cases = pt_cases(tier)
    known = {k.get("class"): k for k in common.known_findings(PID)}
    worst, terms, n_known = None, [], 0
    for t in cases:
        o, toks = pt_oracle(t)
        if o is not None:
            if o["kind"] == "printed_text_means_something_else" and pt_base_pow(t) \
                    and "power_base_not_parenthesised" in known:
                n_known += 1
                rep.known_finding(known["power_base_not_parenthesised"].get("what_fails"))
            elif worst is None or pt_size(t) < pt_size(worst[0]):
                worst = (t, o)
        if toks is not None:
            terms.append("(%s, %s)" % (pt_to_coq(t), pt_to_coq_toks(toks)))
    if worst is not None:
        rep.violation({"what": "FortranExpressionMapper prints a tree of powers as text that Fortran reads as a different "
                               "expression (or not as an expression)",
                       "class": "power_printing", "ptree": worst[0], "oracle": worst[1],
                       "replay": "./check C03 --replay <this file>"})
    mism, n_eval, errors = [], 0, []
    if os.path.exists(os.path.join(common.COQ, "model", "FortranPrinter.vo")) and \
            os.path.exists(os.path.join(common.COQ, "gen", "GenC03.vo")):
        mism, n_eval, errors = common.eval_cases(PID + "W", HEADER_PW, terms, "chkw", shard=400)
    else:
        errors = ["printer model not built"]
    return {"trees": len(cases), "oracle_failures": 0 if worst is None else 1, "known_finding_trees": n_known,
            "compared_with_model": n_eval, "model_disagreements": len(mism), "errors": errors[:2],
            "first_disagreeing_tree": cases[mism[0]] if mism and mism[0] < len(cases) else None}


def check_printer(rep, tier, seed):
    """returns coverage dict; reports a violation with the smallest failing tree"""
    cases = bt_cases(tier, seed)
    worst, terms = None, []
    for t in cases:
        o, toks = bt_oracle(t)
        if o is not None and (worst is None or bt_size(t) < bt_size(worst[0])):
            worst = (t, o)
        if toks is not None:
            terms.append("(%s, %s)" % (bt_to_coq(t), toks_to_coq(toks)))
    if worst is not None:
        rep.violation({"what": "FortranExpressionMapper prints a tree of logical operators as text that Fortran reads "
                               "as a different expression (or not as an expression)",
                       "class": "logical_printing", "btree": worst[0], "oracle": worst[1],
                       "replay": "./check C03 --replay <this file>"})
    mism, n_eval, errors = [], 0, []
    if os.path.exists(os.path.join(common.COQ, "model", "FortranPrinter.vo")) and \
            os.path.exists(os.path.join(common.COQ, "gen", "GenC03.vo")):
        mism, n_eval, errors = common.eval_cases(PID + "P", HEADER_P, terms, "chkp", shard=400)
    else:
        errors = ["printer model not built"]
    return {"trees": len(cases), "oracle_failures": 0 if worst is None else 1, "compared_with_model": n_eval,
            "model_disagreements": len(mism), "errors": errors[:2],
            "first_disagreeing_tree": cases[mism[0]] if mism and mism[0] < len(cases) else None}


# ------------------------------------------------------------------ the check

def _short(o):
    return {k: (v[:1500] if isinstance(v, str) else v) for k, v in o.items()}


def run_all(cases):
    with concurrent.futures.ProcessPoolExecutor(max_workers=common.NPROC) as ex:
        return list(ex.map(run_case, cases, chunksize=1))


def strip(case):
    return {k: v for k, v in case.items() if k in ("phases", "initial", "init", "nsteps", "raw_guards")}


def main(tier):
    rep = common.Reporter(PID, tier)
    seed = common.seed()
    ps = common.proof_stage(rep, PID, gen=["lang", "c03", "c06"], extra_targets=["model/FortranCheck.vo", "model/FortranPrinter.vo"])

    cases = corpus()
    n_corpus = len(cases)
    cases += gen_cases(tier, seed)
    results = run_all([strip(c) for c in cases])

    known = {k.get("class"): k for k in common.known_findings(PID)}
    failing, skipped, compared_steps, known_idx = {}, 0, 0, set()
    for ci, (case, res) in enumerate(zip(cases, results)):
        o = oracle(case, res)
        if o is None:
            compared_steps += len(res["interp"]["steps"])
            continue
        if o["kind"] == "skip":
            skipped += 1
            continue
        cls = classify(case, o)
        if cls in known:
            known_idx.add(ci)       # a cause of failure the model does not know: not compared with it
        if cls not in failing or size(case) < size(failing[cls][0]):
            failing[cls] = (case, res, o)
    for cls, (case, res, o) in sorted(failing.items()):
        if cls in known:
            rep.known_finding(known[cls].get("what_fails", cls))
            continue
        small = shrink(strip(case), cls, budget=80 if tier == "quick" else 160)
        res2 = run_case(small)
        o2 = oracle(small, res2) or o
        rep.violation({"what": "the module emitted by the Fortran code generator does not compile, or the compiled "
                               "stepper and the interpreter disagree after some call of run",
                       "class": cls, "case": small, "features": features(small), "oracle": _short(o2),
                       "fortran": {k: v for k, v in res2.get("fortran", {}).items() if k != "symbols"},
                       "interpreter": res2.get("interp"), "found_in": case.get("file", "random stream"),
                       "replay": "./check C03 --replay <this file>"})

    # correspondence with the Coq model
    terms, term_idx = [], []
    for ci, (case, res) in enumerate(zip(cases, results)):
        # hand-written guards (raw_guards) are outside the builder model: implementation-level oracle only
        t = None if ci in known_idx or case.get("raw_guards") else case_term(case, res)
        if t is not None:
            terms.append(t)
            term_idx.append(ci)
    mism, n_eval, errors = [], 0, []
    if os.path.exists(os.path.join(common.COQ, "model", "FortranCheck.vo")) and \
            os.path.exists(os.path.join(common.COQ, "gen", "GenC03.vo")):
        mism, n_eval, errors = common.eval_cases(PID, HEADER, terms, "chk", shard=max(2, (len(terms) + 15) // 16))
        mism = [term_idx[i] for i in mism]
    else:
        errors = ["model not built"]
    pr = check_printer(rep, tier, seed)
    pw = check_power_printer(rep, tier)
    # witness tie of proofs/GuardMerge.v (C03_merged_guard_refuted): after the first call of run on
    # corpus/C03/raw_guard_rewritten.json the interpreter holds what wit_interpreter computes, (3, 0); the compiled
    # stepper holds (3, 0) as well on the repaired tree (fix 5e02bf5) and what wit_generated computes, (3, 1), on the
    # unrepaired one (where the oracle reports the case as a violation anyway)
    gm = {"checked": False}
    for case, res in zip(cases, results):
        if case.get("file", "").endswith("raw_guard_rewritten.json"):
            i1 = (res.get("interp") or {}).get("steps") or [{}]
            f1 = (res.get("fortran") or {}).get("steps") or [{}]
            iv = (i1[0].get("<p>x"), i1[0].get("<p>y"))
            fv = (f1[0].get("<p>x"), f1[0].get("<p>y"))
            gm = {"checked": True, "interpreter": iv, "compiled": fv,
                  "ok": iv == (3, 0) and fv in ((3, 1), (3, 0)), "repaired": fv == (3, 0)}
            if not gm["ok"]:
                errors = list(errors) + ["GuardMerge witness: interpreter %r, compiled %r" % (iv, fv)]
    rep.coverage["guard_merge_witness"] = gm
    tie_broken = bool(mism or errors or pr["model_disagreements"] or pr["errors"]
                      or pw["model_disagreements"] or pw["errors"])
    if (not ps["ok"] or tie_broken) and not rep.violations:
        detail = {"what": "proof obligation or model/implementation correspondence no longer checks; "
                          "no failing input found by the implementation-level oracle",
                  "proof_stage": ps, "coq_errors": errors[:3], "n_disagreements": len(mism),
                  "logical_printing": pr, "power_printing": pw}
        if mism:
            case, res = cases[mism[0]], results[mism[0]]
            detail["first_disagreeing_case"] = {"case": strip(case), "fortran": res.get("fortran"),
                                                "interpreter": res.get("interp")}
        detail["broken"] = ("theorem file %s" % ps.get("theorem")) if not ps["ok"] else \
            "correspondence compiled Fortran ~ Dagrt.FortranTarget.fcall / NumpyInterpreter ~ Dagrt.FortranTarget.istep"
        rep.violation(detail, no_input=True)
    elif not ps["ok"] or tie_broken:
        rep.coverage["broken_obligation"] = ps if not ps["ok"] else {
            "disagreements": len(mism), "coq_errors": errors[:2],
            "first_disagreeing_case": strip(cases[mism[0]]) if mism else None}

    feat_hist = {}
    for c in cases:
        for f in features(c):
            feat_hist[f] = feat_hist.get(f, 0) + 1
    nontriv = len({json.dumps(strip(c), sort_keys=True) for c, r in zip(cases, results)
                   if "fortran" in r and r["fortran"].get("compile_rc") == 0 and len(r["fortran"].get("steps", [])) >= 2
                   and any(k in features(c) for k in ("loop1", "loop2", "if", "cond_expr", "switch", "fail"))})
    rep.coverage.update(
        evaluations=len(cases), distinct_nontrivial=nontriv,
        rule="one evaluation = one method description generated, compiled with gfortran -g, run for n calls of "
             "run and compared call by call with the real NumpyInterpreter; non-trivial = compiled, at least two "
             "calls, and a loop, guard, conditional expression, switch or failure in the program; distinct by program",
        calls_compared_fortran_vs_interpreter=compared_steps, skipped_interpreter_raised=skipped,
        traces_validated_against_impl=n_eval, model_impl_disagreements=len(mism),
        cases_outside_model=len(cases) - len(terms),
        logical_printing=pr, power_printing=pw,
        input_distribution={"corpus": n_corpus, "random": len(cases) - n_corpus, "features": feat_hist,
                            "phases": {str(k): sum(1 for c in cases if len(c["phases"]) == k) for k in (1, 2, 3)},
                            "calls": {str(k): sum(1 for c in cases if c["nsteps"] == k) for k in (1, 2, 3, 4)}},
        samples=[{"case": strip(cases[i]), "fortran_steps": (results[i].get("fortran") or {}).get("steps")}
                 for i in (0, len(cases) - 1)],
        failure_classes=sorted(failing),
    )
    rep.assumptions = [
        "values are integers small enough for real*8 to be exact; no division",
        "`supported` (evaluated by Coq on every modelled case): guards mention neither loop counters nor anything "
        "the guarded statement writes, loop counters are local names used only by their own statement, inner "
        "bounds mention outer counters only, programs do not mention <ret_*> names",
        "A1 arrays are not aliased (no write to an array after it was copied); A2 user functions are pure and total",
        "locals are assigned before they are read in every step (Fortran locals have no value on entry)",
        "interpreter semantics = statements in program order (C02: every dependency-respecting order agrees; "
        "C04: the controller picks such an order)"]
    return rep.finish("proof")


def replay(path):
    r = json.load(open(path))
    if "ptree" in r:
        o, toks = pt_oracle(r["ptree"])
        print(json.dumps({"tree": r["ptree"], "printed": " ".join(toks or []), "oracle": o}, indent=1))
        return 1 if o is not None else 0
    if "btree" in r:
        o, toks = bt_oracle(r["btree"])
        print(json.dumps({"tree": r["btree"], "printed": " ".join(toks or []), "oracle": o}, indent=1))
        return 1 if o is not None else 0
    case = r.get("case") or (r.get("first_disagreeing_case") or {}).get("case")
    if case is None and "phases" in r:
        case = strip(r)
    if case is None:
        print("replay names a broken obligation, no input: %s" % r.get("broken"))
        return 1
    res = run_case(case)
    o = oracle(case, res)
    print(json.dumps({"features": features(case), "oracle": o,
                      "fortran_steps": (res.get("fortran") or {}).get("steps"),
                      "interpreter": res.get("interp")}, indent=1, default=str))
    return 1 if (o is not None and o["kind"] != "skip") else 0
