"""Shared machinery for all property checks (see DESIGN.md section 2)."""
import hashlib
import json
import os
import re
import subprocess
import sys
import time

VERIF = os.path.dirname(os.path.dirname(os.path.abspath(__file__)))
REPO = os.environ.get("DAGRT_REPO", "/repo")
COQ = os.path.join(VERIF, "coq")
CASES = os.path.join(COQ, "cases")
NPROC = int(os.environ.get("VERIF_JOBS", "16"))

ALLOWED_AXIOMS = {
    # standard-library axioms that may appear (each is named in DESIGN.md section 5)
    "functional_extensionality_dep", "proof_irrelevance", "classic",
    "JMeq_eq", "Eq_rect_eq.eq_rect_eq", "eq_rect_eq",
    "propositional_extensionality", "constructive_definite_description",
}

TRUSTED_BASE = [
    "Coq 8.16.1 kernel (coqc) incl. vm_compute; no native_compute",
    "axioms: none (Print Assumptions of every property theorem reports 'Closed under the global context')"
    " unless listed under coverage.axioms",
    "harness/tr/*.py (fail-closed Python-ast translators producing coq/gen/Gen*.v from /repo on every run)",
    "correspondence harness (Python generators/canonicalisers, Coq case files evaluated by vm_compute)",
    "hand-written Coq model of the anchored code (tied to /repo by the correspondence check only)",
]


def seed():
    try:
        return int(os.environ.get("VERIF_SEED", "0"))
    except ValueError:
        return 0


def run(cmd, timeout=600, cwd=None, env=None, input=None):
    e = dict(os.environ)
    if env:
        e.update(env)
    try:
        p = subprocess.run(cmd, cwd=cwd, env=e, input=input, capture_output=True,
                           text=True, timeout=timeout)
        return p.returncode, p.stdout, p.stderr
    except subprocess.TimeoutExpired as ex:
        return 124, (ex.stdout or b"").decode() if isinstance(ex.stdout, bytes) else (ex.stdout or ""), "TIMEOUT"


# ---------------------------------------------------------------- Coq build

def translate(names=None):
    """Regenerate coq/gen/Gen<Name>.v from REPO, one file per module harness/tr/<name>.py.
    Returns dict name -> error message for the modules (restricted to `names` if given)
    whose expected source shapes were not found (fail-closed)."""
    import importlib
    from harness import tr
    errors = {}
    gen = os.path.join(COQ, "gen")
    os.makedirs(gen, exist_ok=True)
    mods = sorted(f[:-3] for f in os.listdir(os.path.dirname(tr.__file__))
                  if f.endswith(".py") and not f.startswith("_"))
    for name in mods:
        if names is not None and name not in names:
            continue
        path = os.path.join(gen, "Gen%s.v" % name.capitalize())
        try:
            text = importlib.import_module("harness.tr." + name).generate(REPO)
        except Exception as ex:  # noqa: BLE001 - fail closed on anything
            errors[name] = "%s: %s" % (type(ex).__name__, ex)
            continue
        old = open(path).read() if os.path.exists(path) else None
        if old != text:
            with open(path, "w") as f:
                f.write(text)
    return errors


def coqproject_text():
    lines = ["-Q . Dagrt"]
    for d in ("gen", "model", "proofs", "props"):
        dd = os.path.join(COQ, d)
        if os.path.isdir(dd):
            lines += sorted("%s/%s" % (d, f) for f in os.listdir(dd) if f.endswith(".v"))
    return "\n".join(lines) + "\n"


def ensure_makefile():
    mk = os.path.join(COQ, "Makefile")
    cp = os.path.join(COQ, "_CoqProject")
    text = coqproject_text()
    old = open(cp).read() if os.path.exists(cp) else None
    if old != text:
        with open(cp, "w") as f:
            f.write(text)
    if (not os.path.exists(mk)) or old != text:
        rc, out, err = run(["coq_makefile", "-f", "_CoqProject", "-o", "Makefile"], cwd=COQ)
        if rc != 0:
            raise RuntimeError("coq_makefile failed: " + out + err)


def make(targets, timeout=1500):
    """Full .vo build of the given targets (and what they depend on)."""
    ensure_makefile()
    rc, out, err = run(["make", "-j%d" % NPROC] + list(targets), cwd=COQ, timeout=timeout)
    return rc == 0, out + err


def compile_props(pid, timeout=600):
    """(Re)compile props/<pid>.v and return (ok, log, theorems, assumptions).
    assumptions: dict theorem -> list of axiom names ([] = closed)."""
    src = os.path.join(COQ, "props", pid + ".v")
    rc, out, err = run(["coqc", "-Q", ".", "Dagrt", "props/%s.v" % pid], cwd=COQ, timeout=timeout)
    log = out + err
    text = open(src).read()
    theorems = re.findall(r"^\s*(?:Theorem|Corollary)\s+(\w+)", text, re.M)
    printed = re.findall(r"^\s*Print Assumptions\s+(\w+)\s*\.", text, re.M)
    # split the output into one chunk per Print Assumptions, in order
    chunks = re.split(r"(?=Closed under the global context|Axioms:)", out)
    chunks = [c for c in chunks if c.startswith("Closed") or c.startswith("Axioms:")]
    assumptions = {}
    for name, ch in zip(printed, chunks):
        if ch.startswith("Closed"):
            assumptions[name] = []
        else:
            assumptions[name] = re.findall(r"^([\w.]+)\s*:", ch[len("Axioms:"):], re.M)
    return rc == 0, log, theorems, assumptions


def first_coq_error(log):
    m = re.search(r'File "([^"]+)", line (\d+)[^\n]*\n(?:.*\n)*?Error:[^\n]*(?:\n[^\n]+){0,6}', log)
    return m.group(0) if m else log[-2000:]


# ---------------------------------------------------------------- Coq case evaluation

def _coq_nat_list(out):
    m = re.search(r"=\s*\[(.*?)\]\s*:\s*list nat", out, re.S)
    if not m:
        return None
    body = m.group(1).strip()
    if not body:
        return []
    return [int(x.replace("%nat", "")) for x in re.split(r"\s*;\s*", body)]


def eval_cases(pid, header, case_terms, checker, shard=300, timeout=900):
    """Evaluate `checker` (a Coq function case -> bool) on all case_terms inside Coq.

    Writes coq/cases/<pid>_<k>.v with `Definition cases := [...]` and prints the
    indices i where `checker (nth i cases)` is false.  Returns (mismatch_indices,
    n_evaluated, errors).  Evaluation is by vm_compute in the kernel's VM.
    """
    os.makedirs(CASES, exist_ok=True)
    for f in os.listdir(CASES):
        if f.startswith(pid + "_"):
            os.unlink(os.path.join(CASES, f))
    files = []
    for k in range(0, len(case_terms), shard):
        chunk = case_terms[k:k + shard]
        name = "%s_%d" % (pid, k // shard)
        path = os.path.join(CASES, name + ".v")
        with open(path, "w") as f:
            f.write(header + "\n")
            f.write("Definition cases := [\n  " + ";\n  ".join(chunk) + "\n].\n")
            f.write("Fixpoint bad_idx {A} (f : A -> bool) (i : nat) (l : list A) : list nat :=\n"
                    "  match l with [] => [] | x :: r => if f x then bad_idx f (S i) r else i :: bad_idx f (S i) r end.\n")
            f.write("Eval vm_compute in (bad_idx (%s) 0 cases).\n" % checker)
        files.append((k, path))
    procs = []
    results = []
    errors = []

    def drain(p_k):
        k, path, p = p_k
        try:
            out, err = p.communicate(timeout=timeout)
        except subprocess.TimeoutExpired:
            p.kill()
            errors.append("timeout evaluating " + path)
            return
        idx = _coq_nat_list(out)
        if p.returncode != 0 or idx is None:
            errors.append("coqc failed on %s: %s" % (path, (out + err)[-1500:]))
            return
        results.extend(k + i for i in idx)

    for k, path in files:
        p = subprocess.Popen(["coqc", "-Q", COQ, "Dagrt", path], cwd=CASES,
                             stdout=subprocess.PIPE, stderr=subprocess.PIPE, text=True)
        procs.append((k, path, p))
        if len(procs) >= NPROC:
            drain(procs.pop(0))
    for pk in procs:
        drain(pk)
    for f in os.listdir(CASES):
        if f.startswith(pid + "_") and not f.endswith(".v"):
            try:
                os.unlink(os.path.join(CASES, f))
            except OSError:
                pass
    return sorted(results), len(case_terms), errors


def eval_term(header, term, timeout=120):
    """Evaluate one Coq term with vm_compute and return the printed text (for replays)."""
    os.makedirs(CASES, exist_ok=True)
    path = os.path.join(CASES, "eval_%d.v" % os.getpid())
    with open(path, "w") as f:
        f.write(header + "\nEval vm_compute in (%s).\n" % term)
    rc, out, err = run(["coqc", "-Q", COQ, "Dagrt", path], cwd=CASES, timeout=timeout)
    for ext in (".v", ".vo", ".vok", ".vos", ".glob"):
        try:
            os.unlink(path[:-2] + ext)
        except OSError:
            pass
    try:
        os.unlink(os.path.join(CASES, ".eval_%d.aux" % os.getpid()))
    except OSError:
        pass
    return (out + err).strip()


# ---------------------------------------------------------------- findings / reporting

def known_findings(pid):
    path = os.path.join(VERIF, "known_findings.json")
    if not os.path.exists(path):
        return []
    data = json.load(open(path))
    return [f for f in data.get("findings", []) if f.get("property") == pid and f.get("status") == "open"]


class Reporter:
    """Collects violations / known findings for one check run and writes evidence."""

    def __init__(self, pid, tier):
        self.pid = pid
        self.tier = tier
        self.t0 = time.time()
        self.violations = []      # (replay_path, summary)
        self.known = []
        self.coverage = {}
        self.assumptions = []
        self._n = 0
        self.replay_dir = os.path.join(VERIF, "replays", pid)
        if os.path.isdir(self.replay_dir):
            for f in os.listdir(self.replay_dir):
                if f.startswith(tier + "_"):
                    os.unlink(os.path.join(self.replay_dir, f))

    def violation(self, replay, no_input=False):
        os.makedirs(self.replay_dir, exist_ok=True)
        self._n += 1
        path = os.path.join(self.replay_dir, "%s_%d.json" % (self.tier, self._n))
        replay = dict(replay)
        replay.setdefault("property", self.pid)
        replay.setdefault("seed", seed())
        with open(path, "w") as f:
            json.dump(replay, f, indent=1, sort_keys=True, default=str)
        rel = os.path.relpath(path, VERIF)
        line = "VIOLATION property=%s replay=%s" % (self.pid, rel)
        if no_input:
            line += " no-failing-input-found"
        print(line, flush=True)
        self.violations.append(rel)

    def known_finding(self, what):
        if what not in self.known:
            self.known.append(what)
            print("KNOWN-FINDING: property=%s %s" % (self.pid, what), flush=True)

    def finish(self, level="proof"):
        ev = {
            "property_id": self.pid,
            "tier": self.tier,
            "seed": seed(),
            "level": level,
            "coverage": self.coverage,
            "assumptions": self.assumptions,
            "wall_s": round(time.time() - self.t0, 2),
            "violations": len(self.violations),
        }
        # runs against a scratch tree (seeded mutants) must not overwrite the evidence of /repo
        evdir = os.environ.get("VERIF_EVIDENCE_DIR") or os.path.join(VERIF, "evidence")
        os.makedirs(evdir, exist_ok=True)
        with open(os.path.join(evdir, self.pid + ".json"), "w") as f:
            json.dump(ev, f, indent=1, sort_keys=True, default=str)
        return 1 if self.violations else 0


def gen_deps(pid):
    """harness/tr module names of the generated files props/<pid>.v depends on (transitively
    through model/ and proofs/), read off the Require lines."""
    import re
    index = {}
    for d in ("gen", "model", "proofs", "props"):
        dd = os.path.join(COQ, d)
        if os.path.isdir(dd):
            for f in os.listdir(dd):
                if f.endswith(".v"):
                    index[f[:-2]] = os.path.join(dd, f)
    seen, todo, out = set(), [pid], set()
    while todo:
        m = todo.pop()
        if m in seen or m not in index:
            continue
        seen.add(m)
        if m.startswith("Gen") and os.path.dirname(index[m]).endswith("gen"):
            out.add(m[3:].lower())
            continue
        text = re.sub(r"\(\*.*?\*\)", " ", open(index[m]).read(), flags=re.S)
        for stmt in re.findall(r"Require\s+(?:Import|Export)?\s*([^.]*(?:\.[A-Za-z_][^.]*)*)\.\s", text):
            for w in stmt.split():
                todo.append(w.split(".")[-1])
    return sorted(out)


def proof_stage(rep, pid, gen=(), extra_targets=()):
    """Translator + make + props re-check.  Fills rep.coverage proof keys.
    `gen` names the harness/tr modules whose generated files this property depends on.
    Returns dict(ok=..., stage=..., detail=...)."""
    errs = translate(sorted(set(gen) | set(gen_deps(pid))))
    if errs:
        rep.coverage.update(obligations=1, discharged=0, checker_cmd="harness/tr (translator)",
                            trusted_base=list(TRUSTED_BASE))
        return dict(ok=False, stage="translate", detail=errs,
                    theorem="coq/gen/Gen%s.v (source shape not recognised)" % sorted(errs)[0].capitalize())
    deps_ok, log = make(["props/%s.vo" % pid] + list(extra_targets))
    ok2, plog, theorems, assumptions = compile_props(pid)
    bad_axioms = {t: a for t, a in assumptions.items() if any(x not in ALLOWED_AXIOMS for x in a)}
    discharged = [t for t in theorems if ok2 and t in assumptions and t not in bad_axioms]
    rep.coverage.update(
        obligations=max(1, len(theorems)),
        discharged=len(discharged),
        theorems=theorems,
        axioms={t: a for t, a in assumptions.items() if a},
        checker_cmd="cd /verif/coq && make -j16 props/%s.vo && coqc -Q . Dagrt props/%s.v "
                    "(full .vo build; Print Assumptions after every theorem)" % (pid, pid),
        trusted_base=list(TRUSTED_BASE),
    )
    if rep.tier == "thorough" and deps_ok and ok2:
        # independent re-check of the compiled files and everything they depend on
        rc, out, err = run(["coqchk", "-o", "-silent", "-Q", ".", "Dagrt", "Dagrt.props.%s" % pid], cwd=COQ,
                           timeout=3000)
        summ = out[out.find("CONTEXT SUMMARY"):] if "CONTEXT SUMMARY" in out else (out + err)[-1500:]
        rep.coverage["coqchk"] = {"exit": rc, "summary": " ".join(summ.split())[:1500]}
        if rc != 0:
            return dict(ok=False, stage="coqchk", detail=summ[-1500:], theorem="props/%s.v (coqchk)" % pid)
    if not (deps_ok and ok2):
        return dict(ok=False, stage="proof", detail=first_coq_error(log if not deps_ok else plog),
                    theorem="props/%s.v" % pid)
    if bad_axioms or len(discharged) != len(theorems):
        return dict(ok=False, stage="axioms", detail="unexpected assumptions: %r; theorems without "
                    "Print Assumptions: %r" % (bad_axioms, [t for t in theorems if t not in assumptions]),
                    theorem="props/%s.v" % pid)
    return dict(ok=True)


def sha(obj):
    return hashlib.sha256(json.dumps(obj, sort_keys=True, default=str).encode()).hexdigest()[:16]
