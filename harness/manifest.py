"""Regenerates /verif/MANIFEST.json from harness/entries/<PID>.json and
/verif/known_findings.json from known_findings.d/*.json (python -m harness.manifest).

An entry file has keys: text, design, note, technique, optional category (default proof).
NOTE_COMMON is prepended to every note.  An entry with key not_applicable (a reason string)
is listed under not_applicable instead."""
import json
import os

VERIF = os.path.dirname(os.path.dirname(os.path.abspath(__file__)))

NOTE_COMMON = ("Trusted: Coq 8.16.1 kernel incl. vm_compute (no native_compute); no axioms "
               "(Print Assumptions = closed) unless stated; harness/tr translators; the hand-written Coq model, "
               "tied to /repo only by the correspondence check (differential, generator-bounded); ")

ALL = ["C%02d" % i for i in range(1, 21)]


def load_entries():
    d = os.path.join(VERIF, "harness", "entries")
    out = {}
    for f in sorted(os.listdir(d)):
        if f.endswith(".json"):
            out[f[:-5]] = json.load(open(os.path.join(d, f)))
    return out


def build():
    CHECKS = load_entries()
    checks = []
    for pid in ALL:
        if pid not in CHECKS or CHECKS[pid].get("not_applicable"):
            continue
        c = CHECKS[pid]
        note = c["note"]
        if not note.startswith("Trusted:"):
            note = NOTE_COMMON + note
        checks.append({
            "property_id": pid,
            "quick_cmd": "./check %s --tier quick" % pid,
            "thorough_cmd": "./check %s --tier thorough" % pid,
            "evidence_file": "/verif/evidence/%s.json" % pid,
            "replay_cmd_template": "./check %s --replay {path}" % pid,
            "engine": "coq",
            "level_claimed": {"category": c.get("category", "proof"), "text": c["text"],
                              "design_ref": "DESIGN.md section " + c["design"]},
            "level_note": note,
            "technique": c["technique"],
        })
    claimed = {c["property_id"] for c in checks}
    na = []
    for pid in ALL:
        if pid in claimed:
            continue
        reason = (CHECKS.get(pid) or {}).get("not_applicable") or (
            "check not built yet in this development (planned: DESIGN.md section 4/%s); "
            "nothing is claimed for it" % pid)
        na.append({"property_id": pid, "reason": reason})
    m = {
        "version": 1,
        "setup_cmd": "./setup.sh",
        "hooks": {"guard": "DAGRT_VERIF", "enable": "no hooks in /repo are needed: every observation point is "
                  "reachable through public objects; checks import /repo's working tree via PYTHONPATH",
                  "baseline_off_cmd": "cd /repo && /venv/bin/python -m pytest -ra -q -p no:cacheprovider --timeout=900",
                  "source_commits": [], "add_only": True},
        "engines": [{"name": "coq", "path": "/verif/coq", "serves_properties": sorted(claimed),
                     "kind_free_text": "Coq 8.16.1 development (gen/, model/, proofs/, props/) + Python "
                     "correspondence harness evaluating the model by vm_compute"}],
        "checks": checks,
        "not_applicable": na,
        "notes": "See DESIGN.md. fix: commits in /repo are recorded in known_findings.json.",
    }
    with open(os.path.join(VERIF, "MANIFEST.json"), "w") as f:
        json.dump(m, f, indent=1)
        f.write("\n")
    # known findings: one committed file assembled from known_findings.d/<PID>.json
    findings = []
    d = os.path.join(VERIF, "known_findings.d")
    for fn in sorted(os.listdir(d)):
        if fn.endswith(".json"):
            findings.extend(json.load(open(os.path.join(d, fn))))
    with open(os.path.join(VERIF, "known_findings.json"), "w") as f:
        json.dump({"comment": "Committed list of genuine defects found by the checks (assembled from "
                   "known_findings.d/ by harness/manifest.py; never written by a check). status=open entries are "
                   "printed as KNOWN-FINDING and suppress exactly the listed witness class; status=fixed entries "
                   "suppress nothing.", "findings": findings}, f, indent=1)
        f.write("\n")


if __name__ == "__main__":
    build()
