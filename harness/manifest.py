"""Regenerates /verif/MANIFEST.json from the table below (python -m harness.manifest)."""
import json
import os

VERIF = os.path.dirname(os.path.dirname(os.path.abspath(__file__)))

NOTE_COMMON = ("Trusted: Coq 8.16.1 kernel incl. vm_compute (no native_compute); no axioms "
               "(Print Assumptions = closed) unless stated; harness/translate.py; the hand-written Coq model, "
               "tied to /repo only by the correspondence check (differential, generator-bounded); ")

CHECKS = {
    "C06": dict(
        text="Coq theorems C06_simplify_trace / C06_simplify_total: for ALL trees (blocks, if, if/else, for, "
             "leaves, null; conditions = flags, negations, constants), all valuations and trip counts, the model of "
             "simplify_ast (three passes incl. the deque loop with fuel adequacy) preserves the guarded leaf trace "
             "and never fails. Model tied to /repo on every run: shape switches regenerated from the source "
             "(Generated.v) + exhaustive small-scope and random differential run of real simplify_ast vs the model "
             "evaluated by vm_compute; an implementation-level trace oracle searches for a failing input.",
        design="4/C06",
        note=NOTE_COMMON + "modelled not verified: pymbolic expression equality on conditions (atoms compared by "
             "name), Python deque; conditions restricted to flags/negations/constants as the property states.",
        technique="Coq proof (structural induction + fuel adequacy) + differential correspondence",
    ),
}

ALL = ["C%02d" % i for i in range(1, 21)]


def build():
    checks = []
    for pid in ALL:
        if pid not in CHECKS:
            continue
        c = CHECKS[pid]
        checks.append({
            "property_id": pid,
            "quick_cmd": "./check %s --tier quick" % pid,
            "thorough_cmd": "./check %s --tier thorough" % pid,
            "evidence_file": "/verif/evidence/%s.json" % pid,
            "replay_cmd_template": "./check %s --replay {path}" % pid,
            "engine": "coq",
            "level_claimed": {"category": c.get("category", "proof"), "text": c["text"],
                              "design_ref": "DESIGN.md section " + c["design"]},
            "level_note": c["note"],
            "technique": c["technique"],
        })
    na = [{"property_id": pid, "reason": "check not built yet in this development (planned: DESIGN.md section 4/%s); "
           "nothing is claimed for it" % pid} for pid in ALL if pid not in CHECKS]
    m = {
        "version": 1,
        "setup_cmd": "./setup.sh",
        "hooks": {"guard": "DAGRT_VERIF", "enable": "no hooks in /repo are needed: every observation point is "
                  "reachable through public objects; checks import /repo's working tree via PYTHONPATH",
                  "baseline_off_cmd": "cd /repo && /venv/bin/python -m pytest -ra -q -p no:cacheprovider --timeout=900",
                  "source_commits": [], "add_only": True},
        "engines": [{"name": "coq", "path": "/verif/coq", "serves_properties": sorted(CHECKS),
                     "kind_free_text": "Coq 8.16.1 development (model/, proofs/, props/) + Python correspondence "
                     "harness evaluating the model by vm_compute"}],
        "checks": checks,
        "not_applicable": na,
        "notes": "See DESIGN.md. fix: commits in /repo are recorded in known_findings.json.",
    }
    with open(os.path.join(VERIF, "MANIFEST.json"), "w") as f:
        json.dump(m, f, indent=1)
        f.write("\n")


if __name__ == "__main__":
    build()
