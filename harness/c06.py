"""C06: simplify_ast preserves the guarded trace and is total.

Tie: real dagrt.codegen.dag_ast.simplify_ast vs coq/model/Simplify.v (evaluated
with vm_compute) on an exhaustive small-scope stream + random larger trees.
Oracle: guarded-trace evaluation of the real input and output trees under all
flag valuations and trip counts (independent of the model).
"""
import itertools
import json
import os
import random

from harness import common

PID = "C06"
ATOMS = 2
CONDS = [("t",), ("f",), ("atom", 0), ("atom", 1), ("not", ("atom", 0)), ("not", ("atom", 1)),
         ("not", ("not", ("atom", 0)))]
CONDS_SMALL = [("t",), ("atom", 0), ("atom", 1), ("not", ("atom", 0))]


# ------------------------------------------------------------------ conversion

def _mods():
    from dagrt.codegen import dag_ast
    from pymbolic.primitives import LogicalNot, Variable
    return dag_ast, LogicalNot, Variable


def cond_to_real(c):
    _, LogicalNot, Variable = _mods()
    if c[0] == "t":
        return True
    if c[0] == "f":
        return False
    if c[0] == "not":
        return LogicalNot(cond_to_real(c[1]))
    return Variable("<cond>c%d" % c[1])


def to_real(t):
    d, _, Variable = _mods()
    from dagrt.language import Nop
    k = t[0]
    if k == "leaf":
        return d.StatementWrapper(Nop(id="s%d" % t[1]))
    if k == "null":
        return d.NullASTNode()
    if k == "block":
        return d.Block(*[to_real(c) for c in t[1]])
    if k == "ift":
        return d.IfThen(cond_to_real(t[1]), to_real(t[2]))
    if k == "ifte":
        return d.IfThenElse(cond_to_real(t[1]), to_real(t[2]), to_real(t[3]))
    if k == "for":
        return d.ForLoop("i%d" % t[1], 0, Variable("n%d" % t[1]), to_real(t[2]))
    raise ValueError(t)


def cond_from_real(c):
    _, LogicalNot, Variable = _mods()
    if c is True:
        return ("t",)
    if c is False:
        return ("f",)
    if isinstance(c, LogicalNot):
        return ("not", cond_from_real(c.child))
    if isinstance(c, Variable) and c.name.startswith("<cond>c"):
        return ("atom", int(c.name[7:]))
    raise ValueError("unexpected condition %r" % (c,))


def from_real(n):
    d, _, _ = _mods()
    if isinstance(n, d.StatementWrapper):
        return ("leaf", int(n.statement.id[1:]))
    if isinstance(n, d.NullASTNode):
        return ("null",)
    if isinstance(n, d.Block):
        return ("block", [from_real(c) for c in n.children])
    if isinstance(n, d.IfThenElse):
        return ("ifte", cond_from_real(n.condition), from_real(n.then), from_real(n.else_))
    if isinstance(n, d.IfThen):
        return ("ift", cond_from_real(n.condition), from_real(n.then))
    if isinstance(n, d.ForLoop):
        return ("for", int(n.loop_var_name[1:]), from_real(n.body))
    raise ValueError("unexpected node %r" % (n,))


def cond_to_coq(c):
    if c[0] == "t":
        return "CTrue"
    if c[0] == "f":
        return "CFalse"
    if c[0] == "not":
        return "(CNot %s)" % cond_to_coq(c[1])
    return "(CAtom %d)" % c[1]


def to_coq(t):
    k = t[0]
    if k == "leaf":
        return "(Leaf %d)" % t[1]
    if k == "null":
        return "Null"
    if k == "block":
        return "(Block [%s])" % "; ".join(to_coq(c) for c in t[1])
    if k == "ift":
        return "(IfT %s %s)" % (cond_to_coq(t[1]), to_coq(t[2]))
    if k == "ifte":
        return "(IfTE %s %s %s)" % (cond_to_coq(t[1]), to_coq(t[2]), to_coq(t[3]))
    if k == "for":
        return "(For %d %s)" % (t[1], to_coq(t[2]))
    raise ValueError(t)


# ------------------------------------------------------------------ oracle (independent of the model)

def evalc(c, v):
    if c[0] == "t":
        return True
    if c[0] == "f":
        return False
    if c[0] == "not":
        return not evalc(c[1], v)
    return v[c[1]]


def trace(t, v, trips):
    k = t[0]
    if k == "leaf":
        return [t[1]]
    if k == "null":
        return []
    if k == "block":
        return [x for c in t[1] for x in trace(c, v, trips)]
    if k == "ift":
        return trace(t[2], v, trips) if evalc(t[1], v) else []
    if k == "ifte":
        return trace(t[2], v, trips) if evalc(t[1], v) else trace(t[3], v, trips)
    if k == "for":
        return trace(t[2], v, trips) * trips
    raise ValueError(t)


def has_for(t):
    k = t[0]
    if k == "for":
        return True
    if k == "block":
        return any(has_for(c) for c in t[1])
    if k == "ift":
        return has_for(t[2])
    if k == "ifte":
        return has_for(t[2]) or has_for(t[3])
    return False


def oracle(t, result):
    """Decide the property for one input on the implementation's answer.
    result = ("ok", tree) | ("exc", class_name).  Returns None or a dict."""
    if result[0] != "ok":
        return {"kind": "exception", "exception": result[1]}
    out = result[1]
    tripss = (0, 1, 2) if has_for(t) else (1,)
    for v in itertools.product((False, True), repeat=ATOMS):
        for trips in tripss:
            a, b = trace(t, v, trips), trace(out, v, trips)
            if a != b:
                return {"kind": "trace", "valuation": list(v), "trips": trips,
                        "trace_input": a, "trace_output": b}
    return None


def run_impl(t):
    d, _, _ = _mods()
    try:
        out = d.simplify_ast(to_real(t))
    except Exception as ex:  # noqa: BLE001 - the class is the observable
        return ("exc", type(ex).__name__)
    try:
        return ("ok", from_real(out))
    except Exception as ex:  # noqa: BLE001
        return ("exc", "Unrepresentable:" + type(ex).__name__)


# ------------------------------------------------------------------ generation

def relabel(t, counter=None):
    if counter is None:
        counter = [0]
    k = t[0]
    if k == "leaf":
        counter[0] += 1
        return ("leaf", counter[0] - 1)
    if k == "null":
        return t
    if k == "block":
        return ("block", [relabel(c, counter) for c in t[1]])
    if k == "ift":
        return ("ift", t[1], relabel(t[2], counter))
    if k == "ifte":
        a = relabel(t[2], counter)
        return ("ifte", t[1], a, relabel(t[3], counter))
    if k == "for":
        return ("for", t[1], relabel(t[2], counter))


_memo = {}


def trees(n, conds):
    """All tree shapes with exactly n nodes (leaves unlabelled)."""
    key = (n, len(conds))
    if key in _memo:
        return _memo[key]
    out = []
    if n == 1:
        out = [("leaf", 0), ("null",), ("block", [])]
    elif n > 1:
        for kids in forests(n - 1, conds):
            out.append(("block", kids))
        for c in conds:
            for t in trees(n - 1, conds):
                out.append(("ift", c, t))
            for a in range(1, n - 1):
                for t in trees(a, conds):
                    for e in trees(n - 1 - a, conds):
                        out.append(("ifte", c, t, e))
    _memo[key] = out
    return out


_fmemo = {}


def forests(n, conds):
    """All non-empty lists of trees with n nodes in total."""
    key = (n, len(conds))
    if key in _fmemo:
        return _fmemo[key]
    out = []
    for a in range(1, n + 1):
        for t in trees(a, conds):
            if a == n:
                out.append([t])
            else:
                for rest in forests(n - a, conds):
                    out.append([t] + rest)
    _fmemo[key] = out
    return out


def random_tree(rng, budget, depth=0):
    if budget <= 1 or depth > 6:
        return rng.choice([("leaf", 0), ("leaf", 0), ("leaf", 0), ("null",), ("block", [])])
    k = rng.random()
    c = rng.choice(CONDS)
    if k < 0.35:
        n = rng.randint(1, min(5, budget - 1))
        parts = [max(1, (budget - 1) // n)] * n
        return ("block", [random_tree(rng, p, depth + 1) for p in parts])
    if k < 0.5:
        return ("ift", c, random_tree(rng, budget - 1, depth + 1))
    if k < 0.85:
        a = rng.randint(1, budget - 1)
        return ("ifte", c, random_tree(rng, a, depth + 1), random_tree(rng, max(1, budget - 1 - a), depth + 1))
    if k < 0.93:
        return ("for", rng.randint(0, 1), random_tree(rng, budget - 1, depth + 1))
    return ("leaf", 0)


def size(t):
    k = t[0]
    if k in ("leaf", "null"):
        return 1
    if k == "block":
        return 1 + sum(size(c) for c in t[1])
    if k == "ift":
        return 1 + size(t[2])
    if k == "ifte":
        return 1 + size(t[2]) + size(t[3])
    return 1 + size(t[2])


def corpus():
    out = []
    d = os.path.join(common.VERIF, "corpus", PID)
    if os.path.isdir(d):
        for f in sorted(os.listdir(d)):
            if f.endswith(".json"):
                out.append(json.load(open(os.path.join(d, f)))["tree"])
    return [_tup(t) for t in out]


def _tup(t):
    if isinstance(t, list):
        if t and t[0] == "block":
            return ("block", [_tup(c) for c in t[1]])
        return tuple(_tup(x) for x in t)
    return t


def gen_cases(tier, seed):
    cases = list(corpus())
    n_corpus = len(cases)
    maxn_full, maxn_small = (4, 5) if tier == "quick" else (5, 6)
    for n in range(1, maxn_full + 1):
        cases.extend(relabel(t) for t in trees(n, CONDS))
    n_exh_full = len(cases) - n_corpus
    _memo.clear(), _fmemo.clear()
    for n in range(maxn_full + 1, maxn_small + 1):
        cases.extend(relabel(t) for t in trees(n, CONDS_SMALL))
    _memo.clear(), _fmemo.clear()
    n_exh = len(cases) - n_corpus
    rng = random.Random(seed * 7919 + 6)
    nrand = 1500 if tier == "quick" else 20000
    for _ in range(nrand):
        cases.append(relabel(random_tree(rng, rng.randint(4, 40))))
    dist = {"corpus": n_corpus, "exhaustive": n_exh, "random": nrand,
            "exhaustive_scope": "all trees over {leaf,null,block,if,if/else} with <= %d nodes and conditions "
                                "from 7 (T,F,a,b,!a,!b,!!a); <= %d nodes with conditions from 4 (T,a,b,!a)"
                                % (maxn_full, maxn_small),
            "exhaustive_full_conditions": n_exh_full}
    return cases, dist


# ------------------------------------------------------------------ the check

HEADER = ("From Coq Require Import List Arith Bool.\nImport ListNotations.\n"
          "From Dagrt Require Import GenC06 Simplify.\n"
          "Definition chk (c : ast * option ast) : bool :=\n"
          "  match simplify simplify_rev_expand simplify_guard_empty (fst c), snd c with\n"
          "  | Ok a, Some b => ast_eqb a b\n  | IndexError, None => true\n  | _, _ => false end.\n")


def case_term(t, res):
    if res[0] == "ok":
        return "(%s, Some %s)" % (to_coq(t), to_coq(res[1]))
    return "(%s, @None ast)" % to_coq(t)


def shrink(t, fails):
    """Greedy structural shrinking: replace the tree by a failing subtree / drop children."""
    changed = True
    while changed:
        changed = False
        for cand in _neighbours(t):
            if size(cand) < size(t) and fails(cand):
                t = relabel(cand)
                changed = True
                break
    return t


def _neighbours(t):
    k = t[0]
    if k == "block":
        for c in t[1]:
            yield c
        for i in range(len(t[1])):
            yield ("block", t[1][:i] + t[1][i + 1:])
        for i, c in enumerate(t[1]):
            for c2 in _neighbours(c):
                yield ("block", t[1][:i] + [c2] + t[1][i + 1:])
    elif k == "ift":
        yield t[2]
        for c2 in _neighbours(t[2]):
            yield ("ift", t[1], c2)
    elif k == "ifte":
        yield t[2]
        yield t[3]
        for c2 in _neighbours(t[2]):
            yield ("ifte", t[1], c2, t[3])
        for c2 in _neighbours(t[3]):
            yield ("ifte", t[1], t[2], c2)
    elif k == "for":
        yield t[2]
        for c2 in _neighbours(t[2]):
            yield ("for", t[1], c2)


def main(tier):
    rep = common.Reporter(PID, tier)
    seed = common.seed()
    ps = common.proof_stage(rep, PID, gen=["c06"])

    cases, dist = gen_cases(tier, seed)
    results = [run_impl(t) for t in cases]

    # implementation-level oracle on every case
    failing = {}
    for t, r in zip(cases, results):
        o = oracle(t, r)
        if o is not None:
            key = o["kind"] + ":" + o.get("exception", "")
            if key not in failing or size(t) < size(failing[key][0]):
                failing[key] = (t, r, o)
    for key, (t, r, o) in sorted(failing.items()):
        kind = o["kind"]
        t2 = shrink(t, lambda c: (lambda oo: oo is not None and oo["kind"] == kind)(oracle(c, run_impl(c))))
        r2 = run_impl(t2)
        rep.violation({"what": "simplify_ast changes the guarded trace or raises",
                       "input_tree": t2, "input_coq": to_coq(t2),
                       "impl_result": r2, "oracle": oracle(t2, r2),
                       "replay": "PYTHONPATH=/repo /venv/bin/python -m harness.main C06 --replay <this file>"})

    # correspondence with the Coq model
    n_eval = 0
    mism = []
    errors = []
    if os.path.exists(os.path.join(common.COQ, "model", "Simplify.vo")) and os.path.exists(
            os.path.join(common.COQ, "gen", "GenC06.vo")):
        terms = [case_term(t, r) for t, r in zip(cases, results)]
        mism, n_eval, errors = common.eval_cases(PID, HEADER, terms, "chk")
    else:
        errors = ["model not built"]

    tie_broken = bool(mism or errors)
    if (not ps["ok"] or tie_broken) and not rep.violations:
        detail = {"what": "proof obligation or model/implementation correspondence no longer checks; "
                          "no failing input found by the implementation-level oracle",
                  "proof_stage": ps, "coq_errors": errors[:3]}
        if mism:
            i = mism[0]
            detail["first_disagreeing_case"] = {"input_tree": cases[i], "impl_result": results[i],
                                                "model_result": common.eval_term(
                                                    HEADER, "simplify simplify_rev_expand simplify_guard_empty %s"
                                                    % to_coq(cases[i]))}
            detail["n_disagreements"] = len(mism)
        detail["broken"] = ("theorem file %s" % ps.get("theorem")) if not ps["ok"] else \
            "correspondence simplify_ast ~ Dagrt.Simplify.simplify"
        rep.violation(detail, no_input=True)
    elif not ps["ok"] or tie_broken:
        # a failing input was reported above; record the broken obligation alongside
        rep.coverage["broken_obligation"] = ps if not ps["ok"] else {"disagreements": len(mism)}

    distinct = len({json.dumps(t) for t, r in zip(cases, results)
                    if r[0] != "ok" or r[1] != t})
    rep.coverage.update(
        evaluations=len(cases), distinct_nontrivial=distinct,
        rule="cases = corpus + exhaustive small trees + random trees (<=40 nodes, incl. for-loops); "
             "non-trivial = simplify_ast returns a tree different from its input (or raises); distinct by structure",
        traces_validated_against_impl=n_eval, model_impl_disagreements=len(mism),
        input_distribution=dist,
        size_histogram={str(k): sum(1 for t in cases if size(t) // 5 == k // 5) for k in range(0, 45, 5)},
        samples=[{"input": to_coq(cases[i]), "impl": results[i]} for i in
                 (0, len(cases) // 2, len(cases) - 1)],
        exhaustive=False,
    )
    rep.assumptions = ["leaves do not change flags within one valuation (C10's single-definition rule)",
                       "conditions are flags, negated flags or the constants True/False (compared by ==)"]
    return rep.finish("proof")


def replay(path):
    r = json.load(open(path))
    t = r.get("input_tree") or (r.get("first_disagreeing_case") or {}).get("input_tree")
    if t is None:
        print("replay names a broken obligation, no input: %s" % r.get("broken"))
        return 1
    t = _tup(t)
    res = run_impl(t)
    o = oracle(t, res)
    print(json.dumps({"input": to_coq(t), "impl_result": res, "oracle": o}, indent=1))
    return 1 if o is not None else 0
