"""C11: a failing user function leaves the stepper consistent and resumable.

Programs with user functions that raise (depending on their arguments) are run by the real
NumpyInterpreter and by the generated Python class.  Oracle (independent of the model):
 * the exception object that reaches the caller is the one the user function raised;
 * afterwards no per-step name is visible;
 * a persistent variable changed during the failed step is written by some statement of the phase,
   and a variable whose every writer (transitively) depends on the failed statement is unchanged;
 * stepping on from that state equals a fresh stepper started in that state and phase;
 * interpreter and generated code agree on all of it.
Tie: the observed run up to the exception (events, final persistent state, next_phase) and the
resumed run are compared with coq/model/Stepper.v by vm_compute.
"""
import copy
import json
import os
import random

from harness import c01, c02, common, lang

PID = "C11"
HEADER = c01.HEADER
FUNCS = c01.FUNCS


class Raised:
    """user functions that remember the exception objects they raised"""

    def __init__(self):
        self.log = []

    def function_map(self):
        out = {}
        for n in FUNCS:
            f = lang.test_F(n, lang.nres_of(n))

            def wrap(*a, _f=f, **k):
                try:
                    return _f(*a, **k)
                except lang.UserFunctionError as ex:
                    self.log.append(ex)
                    raise
            out[n] = wrap
        return out


def persistent_ok(name):
    return name in ("<t>", "<dt>") or name.startswith("<state>") or name.startswith("<p>")


# ------------------------------------------------------------------ interpreter

def interp_run(case, code, obs, resume_steps):
    from dagrt.exec_numpy import NumpyInterpreter, StateComputed, StepCompleted, StepFailed
    raised = Raised()
    current = {"stmt": None, "before": None}

    orders = []

    class Spy(NumpyInterpreter):
        def evaluate_condition(self, stmt):
            current["stmt"] = stmt.id
            orders[-1][1].append(int(stmt.id.rsplit("_", 1)[1]))
            return super().evaluate_condition(stmt)

        def run_single_step(self):
            current["before"] = {k: copy.deepcopy(v) for k, v in self.context.items()}
            current["phase"] = self.next_phase
            orders.append([self.next_phase, []])
            yield from super().run_single_step()

    interp = Spy(code, raised.function_map())
    interp.set_up(t_start=0, dt_start=1, context={k: lang.val_to_py(v) for k, v in case["init"].items()})

    def snapshot(obj=interp):
        return [lang.canon_val(obj.context[n]) if n in obj.context else None for n in obs]
    kw = {"max_steps": case["limit"]} if case["mode"] == "steps" else {"t_end": case["limit"]}
    r = {"events": [], "end": ["cut"], "exc_same": None}
    try:
        it = interp.run(**kw)
        while True:
            if len([e for e in r["events"] if e[0] != "yield"]) >= c01.MAX_EVENTS:
                break
            try:
                e = next(it)
            except StopIteration:
                r["end"] = ["steps"] if case["mode"] == "steps" else ["time"]
                break
            if isinstance(e, StateComputed):
                r["events"].append(["yield", e.component_id, e.time_id, lang.canon_val(e.t),
                                    lang.canon_val(e.state_component)])
            elif isinstance(e, StepCompleted):
                r["events"].append(["completed", lang.canon_val(e.dt), lang.canon_val(e.t), e.current_state,
                                    e.next_phase, snapshot()])
            elif isinstance(e, StepFailed):
                r["events"].append(["failed", lang.canon_val(e.t), snapshot()])
    except Exception as ex:  # noqa: BLE001
        nm = type(ex).__name__
        if raised.log and (ex is raised.log[-1] or ex.__cause__ is raised.log[-1] or ex.__context__ is raised.log[-1]):
            # a user function raised during this step: the caller must get that very exception object
            r["end"] = ["user"]
            r["exc_same"] = ex is raised.log[-1]
        else:
            r["end"] = ["raised", nm] if nm in lang.RAISE_CLASSES and type(ex) is lang.RAISE_CLASSES[nm] \
                else ["crash", nm]
    r["next"] = interp.next_phase
    r["final"] = snapshot()
    r["orders"] = [list(o) for o in orders]
    r["visible"] = sorted(interp.context.keys())
    r["failed_stmt"] = current["stmt"]
    r["failed_phase"] = current.get("phase")
    r["before"] = {k: lang.canon_val(v) for k, v in (current["before"] or {}).items()}
    if r["end"][0] == "user":
        # resume on the same object vs a fresh interpreter started in that state and phase
        state = {k: copy.deepcopy(v) for k, v in interp.context.items()}
        fresh = NumpyInterpreter(code, Raised().function_map())
        fresh.context.update(state)
        fresh.next_phase = interp.next_phase
        sub = dict(case, mode="steps", limit=resume_steps)
        n0 = len(orders)
        ra = c01.consume(interp, lambda: snapshot(interp), sub, StepCompleted, StepFailed, StateComputed)
        ra["orders"] = [list(o) for o in orders[n0:]]
        rb = c01.consume(fresh, lambda: snapshot(fresh), sub, StepCompleted, StepFailed, StateComputed)
        r["resume_same"] = ra
        r["resume_fresh"] = rb
    return r


# ------------------------------------------------------------------ generated class

def gen_run(case, code, obs, resume_steps):
    from dagrt.codegen import PythonCodeGenerator
    cg = PythonCodeGenerator(class_name="Method")
    cls = cg.get_class(code)
    raised = Raised()
    m = cls(raised.function_map())
    m.set_up(t_start=0, dt_start=1, context={k: lang.val_to_py(v) for k, v in case["init"].items()})
    nm = cg._name_manager
    attrs = {n: nm.name_global(n)[5:] for n in obs}

    def snapshot(obj=m):
        return [lang.canon_val(getattr(obj, attrs[n])) if hasattr(obj, attrs[n]) else None for n in obs]
    base_attrs = set(vars(m))
    kw = {"max_steps": case["limit"]} if case["mode"] == "steps" else {"t_end": case["limit"]}
    r = {"events": [], "end": ["cut"], "exc_same": None}
    try:
        it = m.run(**kw)
        while True:
            if len([e for e in r["events"] if e[0] != "yield"]) >= c01.MAX_EVENTS:
                break
            try:
                e = next(it)
            except StopIteration:
                r["end"] = ["steps"] if case["mode"] == "steps" else ["time"]
                break
            if isinstance(e, cls.StateComputed):
                r["events"].append(["yield", e.component_id, e.time_id, lang.canon_val(e.t),
                                    lang.canon_val(e.state_component)])
            elif isinstance(e, cls.StepCompleted):
                r["events"].append(["completed", lang.canon_val(e.dt), lang.canon_val(e.t), e.current_phase,
                                    e.next_phase, snapshot()])
            elif isinstance(e, cls.StepFailed):
                r["events"].append(["failed", lang.canon_val(e.t), snapshot()])
    except Exception as ex:  # noqa: BLE001
        nmx = type(ex).__name__
        if raised.log and (ex is raised.log[-1] or ex.__cause__ is raised.log[-1] or ex.__context__ is raised.log[-1]):
            r["end"] = ["user"]
            r["exc_same"] = ex is raised.log[-1]
        else:
            r["end"] = ["raised", ex.condition] if nmx == "StepError" else ["crash", nmx]
    r["next"] = m.next_phase
    r["final"] = snapshot()
    r["new_attributes"] = sorted(set(vars(m)) - base_attrs - set(attrs.values()))
    if r["end"][0] == "user":
        fresh = cls(Raised().function_map())
        for k, v in vars(m).items():
            if k.startswith("global_") or k in ("t", "dt", "next_phase"):
                setattr(fresh, k, copy.deepcopy(v))
        sub = dict(case, mode="steps", limit=resume_steps)
        ra = c01.consume(m, lambda: snapshot(m), sub, cls.StepCompleted, cls.StepFailed, cls.StateComputed)
        rb = c01.consume(fresh, lambda: snapshot(fresh), sub, cls.StepCompleted, cls.StepFailed, cls.StateComputed)
        r["resume_same"] = ra
        r["resume_fresh"] = rb
    return r


# ------------------------------------------------------------------ oracle

def oracle(case):
    code = c01.make_code(case)
    obs = c01.persistent_names(case)
    ri = interp_run(case, code, obs, 2)
    rg = gen_run(case, code, obs, 2)
    hdef = not c01.reads_unset(case, code)
    o = None
    if ri["end"][0] == "user":
        if ri["exc_same"] is not True:
            o = {"kind": "interp_exception_not_propagated"}
        elif any(not persistent_ok(k) for k in ri["visible"]):
            o = {"kind": "interp_temporary_visible", "names": [k for k in ri["visible"] if not persistent_ok(k)]}
        elif c01.canon_obs(ri["resume_same"]) != c01.canon_obs(ri["resume_fresh"]):
            o = {"kind": "interp_resume_differs", "same": ri["resume_same"]["end"], "fresh": ri["resume_fresh"]["end"]}
        else:
            # what changed during the failed step, and what may have
            phase = code.phases[ri["failed_phase"]]
            stmts = {s.id: s for s in phase.statements}
            failed = stmts.get(ri["failed_stmt"])
            # a statement that raises inside its loop nest keeps the effects of the iterations already done
            partial = set(failed.get_written_variables()) if failed is not None and getattr(failed, "loops", None) \
                else set()
            dependents = {ri["failed_stmt"]}
            grew = True
            while grew:
                grew = False
                for s in phase.statements:
                    if s.id not in dependents and set(s.depends_on) & dependents:
                        dependents.add(s.id)
                        grew = True
            writers = {}
            for s in phase.statements:
                for v in s.get_written_variables():
                    writers.setdefault(v, set()).add(s.id)
            after = {k: lang.canon_val(v) for k, v in zip(obs, [None] * len(obs))}
            for n, v in zip(obs, ri["final"]):
                after[n] = v
            for n in obs:
                b = ri["before"].get(n)
                a = after[n]
                if a != b:
                    if n not in writers:
                        o = {"kind": "interp_unwritten_variable_changed", "name": n, "before": b, "after": a}
                    elif writers[n] <= dependents and n not in partial:
                        o = {"kind": "interp_dependent_variable_changed", "name": n, "before": b, "after": a,
                             "failed_stmt": ri["failed_stmt"]}
    if o is None and rg["end"][0] == "user":
        if rg["exc_same"] is not True:
            o = {"kind": "gen_exception_not_propagated"}
        elif rg["new_attributes"]:
            o = {"kind": "gen_temporary_visible", "names": rg["new_attributes"]}
        elif c01.canon_obs(rg["resume_same"]) != c01.canon_obs(rg["resume_fresh"]):
            o = {"kind": "gen_resume_differs"}
    if o is None and hdef:
        a, b = c01.canon_obs(ri), c01.canon_obs(rg)
        # the persistent state right after an exception (and which of several exceptions escapes) may
        # legitimately depend on the order in which independent statements ran; everything else must agree
        if c01.differ(a, b):
            o = {"kind": "backends_differ", "interpreter": {"end": a["end"], "n": len(a["events"])},
                 "generated": {"end": b["end"], "n": len(b["events"])}}
    return o, ri, rg, obs, hdef


def resumed_case(case, r, obs):
    """the resumed run as a model case: start from the state the exception left behind"""
    init = {n: v for n, v in zip(obs, r["final"]) if v is not None}
    return init, r["next"]


def main(tier):
    rep = common.Reporter(PID, tier)
    seed = common.seed()
    ps = common.proof_stage(rep, PID, gen=["lang"])
    rng = random.Random(seed * 6421 + 11)
    n = 150 if tier == "quick" else 3000
    cases = [c01.gen_dag(rng, raising=True) for _ in range(n)]
    d = os.path.join(common.VERIF, "corpus", PID)
    if os.path.isdir(d):
        cases = [json.load(open(os.path.join(d, f)))["case"] for f in sorted(os.listdir(d)) if f.endswith(".json")] + cases

    failing = {}
    terms, tidx = [], []
    n_user = 0
    ends = {}
    for ci, case in enumerate(cases):
        o, ri, rg, obs, hdef = oracle(case)
        ends[ri["end"][0]] = ends.get(ri["end"][0], 0) + 1
        if ri["end"][0] == "user":
            n_user += 1
        if o is not None:
            key = o["kind"]
            if key not in failing or len(json.dumps(case)) < len(json.dumps(failing[key][0])):
                failing[key] = (case, o)
        # correspondence: run up to the exception (program order = any admissible order, except the
        # state right after an exception, which is compared for the interpreter only when the model's
        # program order and the interpreter's order agree on it -- the check tolerates neither: skip final)
        if c01.in_universe(ri):
            fuel = c01.attempts(ri) + (1 if ri["end"][0] != "cut" else 0)
            terms.append(c01.case_term(case, ri, None, obs, fuel))
            tidx.append(ci)
            if ri["end"][0] == "user" and c01.in_universe(ri["resume_same"]):
                init, nxt = resumed_case(case, ri, obs)
                sub = dict(case, mode="steps", limit=2, first=nxt)
                rs = ri["resume_same"]
                fuel2 = c01.attempts(rs) + (1 if rs["end"][0] != "cut" else 0)
                terms.append(c01.case_term(sub, rs, None, obs, fuel2, init_store=init))
                tidx.append(ci)

    for key, (case, o) in sorted(failing.items()):
        rep.violation({"what": "a failing user function leaves the stepper inconsistent (or the backends disagree)",
                       "case": case, "program": str(c01.make_code(case)), "oracle": o})

    mism, n_eval, errors = [], 0, []
    if os.path.exists(os.path.join(common.COQ, "model", "StepperCheck.vo")) and \
            os.path.exists(os.path.join(common.COQ, "gen", "GenLang.vo")):
        mism, n_eval, errors = common.eval_cases(PID, HEADER, terms, "chk", shard=10)
        mism = [tidx[i] for i in mism]
    else:
        errors = ["model not built"]
    tie_broken = bool(mism or errors)
    if (not ps["ok"] or tie_broken) and not rep.violations:
        detail = {"what": "proof obligation or model/implementation correspondence no longer checks; "
                          "no failing input found by the implementation-level oracle",
                  "proof_stage": ps, "coq_errors": errors[:3], "n_disagreements": len(mism)}
        if mism:
            detail["first_disagreeing_case"] = {"case": cases[mism[0]], "program": str(c01.make_code(cases[mism[0]]))}
        detail["broken"] = ("theorem file %s" % ps.get("theorem")) if not ps["ok"] else \
            "correspondence run() with raising user functions ~ Dagrt.Stepper.run"
        rep.violation(detail, no_input=True)
    elif not ps["ok"] or tie_broken:
        rep.coverage["broken_obligation"] = ps if not ps["ok"] else {"disagreements": len(mism)}

    rep.coverage.update(
        evaluations=len(cases), distinct_nontrivial=n_user,
        rule="random multi-phase builder programs calling user functions that raise depending on their "
             "arguments; non-trivial = a user function actually raised during the run (then the state after the "
             "exception, the exception object and the resumed run are checked on both backends)",
        traces_validated_against_impl=n_eval, model_impl_disagreements=len(mism),
        input_distribution={"ends": ends},
        samples=[{"program": str(c01.make_code(cases[i])), "mode": cases[i]["mode"], "limit": cases[i]["limit"]}
                 for i in (len(cases) // 2,)],
    )
    rep.assumptions = ["user functions are pure and raise depending on their arguments only (the fault model "
                       "'k-th call fails' is covered by argument-dependent failure)", "H-def, A1-A3 as in C01/C02"]
    return rep.finish("proof")


def replay(path):
    r = json.load(open(path))
    if "case" not in r:
        print("replay names a broken obligation, no input: %s" % r.get("broken"))
        return 1
    o = oracle(r["case"])[0]
    print(json.dumps({"oracle": o}, indent=1, default=str))
    return 1 if o is not None else 0
