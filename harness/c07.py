"""C07: statement-rewriting passes preserve meaning and never capture names.

Tie: the REAL eliminate_self_dependencies / isolate_function_arguments / isolate_function_calls /
expand_IfThenElse (dagrt/codegen/transform.py) applied alone and in the order of fortran.py's
process_ast to trees produced by the REAL lowering (create_ast_from_phase) of generated builder
programs and statement lists with adversarial names, and to hand-built trees with guarded leaves;
the output trees (incl. generated names, ids, dependency sets, guards) are compared with
coq/model/Transform.v evaluated by vm_compute; the model's traced semantics of the input and
output tree (coq/model/TransformSem.v) is compared with a tree-walking executor that drives the
real interpreter's evaluate_condition / exec_* on the real trees.

Oracle (independent of the model): on the real before/after trees, from several initial stores:
final values of every variable of the input tree, yielded events, stop reason and the multiset of
calls of user functions must agree whenever the input tree runs without a Python exception; ids
unique, introduced names absent from the input tree (statements, guards, loop counters, bounds);
every statement derived from a leaf carries its guard; no introduced variable read before the
statement that sets it.
"""
import copy
import json
import os
import random

from harness import common, lang

PID = "C07"
PASSES = ["eliminate_self_dependencies", "isolate_function_arguments", "isolate_function_calls",
          "expand_IfThenElse"]
SHORT = {"eliminate_self_dependencies": "sd", "isolate_function_arguments": "fai",
         "isolate_function_calls": "fci", "expand_IfThenElse": "ite"}

HEADER = ("From Coq Require Import List ZArith String Bool.\nImport ListNotations.\n"
          "From Dagrt Require Import GenLang GenC07 Lang TestOracle LangCheck Sched SchedCheck Transform "
          "TransformSem TransformSide TransformCheck.\nOpen Scope string_scope.\nOpen Scope Z_scope.\n"
          "Definition tie := chk7 lang_del_guarded lang_lhs_sub_reads lang_loop_bound_reads "
          "c07_seed_node_vars c07_sd_sorted c07_fci_passes_cond c07_ite_flag_first.\n"
          "Definition pres := pres7 lang_lhs_sub_reads lang_loop_bound_reads c07_seed_node_vars "
          "c07_sd_sorted c07_fci_passes_cond c07_ite_flag_first fortran_pass_order.\n"
          "Definition chk (c : case7) := tie c && pres c.\n"
          "Definition nohyp (c : case7) := negb (hyp7 c).\n"
          "Definition nohypp (c : case7) := negb (hypp7 c).\n")

# adversarial name pools: user names that look like generated ones
INTS = ["x", "y", "tmp", "tmp_0", "temp_y", "temp__state_u", "<state>u", "<p>n", "ifthenelse_result", "x_3", "y_07",
        "temp_x"]
ARRS = ["a", "<state>b"]
FLAGS = ["<cond>c", "<cond>ifthenelse_cond", "<cond>ifthenelse_cond_0"]
FUNCS = ["<func>f", "<func>g", "<func>g2", "<func>raise_h", "<func>arr_k", "<func>len_"]
LOOPVARS = ["i", "tmp_1", "temp_i", "tmp", "ifthenelse_result_0"]
IDS = ["s0", "s1", "tmp", "temp", "tmp_0", "temp_0", "ifthenelse_cond", "ifthenelse_then", "ifthenelse_else", "s2",
       "tmp_1", "ifthenelse_cond_0", "s3", "s4", "s5", "s6", "s7", "s8", "s9"]


# ------------------------------------------------------------------ representation
# stmt = {"id", "deps", "cond", "kind"};  tree = ["leaf", stmt] | ["null"] | ["block", [tree]]
#      | ["if", cond, t] | ["ifelse", cond, t, e] | ["for", x, lo, hi, body]

def _d():
    from dagrt.codegen import dag_ast
    return dag_ast


def stmt_to_real(s):
    return lang.kind_to_real(s["kind"], cond=s["cond"], sid=s["id"], deps=s["deps"])


def stmt_from_real(s):
    return {"id": s.id, "deps": sorted(s.depends_on), "cond": lang.from_pym(s.condition),
            "kind": lang.kind_from_real(s)}


def tree_to_real(t):
    d = _d()
    k = t[0]
    if k == "leaf":
        return d.StatementWrapper(stmt_to_real(t[1]))
    if k == "null":
        return d.NullASTNode()
    if k == "block":
        return d.Block(*[tree_to_real(c) for c in t[1]])
    if k == "if":
        return d.IfThen(lang.to_pym(t[1]), tree_to_real(t[2]))
    if k == "ifelse":
        return d.IfThenElse(lang.to_pym(t[1]), tree_to_real(t[2]), tree_to_real(t[3]))
    if k == "for":
        return d.ForLoop(t[1], lang.to_pym(t[2]), lang.to_pym(t[3]), tree_to_real(t[4]))
    raise ValueError(t)


def tree_from_real(n):
    d = _d()
    if isinstance(n, d.StatementWrapper):
        return ["leaf", stmt_from_real(n.statement)]
    if isinstance(n, d.NullASTNode):
        return ["null"]
    if isinstance(n, d.Block):
        return ["block", [tree_from_real(c) for c in n.children]]
    if isinstance(n, d.IfThenElse):
        return ["ifelse", lang.from_pym(n.condition), tree_from_real(n.then), tree_from_real(n.else_)]
    if isinstance(n, d.IfThen):
        return ["if", lang.from_pym(n.condition), tree_from_real(n.then)]
    if isinstance(n, d.ForLoop):
        return ["for", n.loop_var_name, lang.from_pym(n.lbound), lang.from_pym(n.ubound), tree_from_real(n.body)]
    raise ValueError("unexpected node %r" % (n,))


def stmt_to_coq(s):
    return "(mkT %s [%s] %s %s)" % (lang.coq_str(s["id"]), "; ".join(lang.coq_str(x) for x in s["deps"]),
                                    lang.to_coq(s["cond"]), lang.kind_to_coq(s["kind"]))


def tree_to_coq(t):
    k = t[0]
    if k == "leaf":
        return "(TLeaf %s)" % stmt_to_coq(t[1])
    if k == "null":
        return "TNull"
    if k == "block":
        return "(TBlock [%s])" % "; ".join(tree_to_coq(c) for c in t[1])
    if k == "if":
        return "(TIf %s %s)" % (lang.to_coq(t[1]), tree_to_coq(t[2]))
    if k == "ifelse":
        return "(TIfElse %s %s %s)" % (lang.to_coq(t[1]), tree_to_coq(t[2]), tree_to_coq(t[3]))
    if k == "for":
        return "(TFor %s %s %s %s)" % (lang.coq_str(t[1]), lang.to_coq(t[2]), lang.to_coq(t[3]), tree_to_coq(t[4]))
    raise ValueError(t)


def leaves(t):
    k = t[0]
    if k == "leaf":
        return [t[1]]
    if k == "block":
        return [s for c in t[1] for s in leaves(c)]
    if k == "if":
        return leaves(t[2])
    if k == "ifelse":
        return leaves(t[2]) + leaves(t[3])
    if k == "for":
        return leaves(t[4])
    return []


def has_null(t):
    k = t[0]
    if k == "null":
        return True
    if k == "block":
        return any(has_null(c) for c in t[1])
    if k == "if":
        return has_null(t[2])
    if k == "ifelse":
        return has_null(t[2]) or has_null(t[3])
    if k == "for":
        return has_null(t[4])
    return False


def tree_size(t):
    k = t[0]
    if k == "leaf":
        return 1 + sum(expr_size(e) for e in stmt_exprs(t[1]))
    if k == "block":
        return 1 + sum(tree_size(c) for c in t[1])
    if k == "if":
        return 1 + tree_size(t[2])
    if k == "ifelse":
        return 1 + tree_size(t[2]) + tree_size(t[3])
    if k == "for":
        return 1 + tree_size(t[4])
    return 1


def expr_size(e):
    k = e[0]
    if k == "not":
        return 1 + expr_size(e[1])
    if k == "if":
        return 1 + sum(expr_size(c) for c in e[1:])
    if k == "bin":
        return 1 + expr_size(e[2]) + expr_size(e[3])
    if k == "nary":
        return 1 + sum(expr_size(c) for c in e[2])
    if k == "call":
        return 1 + sum(expr_size(c) for c in e[2]) + sum(expr_size(v) for _, v in e[3])
    return 1


def kind_exprs(k):
    t = k[0]
    if t == "assign":
        out = ([k[2]] if k[2] is not None else []) + [k[3]]
        for _, lo, hi in k[4]:
            out += [lo, hi]
        return out
    if t == "call":
        return list(k[3]) + [v for _, v in k[4]]
    if t == "yield":
        return [k[4], k[3]]
    return []


def stmt_exprs(s):
    return kind_exprs(s["kind"]) + [s["cond"]]


def kind_names(k):
    """every variable name a statement kind mentions (independent of get_read/written_variables)"""
    out = set()
    for e in kind_exprs(k):
        out |= lang.expr_vars(e)
    if k[0] == "assign":
        out.add(k[1])
        out |= {i for i, _, _ in k[4]}
    if k[0] == "call":
        out |= set(k[1])
    return out


def tree_names(t):
    """every variable name of a tree: statements, guards, loop counters, loop bounds"""
    k = t[0]
    if k == "leaf":
        return kind_names(t[1]["kind"]) | lang.expr_vars(t[1]["cond"])
    if k == "block":
        return set().union(set(), *[tree_names(c) for c in t[1]])
    if k == "if":
        return lang.expr_vars(t[1]) | tree_names(t[2])
    if k == "ifelse":
        return lang.expr_vars(t[1]) | tree_names(t[2]) | tree_names(t[3])
    if k == "for":
        return {t[1]} | lang.expr_vars(t[2]) | lang.expr_vars(t[3]) | tree_names(t[4])
    return set()


def expr_funcs(e):
    k = e[0]
    if k == "not":
        return expr_funcs(e[1])
    if k == "if":
        return expr_funcs(e[1]) | expr_funcs(e[2]) | expr_funcs(e[3])
    if k == "bin":
        return expr_funcs(e[2]) | expr_funcs(e[3])
    if k == "nary":
        return set().union(set(), *[expr_funcs(c) for c in e[2]])
    if k == "call":
        return {e[1]}.union(*[expr_funcs(c) for c in e[2]], *[expr_funcs(v) for _, v in e[3]])
    return set()


def has_call(e):
    return bool(expr_funcs(e))


# ------------------------------------------------------------------ the modelled fragment (mirrors Transform.modelled)

def _zero_lit(e):
    return e == ["int", 0] or e == ["bool", False] or e == ["none"]


def _prod_lit(e):
    return e in (["int", 0], ["int", 1], ["none"]) or e[0] == "bool"


def modelled(e):
    k = e[0]
    if k == "not":
        return modelled(e[1])
    if k == "if":
        return all(modelled(c) for c in e[1:])
    if k == "bin":
        if e[1] in ("floordiv", "rem") and _zero_lit(e[2]):
            return False
        return modelled(e[2]) and modelled(e[3])
    if k == "nary":
        if not all(modelled(c) for c in e[2]):
            return False
        if e[1] == "sum":
            return len(e[2]) >= 2 and not any(_zero_lit(c) or (c[0] == "nary" and c[1] == "sum") for c in e[2])
        if e[1] == "prod":
            return len(e[2]) >= 2 and not any(_prod_lit(c) or (c[0] == "nary" and c[1] == "prod") for c in e[2])
        return True
    if k == "call":
        return all(modelled(c) for c in e[2]) and all(modelled(v) for _, v in e[3])
    return True


def modelled_tree(t):
    return all(modelled(e) for s in leaves(t) for e in kind_exprs(s["kind"]))


def flat(e):
    """the expression as pymbolic.flatten leaves it"""
    from pymbolic import flatten
    return lang.from_pym(flatten(lang.to_pym(e)))


def flat_kind(k):
    t = k[0]
    if t == "assign":
        return ["assign", k[1], None if k[2] is None else flat(k[2]), flat(k[3]),
                [[i, flat(lo), flat(hi)] for i, lo, hi in k[4]]]
    if t == "call":
        return ["call", k[1], k[2], [flat(e) for e in k[3]], [[n, flat(e)] for n, e in k[4]]]
    if t == "yield":
        return ["yield", k[1], k[2], flat(k[3]), flat(k[4])]
    return k


# ------------------------------------------------------------------ running the real passes

def real_pass(name):
    from dagrt.codegen import transform
    return getattr(transform, name)


EXC = {"ValueError": "EValueError", "TypeError": "ETypeError", "IndexError": "EIndexError",
       "AssertionError": "EAssertionError"}


def rw_orders(t):
    """iteration order of `read & written` as the pass will see it (same process, same objects' hashes)"""
    out = []
    for s in leaves(t):
        st = stmt_to_real(s)
        rw = list(st.get_read_variables() & st.get_written_variables())
        if len(rw) >= 2:
            out.append([s["id"], rw])
    return out


def run_passes(t, names):
    """Apply the real passes in order.  ("ok", tree) | ("exc", class name)"""
    try:
        real = tree_to_real(t)
        for n in names:
            real = real_pass(n)(real)
    except Exception as ex:  # noqa: BLE001 - the class is the observable
        return ("exc", type(ex).__name__)
    try:
        return ("ok", tree_from_real(real))
    except Exception as ex:  # noqa: BLE001
        return ("exc", "Unrepresentable:" + type(ex).__name__)


# ------------------------------------------------------------------ tree-walking executor on the real objects

def _exc_name(ex):
    if isinstance(ex, FloatingPointError) and "overflow" in str(ex):
        return "FloatingPointError:overflow"      # int64 overflow: outside the model's universe (exact integers)
    return type(ex).__name__


class _Stop(Exception):
    def __init__(self, status):
        self.status = status


def exec_tree(t, store, funcs=None):
    """Run a tree top to bottom: tree nodes interpreted here, leaves by the real interpreter's
    evaluate_condition / exec_*; user functions record their calls."""
    from dagrt.exec_numpy import FailStepException, NumpyInterpreter, TransitionEvent
    from dagrt.language import DAGCode, ExecutionPhase, Nop, Raise
    log = []

    def wrap(name, f):
        def g(*a, **kw):
            log.append([name, [lang.canon_val(x) for x in a], [[k, lang.canon_val(v)] for k, v in kw.items()]])
            return f(*a, **kw)
        return g
    fm = {n: wrap(n, f) for n, f in lang.function_map(funcs or FUNCS).items()}
    code = DAGCode({"p": ExecutionPhase("p", "p", frozenset([Nop(id="n")]))}, "p")
    interp = NumpyInterpreter(code, fm)
    ctx = {k: lang.val_to_py(v) for k, v in store.items()}
    interp.context = ctx
    interp.eval_mapper.context = ctx
    events = []
    real = tree_to_real(t)
    d = _d()

    budget = [4000]          # statements executed per run (a generated loop bound may be huge)

    def leaf(stmt):
        budget[0] -= 1
        if budget[0] < 0:
            raise _Stop(["crash", "Budget"])
        try:
            if interp.evaluate_condition(stmt):
                res = getattr(interp, stmt.exec_method)(stmt)
                if res is not None and res[0] is not None:
                    e = res[0]
                    events.append([e.component_id, e.time_id, lang.canon_val(e.t), lang.canon_val(e.state_component)])
        except FailStepException:
            raise _Stop(["stop", "fail"])
        except TransitionEvent as tr:
            raise _Stop(["stop", "switch", tr.next_phase])
        except lang.UserFunctionError:
            raise _Stop(["crash", "user"])
        except _Stop:
            raise
        except Exception as ex:  # noqa: BLE001
            if isinstance(stmt, Raise) and type(ex) is stmt.error_condition:
                raise _Stop(["stop", "raise", type(ex).__name__])
            raise _Stop(["crash", _exc_name(ex)])

    def guard(c):
        try:
            return bool(interp.eval_mapper(c))
        except lang.UserFunctionError:
            raise _Stop(["crash", "user"])
        except Exception as ex:  # noqa: BLE001
            raise _Stop(["crash", _exc_name(ex)])

    def walk(n):
        if isinstance(n, d.StatementWrapper):
            leaf(n.statement)
        elif isinstance(n, d.NullASTNode):
            pass
        elif isinstance(n, d.Block):
            for c in n.children:
                walk(c)
        elif isinstance(n, d.IfThenElse):
            if guard(n.condition):
                walk(n.then)
            else:
                walk(n.else_)
        elif isinstance(n, d.IfThen):
            if guard(n.condition):
                walk(n.then)
        elif isinstance(n, d.ForLoop):
            try:
                lo = interp.eval_mapper(n.lbound)
                hi = interp.eval_mapper(n.ubound)
                rng = range(lo, hi)
            except lang.UserFunctionError:
                raise _Stop(["crash", "user"])
            except Exception as ex:  # noqa: BLE001
                raise _Stop(["crash", _exc_name(ex)])
            if hi - lo > 4000:
                raise _Stop(["crash", "Budget"])
            for i in rng:
                ctx[n.loop_var_name] = i
                walk(n.body)
        else:
            raise ValueError(n)

    import numpy as np
    status = ["run"]
    try:
        with np.errstate(all="raise"):      # numpy integer scalars: x % 0 raises like Python's int
            walk(real)
    except _Stop as s:
        status = s.status
    final = {k: lang.canon_val(v) for k, v in ctx.items()}
    return {"status": status, "events": events, "store": final, "log": log}


def in_universe(r):
    if r["status"][0] == "crash":
        return r["status"][1] not in ("FloatingPointError:overflow", "Budget")
    vals = list(r["store"].values()) + [e[2] for e in r["events"]] + [e[3] for e in r["events"]]
    for c in r["log"]:
        vals += c[1] + [v for _, v in c[2]]
    return all(v[0] != "other" for v in vals)


# ------------------------------------------------------------------ oracle (independent of the model)

def lazy_positions(e, pred, lazy=False):
    """does a subexpression satisfying pred occur in a conditionally evaluated position
    (branch of a conditional expression, later operand of and/or)?"""
    k = e[0]
    if lazy and pred(e):
        return True
    if k == "not":
        return lazy_positions(e[1], pred, lazy)
    if k == "if":
        return lazy_positions(e[1], pred, lazy) or lazy_positions(e[2], pred, True) or lazy_positions(e[3], pred, True)
    if k == "bin":
        return lazy_positions(e[2], pred, lazy) or lazy_positions(e[3], pred, lazy)
    if k == "nary":
        if e[1] in ("and", "or"):
            return any(lazy_positions(c, pred, lazy or i > 0) for i, c in enumerate(e[2]))
        return any(lazy_positions(c, pred, lazy) for c in e[2])
    if k == "call":
        return any(lazy_positions(c, pred, lazy) for c in list(e[2]) + [v for _, v in e[3]])
    return False


def andor_tail_if(e, under=False):
    """a conditional expression below a later operand of and/or (not through a conditional's branches)"""
    k = e[0]
    if k == "if":
        return under or any(andor_tail_if(c, False) for c in e[1:])
    if k == "not":
        return andor_tail_if(e[1], under)
    if k == "bin":
        return andor_tail_if(e[2], under) or andor_tail_if(e[3], under)
    if k == "nary":
        if e[1] in ("and", "or"):
            return any(andor_tail_if(c, under or i > 0) for i, c in enumerate(e[2]))
        return any(andor_tail_if(c, under) for c in e[2])
    if k == "call":
        return any(andor_tail_if(c, under) for c in list(e[2]) + [v for _, v in e[3]])
    return False


def hoists_from_lazy(t, names):
    """the known-finding class: some pass of `names` moves an evaluation out of a conditionally
    evaluated position of an expression of the tree"""
    def call_nonvar_args(e):
        return e[0] == "call" and any(a[0] != "var" for a in list(e[2]) + [v for _, v in e[3]])

    def is_call(e):
        return e[0] == "call"
    for s in leaves(t):
        for e in kind_exprs(s["kind"]):
            if "isolate_function_arguments" in names and lazy_positions(e, call_nonvar_args):
                return "isolate_function_arguments"
            if "isolate_function_calls" in names and s["kind"][0] == "assign" and lazy_positions(e, is_call):
                return "isolate_function_calls"
            if "isolate_function_calls" in names and "isolate_function_arguments" in names \
                    and s["kind"][0] == "call" and lazy_positions(e, is_call):
                # the argument isolator first turns the argument into an assignment of its own
                return "isolate_function_calls"
            if "expand_IfThenElse" in names and andor_tail_if(e):
                return "expand_IfThenElse"
    return None


def canon_log(log):
    return sorted(json.dumps([c[0], c[1], sorted(c[2])]) for c in log)


def in_scope(t):
    """hypotheses of the theorems, decided on the input: leaves carry no loops (structured phase),
    guards are call-free, function symbols are not variable names, no NullASTNode"""
    if has_null(t):
        return False
    names = tree_names(t)
    for s in leaves(t):
        if s["kind"][0] == "assign" and s["kind"][4]:
            return False
        if has_call(s["cond"]):
            return False
        for e in stmt_exprs(s):
            if expr_funcs(e) & names:
                return False
        if s["kind"][0] == "call" and s["kind"][2] in names:
            return False
    return True


def and_kids(c):
    return c[2] if (c[0] == "nary" and c[1] == "and") else [c]


def derived_map(tin, tout):
    """pair every input leaf with the list of output leaves that replaced it (None if the output
    does not have the input's shape with leaves replaced by a leaf or a block of leaves)"""
    ki, ko = tin[0], tout[0]
    if ki == "leaf":
        def only_blocks(n):
            return n[0] == "leaf" or (n[0] == "block" and len(n[1]) > 0 and all(only_blocks(c) for c in n[1]))
        if only_blocks(tout):
            return [(tin[1], leaves(tout))]
        return None
    if ki != ko:
        return None
    if ki == "block":
        if len(tin[1]) != len(tout[1]):
            return None
        out = []
        for a, b in zip(tin[1], tout[1]):
            m = derived_map(a, b)
            if m is None:
                return None
            out += m
        return out
    if ki == "if":
        return derived_map(tin[2], tout[2]) if tin[1] == tout[1] else None
    if ki == "ifelse":
        if tin[1] != tout[1]:
            return None
        a, b = derived_map(tin[2], tout[2]), derived_map(tin[3], tout[3])
        return None if a is None or b is None else a + b
    if ki == "for":
        return derived_map(tin[4], tout[4]) if tin[1:4] == tout[1:4] else None
    return [] if tin == tout else None


def static_oracle(tin, tout):
    """freshness of ids and names, guards carried, definition before use -- on the real output"""
    ids_in = [s["id"] for s in leaves(tin)]
    ids_out = [s["id"] for s in leaves(tout)]
    if len(set(ids_in)) == len(ids_in) and len(set(ids_out)) != len(ids_out):
        dup = sorted(i for i in set(ids_out) if ids_out.count(i) > 1)
        return {"kind": "ids", "duplicate_ids": dup}
    m = derived_map(tin, tout)
    if m is None:
        return {"kind": "structure", "detail": "output is not the input with leaves replaced by blocks of leaves"}
    names_in = tree_names(tin)
    for s, outs in m:
        if outs[-1]["id"] != s["id"]:
            return {"kind": "structure", "detail": "last derived statement of %s has id %s" % (s["id"], outs[-1]["id"])}
        introduced = set()
        for o in outs[:-1]:
            w = {o["kind"][1]} if o["kind"][0] == "assign" else set(o["kind"][1]) if o["kind"][0] == "call" else set()
            introduced |= w
        cap = sorted(introduced & names_in)
        if cap:
            return {"kind": "capture", "statement": s["id"], "introduced_names_already_in_tree": cap}
        base = and_kids(s["cond"])
        for o in outs:
            if o["cond"] != s["cond"]:
                kids = and_kids(o["cond"])
                if not (o["cond"][0] == "nary" and o["cond"][1] == "and" and kids[:len(base)] == base):
                    return {"kind": "guard", "statement": s["id"], "derived": o["id"],
                            "guard": s["cond"], "derived_guard": o["cond"]}
        defined = set()
        for o in outs:
            rd = set()
            for e in kind_exprs(o["kind"]) + [o["cond"]]:
                rd |= lang.expr_vars(e)
            early = sorted((rd & introduced) - defined)
            if early:
                return {"kind": "def_before_use", "statement": s["id"], "derived": o["id"],
                        "read_before_set": early}
            if o["kind"][0] == "assign" and o["kind"][2] is None:
                defined.add(o["kind"][1])
            if o["kind"][0] == "call":
                defined |= set(o["kind"][1])
    return None


def sem_oracle(tin, tout, stores):
    names_in = sorted(tree_names(tin))
    for st in stores:
        a = exec_tree(tin, st)
        if a["status"][0] == "crash":
            continue
        b = exec_tree(tout, st)
        if b["status"] == ["crash", "Budget"]:
            continue
        if b["status"][0] == "crash":
            return {"kind": "sem:crash", "store": st, "input_run": a, "output_run": b}
        if a["status"] != b["status"]:
            return {"kind": "sem:stop", "store": st, "input_run": a, "output_run": b}
        diff = sorted(v for v in names_in if a["store"].get(v) != b["store"].get(v))
        if diff:
            return {"kind": "sem:values", "store": st, "differing": diff,
                    "input_values": {v: a["store"].get(v) for v in diff},
                    "output_values": {v: b["store"].get(v) for v in diff}}
        if a["events"] != b["events"]:
            return {"kind": "sem:events", "store": st, "input_run": a, "output_run": b}
        if canon_log(a["log"]) != canon_log(b["log"]):
            return {"kind": "sem:calls", "store": st, "input_calls": a["log"], "output_calls": b["log"]}
    return None


def oracle_all(tin, names, res, stores):
    """Decide the property for (tree, passes) on the implementation's answer: list of failures
    (static: ids / capture / guard / def-before-use / structure; semantic: values / events / calls)."""
    if has_null(tin):
        return []
    if res[0] != "ok":
        return [{"kind": "exception:" + res[1]}]
    out = []
    o = static_oracle(tin, res[1])
    if o is not None:
        out.append(o)
    if in_scope(tin) and (o is None or o["kind"] != "structure"):
        o = sem_oracle(tin, res[1], stores)
        if o is not None:
            out.append(o)
    return out


def oracle(tin, names, res, stores, kind=None):
    """first failure (of the given kind, if any)"""
    for o in oracle_all(tin, names, res, stores):
        if kind is None or o["kind"] == kind:
            return o
    return None


def matches_known(tin, names, o, known):
    """narrow matcher for the open finding: calls / argument evaluations hoisted out of a
    conditionally evaluated position; only 'more calls' or 'now raises' are covered"""
    if o is None or not any(f.get("class") == "hoist_from_lazy_position" for f in known):
        return None
    who = hoists_from_lazy(tin, names)
    if who is None:
        return None
    if o["kind"] == "sem:crash":
        return who
    if o["kind"] == "sem:calls":
        a, b = canon_log(o["input_calls"]), canon_log(o["output_calls"])
        bb = list(b)
        for c in a:
            if c in bb:
                bb.remove(c)
            else:
                return None
        return who           # every original call still happens; there are additional ones
    return None


# ------------------------------------------------------------------ generation

class G7:
    """expressions over int scalars, flags and int arrays; `lazy` = probability of allowing calls /
    conditional expressions in conditionally evaluated positions (the known-finding class)"""

    def __init__(self, rng, ints, arrs, flags, funcs, loopvars=(), lazy=0.0):
        self.rng, self.ints, self.arrs, self.flags = rng, list(ints), list(arrs), list(flags)
        self.funcs, self.loopvars, self.lazy = list(funcs), list(loopvars), lazy

    def atom(self):
        r = self.rng
        pool = self.ints + self.loopvars
        if pool and r.random() < 0.65:
            return ["var", r.choice(pool)]
        return ["int", r.randint(-3, 6)]

    def call(self, d, safe):
        r = self.rng
        f = r.choice([g for g in self.funcs if lang.nres_of(g) == 1 and "arr" not in g and "len" not in g])
        args = [self.int_expr(d - 1, safe) if r.random() < 0.7 else self.atom() for _ in range(r.randint(0, 2))]
        kw = []
        if r.random() < 0.35:
            for nm in r.sample(["k", "key", "b2", "a1"], r.randint(1, 2)):
                kw.append([nm, self.int_expr(d - 1, safe) if r.random() < 0.6 else self.atom()])
        return ["call", f, args, kw]

    def int_expr(self, d=3, safe=False):
        """safe = inside a conditionally evaluated position: no calls unless self.lazy allows"""
        r = self.rng
        if d <= 0 or r.random() < 0.25:
            return self.atom()
        c = r.random()
        if c < 0.22:
            return ["nary", "sum", [self.int_expr(d - 1, safe) for _ in range(r.randint(2, 3))]]
        if c < 0.32:
            return ["nary", "prod", [self.int_expr(d - 2, safe) for _ in range(2)]]
        if c < 0.4:
            return ["bin", r.choice(["floordiv", "rem"]), self.int_expr(d - 1, safe),
                    r.choice([["int", r.choice([2, 3, -2])], self.int_expr(d - 2, safe)])]
        if c < 0.48:
            return ["nary", r.choice(["min", "max"]), [self.int_expr(d - 1, safe) for _ in range(r.randint(2, 3))]]
        if c < 0.66:
            inner = safe or r.random() >= self.lazy
            return ["if", self.bool_expr(d - 1, safe), self.int_expr(d - 1, inner), self.int_expr(d - 1, inner)]
        if c < 0.74 and self.arrs:
            return ["bin", "sub", ["var", r.choice(self.arrs)], self.index_expr()]
        if c < 0.97 and self.funcs:
            if safe and r.random() >= self.lazy:
                return self.atom()
            return self.call(d, safe)
        return self.atom()

    def index_expr(self):
        r = self.rng
        c = r.random()
        if c < 0.5 and self.loopvars:
            return ["var", r.choice(self.loopvars)]
        if c < 0.7 and self.ints:
            return ["bin", "rem", ["var", r.choice(self.ints)], ["int", 2]]
        return ["int", r.randint(-1, 1)]

    def bool_expr(self, d=2, safe=False):
        r = self.rng
        c = r.random()
        if d <= 0 or c < 0.3:
            if self.flags and r.random() < 0.5:
                return ["var", r.choice(self.flags)]
            return ["bin", r.choice(list(lang.CMP)), self.int_expr(1, safe), self.int_expr(1, safe)]
        if c < 0.42:
            return ["not", self.bool_expr(d - 1, safe)]
        if c < 0.66:
            n = r.randint(2, 3)
            kids = []
            for i in range(n):
                tail_safe = safe or (i > 0 and r.random() >= self.lazy)
                kids.append(self.bool_expr_noif(d - 1) if (tail_safe and i > 0) else self.bool_expr(d - 1, tail_safe))
            return ["nary", r.choice(["and", "or"]), kids]
        return ["bin", r.choice(list(lang.CMP)), self.int_expr(d - 1, safe), self.int_expr(d - 1, safe)]

    def bool_expr_noif(self, d):
        """no calls and no conditional expressions (later operand of and/or)"""
        r = self.rng
        if self.flags and r.random() < 0.4:
            return ["var", r.choice(self.flags)]
        return ["bin", r.choice(list(lang.CMP)), self.atom(), self.atom()]


def gen_store(rng, extra=()):
    """every scalar, flag and array of the pools is defined (an undefined variable evaluates to None,
    which numpy accepts as an index -- outside the core model)"""
    s = {}
    for v in INTS + list(extra):
        s[v] = ["int", rng.randint(-2, 5)]
    for v in ARRS:
        s[v] = ["arr", [rng.randint(-3, 9) for _ in range(rng.randint(2, 4))]]
    for v in FLAGS:
        s[v] = ["bool", rng.random() < 0.6]
    return s


def gen_kind(rng, lazy, loops_ok=True, loopvars=()):
    g = G7(rng, INTS, ARRS, FLAGS, FUNCS, loopvars=list(loopvars), lazy=lazy)
    c = rng.random()
    if c < 0.6:
        loops = []
        if loops_ok and rng.random() < 0.3:
            lvs = rng.sample(LOOPVARS, rng.choice([1, 1, 2]))
            for lv in lvs:
                lo = rng.choice([["int", 0], ["int", 1], g.atom()])
                hi = rng.choice([["int", 2], ["int", 3], ["int", 0], ["var", "<p>n"], g.atom()])
                loops.append([lv, lo, hi])
                if rng.random() < 0.7:
                    g.loopvars.append(lv)      # else: counter not used by the statement itself
        if rng.random() < 0.3:
            x = rng.choice(ARRS)
            sub = g.index_expr() if rng.random() < 0.7 else g.int_expr(1)
        else:
            x = rng.choice(INTS + ["z", "<cond>c"])
            sub = None
        rhs = g.bool_expr(2) if x.startswith("<cond>") else g.int_expr(3)
        if rng.random() < 0.25 and sub is None:
            # self-dependency
            rhs = ["nary", "sum", [["var", x], rhs]]
        return ["assign", x, sub, rhs, loops]
    if c < 0.82:
        f = rng.choice(["<func>f", "<func>g", "<func>g2", "<func>raise_h"])
        n = lang.nres_of(f)
        xs = rng.sample(["x", "y", "z", "tmp", "<state>u", "temp_y"], n)
        args = [g.int_expr(2) if rng.random() < 0.6 else ["var", rng.choice(xs + ["x"])] for _ in range(rng.randint(0, 3))]
        kw = [[nm, g.int_expr(1)] for nm in rng.sample(["k", "key", "b2", "a1"], rng.randint(0, 2))]
        return ["call", xs, f, args, kw]
    if c < 0.92:
        return ["yield", rng.choice(["y", "u"]), rng.choice(["final", "t1"]),
                rng.choice([["var", "<p>n"], ["int", 0]]), g.int_expr(2)]
    return rng.choice([["fail"], ["raise", "ValueError"], ["switch", "p2"]])


def lowered_from_statements(rng, lazy):
    """statement list (sequential dependencies, guards, loops) -> real create_ast_from_phase"""
    from dagrt.codegen.dag_ast import create_ast_from_phase
    from dagrt.language import DAGCode, ExecutionPhase
    n = rng.choice([1, 1, 2, 2, 3, 4, 5])
    ids = rng.sample(IDS, n)
    stmts = []
    for i in range(n):
        k = flat_kind(gen_kind(rng, lazy))
        c = rng.random()
        if c < 0.55:
            cond = ["bool", True]
        elif c < 0.8:
            cond = ["var", rng.choice(FLAGS)]
        elif c < 0.9:
            cond = ["nary", "and", [["var", FLAGS[0]], ["not", ["var", rng.choice(FLAGS[1:])]]]]
        else:
            cond = ["bin", "gt", ["var", rng.choice(INTS)], ["int", 0]]
        stmts.append({"id": ids[i], "deps": [ids[i - 1]] if i else [], "cond": cond, "kind": k})
    real = [stmt_to_real(s) for s in stmts]
    code = DAGCode(phases={"p": ExecutionPhase("p", "p", real)}, initial_phase="p")
    return tree_from_real(create_ast_from_phase(code, "p"))


def lowered_from_builder(rng, lazy):
    """builder program through the real CodeBuilder and the real lowering"""
    from dagrt.codegen.dag_ast import create_ast_from_phase
    from dagrt.language import CodeBuilder, DAGCode
    from harness import c02
    cb = CodeBuilder("ph")
    open_ctx = []
    can_else = False
    n = 0
    nst = rng.choice([1, 2, 3, 4, 6])
    while n < nst:
        c = rng.random()
        if c < 0.15 and len(open_ctx) < 2:
            g = G7(rng, INTS, ARRS, FLAGS, FUNCS, lazy=lazy)
            ctx = cb.if_(lang.to_pym(flat(g.bool_expr(1))))
            ctx.__enter__()
            open_ctx.append(("if", ctx))
            can_else = False
            n += 1
        elif c < 0.25 and open_ctx:
            kind, ctx = open_ctx.pop()
            ctx.__exit__(None, None, None)
            can_else = kind == "if"
        elif c < 0.33 and can_else and len(open_ctx) < 2:
            ctx = cb.else_()
            ctx.__enter__()
            open_ctx.append(("else", ctx))
            can_else = False
        else:
            k = flat_kind(gen_kind(rng, lazy))
            if k[0] == "call" and (len(set(k[1])) != len(k[1])):
                continue
            c02.add_real(cb, k)
            n += 1
    while open_ctx:
        open_ctx.pop()[1].__exit__(None, None, None)
    code = DAGCode(phases={"ph": cb.as_execution_phase("ph")}, initial_phase="ph")
    return tree_from_real(create_ast_from_phase(code, "ph"))


def raw_tree(rng, lazy, budget=5, depth=0, loopvars=()):
    """hand-built trees: guarded leaves (no loops on leaves), every node type"""
    c = rng.random()
    if budget <= 1 or depth > 3 or c < 0.35:
        k = flat_kind(gen_kind(rng, lazy, loops_ok=False, loopvars=loopvars))
        cc = rng.random()
        if cc < 0.45:
            cond = ["bool", True]
        elif cc < 0.75:
            cond = ["var", rng.choice(FLAGS)]
        elif cc < 0.9:
            cond = ["nary", "and", [["var", rng.choice(FLAGS)], ["bin", "gt", ["var", rng.choice(INTS)], ["int", 0]]]]
        else:
            cond = ["not", ["var", rng.choice(FLAGS)]]
        return ["leaf", {"id": None, "deps": [], "cond": cond, "kind": k}]
    g = G7(rng, INTS, ARRS, FLAGS, [], lazy=0.0)
    if c < 0.6:
        n = rng.randint(1, min(3, budget))
        return ["block", [raw_tree(rng, lazy, max(1, (budget - 1) // n), depth + 1, loopvars) for _ in range(n)]]
    if c < 0.72:
        return ["if", flat(g.bool_expr(1)), raw_tree(rng, lazy, budget - 1, depth + 1, loopvars)]
    if c < 0.84:
        return ["ifelse", flat(g.bool_expr(1)), raw_tree(rng, lazy, (budget - 1) // 2 + 1, depth + 1, loopvars),
                raw_tree(rng, lazy, (budget - 1) // 2 + 1, depth + 1, loopvars)]
    lv = rng.choice(LOOPVARS)
    used = list(loopvars) + ([lv] if rng.random() < 0.6 else [])
    return ["for", lv, rng.choice([["int", 0], ["int", 1]]), rng.choice([["int", 2], ["int", 3], ["var", "<p>n"], ["var", "tmp"]]),
            raw_tree(rng, lazy, budget - 1, depth + 1, used)]


def number_leaves(t, rng):
    ids = rng.sample(IDS, min(len(IDS), len(leaves(t))))
    ids += ["q%d" % i for i in range(len(leaves(t)) - len(ids))]
    prev = []

    def go(n):
        if n[0] == "leaf":
            s = dict(n[1])
            s["id"] = ids[len(prev)]
            s["deps"] = [prev[-1]] if prev and rng.random() < 0.7 else []
            prev.append(s["id"])
            return ["leaf", s]
        if n[0] == "block":
            return ["block", [go(c) for c in n[1]]]
        if n[0] == "if":
            return ["if", n[1], go(n[2])]
        if n[0] == "ifelse":
            a = go(n[2])
            return ["ifelse", n[1], a, go(n[3])]
        if n[0] == "for":
            return ["for", n[1], n[2], n[3], go(n[4])]
        return n
    return go(t)


def small_exprs():
    """exhaustive small scope: right-hand sides over {x, 1, f(.), g(.,k=.), If(c>0,.,.), .+., c and .}"""
    x, one = ["var", "x"], ["int", 1]
    c = ["bin", "gt", ["var", "c"], ["int", 0]]
    level0 = [x, one]
    level1 = list(level0)
    for a in level0:
        level1.append(["call", "<func>f", [a], []])
        level1.append(["call", "<func>g", [x], [["k", a]]])
    for a in level0:
        for b in level0:
            level1.append(["if", c, a, b])
    level1.append(["nary", "sum", [x, one]])
    level2 = []
    for a in level1:
        level2.append(["call", "<func>f", [a], []])
        level2.append(["nary", "sum", [a, ["var", "y"]]])
        level2.append(["if", c, a, x])
        level2.append(["if", ["bin", "gt", a, ["int", 0]], x, one])
        level2.append(["call", "<func>g", [one], [["k", a], ["b", x]]])
    out = []
    seen = set()
    for e in level1 + level2:
        try:
            e = flat(e)
        except Exception:  # noqa: BLE001
            continue
        key = json.dumps(e)
        if key not in seen and modelled(e):
            seen.add(key)
            out.append(e)
    return out


def exhaustive_cases():
    out = []
    for i, e in enumerate(small_exprs()):
        for target, ident, lv in (("y", "s0", None), ("tmp", "tmp", None), ("y", "s0", "tmp")):
            s = {"id": ident, "deps": [], "cond": ["bool", True], "kind": ["assign", target, None, e, []]}
            t = ["leaf", s]
            if lv is not None:
                if i % 3:
                    continue
                t = ["for", lv, ["int", 0], ["int", 2], t]
            out.append(t)
    return out


def corpus():
    out = []
    d = os.path.join(common.VERIF, "corpus", PID)
    if os.path.isdir(d):
        for f in sorted(os.listdir(d)):
            if f.endswith(".json"):
                c = json.load(open(os.path.join(d, f)))
                out.append((c["tree"], c.get("stores")))
    return out


def gen_cases(tier, seed):
    rng = random.Random(seed * 1000003 + 7)
    cases = []
    dist = {"corpus": 0, "exhaustive": 0, "lowered_statements": 0, "lowered_builder": 0, "raw": 0, "skipped": 0}
    for t, stores in corpus():
        cases.append((t, stores or [gen_store(rng) for _ in range(2)], "corpus"))
        dist["corpus"] += 1
    for t in exhaustive_cases():
        cases.append((t, [{"x": ["int", 2], "y": ["int", 1], "c": ["int", 1], "tmp": ["int", 7]},
                          {"x": ["int", -1], "y": ["int", 0], "c": ["int", 0]}], "exhaustive"))
        dist["exhaustive"] += 1
    n = {"quick": (200, 170, 250), "thorough": (2500, 2000, 3000)}[tier if tier in ("quick", "thorough") else "quick"]
    streams = [("lowered_statements", lowered_from_statements, n[0]), ("lowered_builder", lowered_from_builder, n[1]),
               ("raw", None, n[2])]
    for name, fn, cnt in streams:
        for _ in range(cnt):
            lazy = 0.0 if rng.random() < 0.85 else 0.5
            try:
                if fn is None:
                    t = number_leaves(raw_tree(rng, lazy, rng.randint(1, 7)), rng)
                else:
                    t = fn(rng, lazy)
            except Exception:  # noqa: BLE001 - generator produced something dagrt rejects
                dist["skipped"] += 1
                continue
            if not modelled_tree(t) or not leaves(t):
                dist["skipped"] += 1
                continue
            cases.append((t, [gen_store(rng) for _ in range(2 if tier == "quick" else 3)], name))
            dist[name] += 1
    return cases, dist


# ------------------------------------------------------------------ Coq terms

def store_coq(st):
    return lang.store_to_coq(st)


def call_coq(c):
    return "(%s, [%s], [%s])" % (lang.coq_str(c[0]), "; ".join(lang.val_to_coq(v) for v in c[1]),
                                  "; ".join("(%s, %s)" % (lang.coq_str(k), lang.val_to_coq(v)) for k, v in c[2]))


def run_coq(r, univ):
    if r["status"][0] == "crash":
        return "XTCrashed"
    vals = "[%s]" % "; ".join("Some %s" % lang.val_to_coq(r["store"][v]) if v in r["store"] else "None" for v in univ)
    evs = "[%s]" % "; ".join("(EvYield %s %s %s %s)" % (lang.coq_str(e[0]), lang.coq_str(e[1]), lang.val_to_coq(e[2]),
                                                        lang.val_to_coq(e[3])) for e in r["events"])
    log = "[%s]" % "; ".join(call_coq(c) for c in r["log"])
    if r["status"][0] == "run":
        return "(XTRun %s %s %s)" % (vals, evs, log)
    st = r["status"]
    w = {"fail": "StFail"}.get(st[1]) or ("(StSwitch %s)" % lang.coq_str(st[2]) if st[1] == "switch"
                                          else "(StRaise %s)" % lang.coq_str(st[2]))
    return "(XTStop %s %s %s %s)" % (vals, evs, log, w)


def ords_coq(ords):
    return "; ".join("(%s, [%s])" % (lang.coq_str(i), "; ".join(lang.coq_str(v) for v in vs)) for i, vs in ords)


def sel_term(names, res, univ, outruns):
    if res[0] == "ok":
        out = "(XTree %s)" % tree_to_coq(res[1])
    else:
        out = "(XErr %s)" % EXC[res[1]]
    return "(Build_sel7 [%s] %s [%s])" % (
        "; ".join(lang.coq_str(n) for n in names), out,
        "; ".join("None" if b is None else "(Some %s)" % run_coq(b, univ) for b in outruns))


def case_term(t, ords, univ, stores, inruns, sels):
    """sels: list of (names, res, outruns) -- outruns aligned with stores"""
    return ("(Build_case7 %s [%s] [%s] [%s] [%s] [%s] : case7)"
            % (tree_to_coq(t), ords_coq(ords), "; ".join(lang.coq_str(v) for v in univ),
               "; ".join(store_coq(st) for st in stores), "; ".join(run_coq(a, univ) for a in inruns),
               "; ".join(sel_term(n, r, univ, o) for n, r, o in sels)))


# ------------------------------------------------------------------ shrinking

def _expr_neighbours(e):
    k = e[0]
    subs = []
    if k == "not":
        subs = [e[1]]
    elif k == "if":
        subs = list(e[1:])
    elif k == "bin":
        subs = [e[2], e[3]]
    elif k == "nary":
        subs = list(e[2])
    elif k == "call":
        subs = list(e[2]) + [v for _, v in e[3]]
    for s in subs:
        yield s
    if k not in ("var", "int", "bool", "none"):
        yield ["var", "x"]
        yield ["int", 1]
    if k == "not":
        for c in _expr_neighbours(e[1]):
            yield ["not", c]
    elif k == "if":
        for i in (1, 2, 3):
            for c in _expr_neighbours(e[i]):
                yield e[:i] + [c] + e[i + 1:]
    elif k == "bin":
        for i in (2, 3):
            for c in _expr_neighbours(e[i]):
                yield e[:i] + [c] + e[i + 1:]
    elif k == "nary":
        if len(e[2]) > 2:
            for i in range(len(e[2])):
                yield ["nary", e[1], e[2][:i] + e[2][i + 1:]]
        for i, a in enumerate(e[2]):
            for c in _expr_neighbours(a):
                yield ["nary", e[1], e[2][:i] + [c] + e[2][i + 1:]]
    elif k == "call":
        for i in range(len(e[2])):
            yield ["call", e[1], e[2][:i] + e[2][i + 1:], e[3]]
        for i in range(len(e[3])):
            yield ["call", e[1], e[2], e[3][:i] + e[3][i + 1:]]
        for i, a in enumerate(e[2]):
            for c in _expr_neighbours(a):
                yield ["call", e[1], e[2][:i] + [c] + e[2][i + 1:], e[3]]
        for i, (nm, a) in enumerate(e[3]):
            for c in _expr_neighbours(a):
                yield ["call", e[1], e[2], e[3][:i] + [[nm, c]] + e[3][i + 1:]]


def _stmt_neighbours(s):
    k = s["kind"]
    if s["cond"] != ["bool", True]:
        yield dict(s, cond=["bool", True])
    if s["deps"]:
        yield dict(s, deps=[])
    if k[0] == "assign":
        if k[4]:
            yield dict(s, kind=k[:4] + [k[4][1:]])
        if k[2] is not None:
            yield dict(s, kind=[k[0], k[1], None, k[3], k[4]])
        for c in _expr_neighbours(k[3]):
            yield dict(s, kind=[k[0], k[1], k[2], c, k[4]])
    elif k[0] == "call":
        for i in range(len(k[3])):
            yield dict(s, kind=[k[0], k[1], k[2], k[3][:i] + k[3][i + 1:], k[4]])
        for i in range(len(k[4])):
            yield dict(s, kind=[k[0], k[1], k[2], k[3], k[4][:i] + k[4][i + 1:]])
        for i, a in enumerate(k[3]):
            for c in _expr_neighbours(a):
                yield dict(s, kind=[k[0], k[1], k[2], k[3][:i] + [c] + k[3][i + 1:], k[4]])
        for i, (nm, a) in enumerate(k[4]):
            for c in _expr_neighbours(a):
                yield dict(s, kind=[k[0], k[1], k[2], k[3], k[4][:i] + [[nm, c]] + k[4][i + 1:]])
    elif k[0] == "yield":
        for c in _expr_neighbours(k[4]):
            yield dict(s, kind=[k[0], k[1], k[2], k[3], c])


def _tree_neighbours(t):
    k = t[0]
    if k == "leaf":
        for s in _stmt_neighbours(t[1]):
            yield ["leaf", s]
    elif k == "block":
        for c in t[1]:
            yield c
        for i in range(len(t[1])):
            if len(t[1]) > 1:
                yield ["block", t[1][:i] + t[1][i + 1:]]
        for i, c in enumerate(t[1]):
            for c2 in _tree_neighbours(c):
                yield ["block", t[1][:i] + [c2] + t[1][i + 1:]]
    elif k == "if":
        yield t[2]
        for c2 in _tree_neighbours(t[2]):
            yield ["if", t[1], c2]
    elif k == "ifelse":
        yield t[2]
        yield t[3]
        for c2 in _tree_neighbours(t[2]):
            yield ["ifelse", t[1], c2, t[3]]
        for c2 in _tree_neighbours(t[3]):
            yield ["ifelse", t[1], t[2], c2]
    elif k == "for":
        yield t[4]
        for c2 in _tree_neighbours(t[4]):
            yield ["for", t[1], t[2], t[3], c2]


def _fix_deps(t):
    ids = {s["id"] for s in leaves(t)}

    def go(n):
        if n[0] == "leaf":
            return ["leaf", dict(n[1], deps=[d for d in n[1]["deps"] if d in ids])]
        if n[0] == "block":
            return ["block", [go(c) for c in n[1]]]
        if n[0] == "if":
            return ["if", n[1], go(n[2])]
        if n[0] == "ifelse":
            return ["ifelse", n[1], go(n[2]), go(n[3])]
        if n[0] == "for":
            return ["for", n[1], n[2], n[3], go(n[4])]
        return n
    return go(t)


def shrink(t, fails, limit=400):
    budget = [limit]
    changed = True
    while changed and budget[0] > 0:
        changed = False
        for cand in _tree_neighbours(t):
            budget[0] -= 1
            if budget[0] <= 0:
                break
            try:
                cand = _fix_deps(cand)
                cand = _reflat(cand)
            except Exception:  # noqa: BLE001
                continue
            if tree_size(cand) < tree_size(t) and leaves(cand) and modelled_tree(cand) and fails(cand):
                t = cand
                changed = True
                break
    return t


def _reflat(t):
    if t[0] == "leaf":
        return ["leaf", dict(t[1], kind=flat_kind(t[1]["kind"]))]
    if t[0] == "block":
        return ["block", [_reflat(c) for c in t[1]]]
    if t[0] == "if":
        return ["if", t[1], _reflat(t[2])]
    if t[0] == "ifelse":
        return ["ifelse", t[1], _reflat(t[2]), _reflat(t[3])]
    if t[0] == "for":
        return ["for", t[1], t[2], t[3], _reflat(t[4])]
    return t


# ------------------------------------------------------------------ the check

def first_bad_selection(t, stores, order):
    """which part of a disagreeing case disagrees (re-evaluated piecewise inside Coq)"""
    ords = rw_orders(t)
    univ = sorted(tree_names(t) | set().union(*[set(st) for st in stores]))
    run_in = [exec_tree(t, st) for st in stores]
    tie = [i for i, a in enumerate(run_in) if in_universe(a)]
    st_t, in_t = [stores[i] for i in tie], [run_in[i] for i in tie]
    bad, _, _ = common.eval_cases(PID + "x", HEADER, [case_term(t, ords, univ, st_t, in_t, [])], "pres")
    if bad:
        return {"part": "the input meets the pipeline side conditions (pipe_leaf) but an intermediate tree of the "
                        "pipeline does not meet those of the pass applied to it (hypotheses of C07_pipeline_partial "
                        "are not preserved)"}
    bad, _, _ = common.eval_cases(PID + "x", HEADER, [case_term(t, ords, univ, st_t, in_t, [])], "tie")
    if bad:
        return {"part": "semantics of the input tree (tree executor vs TransformSem.run)", "impl_runs": in_t}
    for names in selections(order):
        res = run_passes(t, names)
        if res[0] != "ok" and res[1] not in EXC:
            continue
        bad, _, _ = common.eval_cases(PID + "x", HEADER, [case_term(t, ords, univ, st_t, in_t, [(names, res, [])])], "tie")
        model = common.eval_term(
            HEADER, "run_passes lang_lhs_sub_reads lang_loop_bound_reads c07_seed_node_vars c07_sd_sorted c07_fci_passes_cond "
                    "c07_ite_flag_first [%s] [%s] %s" % (ords_coq(ords), "; ".join(lang.coq_str(n) for n in names),
                                                         tree_to_coq(t)))[-3000:]
        if bad:
            return {"part": "output tree of the passes", "passes": names, "impl_result": res, "model_result": model}
        if res[0] == "ok":
            outruns = [exec_tree(res[1], st) for st in st_t]
            bad, _, _ = common.eval_cases(PID + "x", HEADER,
                                          [case_term(t, ords, univ, st_t, in_t, [(names, res, outruns)])], "tie")
            if bad:
                return {"part": "semantics of the output tree (tree executor vs TransformSem.run)", "passes": names,
                        "impl_result": res, "impl_runs": outruns}
    return {"part": "not reproduced piecewise"}


def pipeline_order():
    from harness.tr import c07 as tr
    return tr.pass_order(common.REPO)


def selections(order):
    return [[p] for p in PASSES] + [list(order)]


def describe(t):
    try:
        return str(tree_to_real(t))
    except Exception as ex:  # noqa: BLE001
        return "unprintable: %r" % ex


def main(tier):
    rep = common.Reporter(PID, tier)
    seed = common.seed()
    ps = common.proof_stage(rep, PID, gen=["lang", "c07"],
                            extra_targets=["model/TransformCheck.vo"])
    known = common.known_findings(PID)
    try:
        order = pipeline_order()
    except Exception:  # noqa: BLE001 - reported by the proof stage (translator)
        order = list(PASSES)
    cases, dist = gen_cases(tier, seed)

    failing = {}
    known_hits = {}
    terms, term_idx, hterms = [], [], []
    nontriv = set()
    n_runs = 0
    per_pass = {}
    for ci, (t, stores, origin) in enumerate(cases):
        ords = rw_orders(t)
        # compared variables: those of the input tree and of the store (introduced temporaries may alias
        # numpy arrays in the interpreter -- assumption A1 -- and are internal to the output)
        univ = sorted(tree_names(t) | set().union(*[set(st) for st in stores]))
        run_in = [exec_tree(t, st) for st in stores]
        n_runs += len(run_in)
        tie_stores = [i for i, a in enumerate(run_in) if in_universe(a)]
        sels = []
        for names in selections(order):
            label = "+".join(SHORT[n] for n in names)
            res = run_passes(t, names)
            per_pass[label] = per_pass.get(label, 0) + 1
            if res[0] != "ok" or res[1] != t:
                nontriv.add(json.dumps([t, names]))
            for o in oracle_all(t, names, res, stores):
                who = matches_known(t, names, o, known)
                if who is not None:
                    key = (who, o["kind"])
                    if key not in known_hits or tree_size(t) < tree_size(known_hits[key][0]):
                        known_hits[key] = (t, names, o)
                else:
                    key = (label, o["kind"])
                    if key not in failing or tree_size(t) < tree_size(failing[key][0]):
                        failing[key] = (t, names, stores, o)
            # Coq correspondence term
            if res[0] == "ok":
                outruns = []
                for i in tie_stores:
                    b = exec_tree(res[1], stores[i])
                    n_runs += 1
                    outruns.append(b if in_universe(b) else None)
                sels.append((names, res, outruns))
            elif res[1] in EXC:
                sels.append((names, res, []))
            else:
                key = (label, "exception:" + res[1])
                failing.setdefault(key, (t, names, stores, {"kind": "exception:" + res[1]}))
        terms.append(case_term(t, ords, univ, [stores[i] for i in tie_stores], [run_in[i] for i in tie_stores], sels))
        hterms.append(case_term(t, ords, [], [], [], []))
        term_idx.append(ci)

    for (who, kind), (t, names, o) in sorted(known_hits.items()):
        rep.known_finding("%s moves an evaluation out of a conditionally evaluated position (branch of a conditional "
                          "expression / later operand of and-or): %s, e.g. on %s"
                          % (who, kind, describe(t).replace("\n", " ; ")))

    for key, (t, names, stores, o) in sorted(failing.items()):
        kind = o["kind"]

        def fails(c, names=names, stores=stores, kind=kind):
            oo = oracle(c, names, run_passes(c, names), stores, kind)
            return oo is not None and matches_known(c, names, oo, known) is None
        t2 = shrink(t, fails)
        res2 = run_passes(t2, names)
        o2 = oracle(t2, names, res2, stores, kind) or o
        rep.violation({"what": "a statement-rewriting pass changes the meaning, captures a name, drops a guard, "
                               "reads an introduced variable before it is set, or raises",
                       "passes": names, "input_tree": t2, "input_text": describe(t2), "stores": stores,
                       "output_text": describe(res2[1]) if res2[0] == "ok" else res2[1],
                       "impl_result": res2, "oracle": o2,
                       "replay": "./check C07 --replay <this file>"})

    mism, n_eval, errors = [], 0, []
    n_hyp = n_hypp = None
    if os.path.exists(os.path.join(common.COQ, "model", "TransformCheck.vo")) and \
            os.path.exists(os.path.join(common.COQ, "gen", "GenC07.vo")):
        shard = max(20, -(-len(terms) // (2 * common.NPROC)))
        bad, n_eval, errors = common.eval_cases(PID, HEADER, terms, "chk", shard=shard)
        mism = [term_idx[i] for i in bad]
        # how many cases meet the side conditions of all four per-pass theorems (negated checker: the
        # indices that come back are the cases where hyp7 holds)
        hyp_idx, _, herr = common.eval_cases(PID + "h", HEADER, hterms, "nohyp", shard=4 * shard)
        n_hyp = len(hyp_idx) if not herr else None
        hypp_idx, _, herr2 = common.eval_cases(PID + "h", HEADER, hterms, "nohypp", shard=4 * shard)
        n_hypp = len(hypp_idx) if not herr2 else None
    else:
        errors = ["model not built"]
    tie_broken = bool(mism or errors)
    if (not ps["ok"] or tie_broken) and not rep.violations:
        detail = {"what": "proof obligation or model/implementation correspondence no longer checks; "
                          "no failing input found by the implementation-level oracle",
                  "proof_stage": ps, "coq_errors": errors[:3], "n_disagreements": len(mism)}
        if mism:
            ci = mism[0]
            t = cases[ci][0]
            sel = first_bad_selection(t, cases[ci][1], order)
            detail["first_disagreeing_case"] = dict(sel, input_tree=t, input_text=describe(t), stores=cases[ci][1])
        detail["broken"] = ("theorem file %s" % ps.get("theorem")) if not ps["ok"] else \
            "correspondence dagrt.codegen.transform ~ Dagrt.Transform.run_passes / tree executor ~ Dagrt.TransformSem.run"
        rep.violation(detail, no_input=True)
    elif not ps["ok"] or tie_broken:
        rep.coverage["broken_obligation"] = ps if not ps["ok"] else {"disagreements": len(mism)}

    sizes = {}
    for t, _, _ in cases:
        b = min(60, tree_size(t) // 10 * 10)
        sizes[str(b)] = sizes.get(str(b), 0) + 1
    rep.coverage.update(
        evaluations=len(cases) * 5, distinct_nontrivial=len(nontriv),
        rule="case = (tree, pass selection) for each pass alone and the Fortran pipeline order; trees = corpus + "
             "exhaustive small right-hand sides + real lowering of statement lists / builder programs + hand-built "
             "guarded trees, adversarial names; non-trivial = the real pass output differs from its input (or raises); "
             "distinct by (tree, selection)",
        traces_validated_against_impl=n_eval, model_impl_disagreements=len(mism),
        tree_executions_by_oracle=n_runs,
        input_distribution=dict(dist, pass_selections=per_pass, tree_size_histogram=sizes,
                                pipeline_order=order),
        samples=[{"input": describe(cases[i][0]), "origin": cases[i][2]} for i in
                 (0, len(cases) // 2, len(cases) - 1)],
        known_finding_hits=len(known_hits),
        cases_meeting_all_theorem_side_conditions=n_hyp,
        cases_meeting_pipeline_side_conditions=n_hypp,
        side_conditions_preserved_along_pipeline="checked inside Coq on every case meeting the pipeline side "
                                                 "conditions (pres7); a failure counts as a model/implementation "
                                                 "disagreement",
    )
    rep.assumptions = [
        "A1 value semantics of arrays", "A2 user functions are pure (the call log is compared as a multiset)",
        "structured phases: leaves carry no loops (the lowering peels them), guards are call-free, function "
        "symbols are not variable names",
        "a run of the input tree that raises a Python exception is not compared",
        "expressions are fixed points of pymbolic.flatten; names are ASCII without line breaks"]
    return rep.finish("proof")


def replay(path):
    r = json.load(open(path))
    t = r.get("input_tree") or (r.get("first_disagreeing_case") or {}).get("input_tree")
    if t is None:
        print("replay names a broken obligation, no input: %s" % r.get("broken"))
        return 1
    names = r.get("passes") or (r.get("first_disagreeing_case") or {}).get("passes")
    stores = r.get("stores") or [gen_store(random.Random(0))]
    res = run_passes(t, names)
    os_ = oracle_all(t, names, res, stores)
    known = common.known_findings(PID)
    print(json.dumps({"input": describe(t), "passes": names,
                      "output": describe(res[1]) if res[0] == "ok" else res[1], "oracle": os_,
                      "known_finding": [matches_known(t, names, o, known) for o in os_]}, indent=1, default=str))
    return 1 if any(matches_known(t, names, o, known) is None for o in os_) else 0
